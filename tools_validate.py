#!/usr/bin/env python3
"""Validate MANIFEST.json and every evidence file against the given schemas (python3-vt)."""
import json, sys, glob, jsonschema
ok = True
m = json.load(open('/verif/MANIFEST.json'))
jsonschema.validate(m, json.load(open('/root/.vp/MANIFEST.schema.json')))
props = [json.loads(l)['id'] for l in open('/verif/properties.jsonl')]
claimed = [c['property_id'] for c in m['checks']]
na = [c['property_id'] for c in m.get('not_applicable', [])]
assert sorted(claimed + na) == sorted(props), (sorted(claimed + na), props)
es = json.load(open('/root/.vp/EVIDENCE.schema.json'))
for c in m['checks']:
    f = c['evidence_file']
    try:
        jsonschema.validate(json.load(open(f)), es)
    except Exception as e:
        ok = False
        print('INVALID', f, str(e)[:200])
print('manifest ok; claimed', len(claimed), 'n/a', len(na), 'evidence ok' if ok else 'evidence PROBLEMS')
sys.exit(0 if ok else 1)
