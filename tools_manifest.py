#!/usr/bin/env python3
"""Regenerates /verif/MANIFEST.json from the table below (run after adding a property checker)."""
import json, subprocess

# property -> (technique, level text, level note)
P = {
 "C01": ("rank-table extraction + comparator/scan normal form (SSA value provenance) + guard-cut reachability over the matcher loops + sibling agreement of capture bounds",
         "Decides structural necessary conditions of dispatch priority: style ranks are strictly ordered; both insertion sites are strict-< forward scans over the receiver's list (stable, FIFO among equals) with the list read after every recursive registration; failed siblings fall through to the next alternative; the match-all leaf is tried last; match-all growth is shortest-first; capture bounds agree between tree and leaf; the request method selects the tree. the style interpreters classify a segment by its syntax alone (static only a single literal, placeholder only a single {bind} other than **, match-all only behind the ** test); It does not decide that these mechanisms compose to the documented total order for every route set.",
         "Trusts go/types + go/ssa; regexp semantics and the composition argument are not decided."),
 "C02": ("taint from literal segment text to regexp.Compile (sanitizer regexp.QuoteMeta), anchoring, submatch-index provenance, capture identity and who-may-decode tables over go/ssa",
         "Decides that literal text is quoted before it reaches the regexp, the pattern is anchored at both ends, submatch pairing is group-aware and shared by both matchers, placeholder/match-all captures store exactly the segment under the node's own bind, values are percent-decoded exactly once, and both dispatch paths inject `route` from the dispatched leaf.",
         "Trusts regexp, net/url; which substrings a user expression captures is not decided."),
 "C03": ("effect analysis of the chain cursor + dominance/cut-reachability ordering of the run loop + provenance of the per-request handler slice",
         "Decides the premises of the cursor induction in DESIGN.md: only Next and the run loop write the cursor, each by +1; the loop selects handlers[index] or the action, invokes, advances exactly once, renders return values, and takes the back edge only when nothing was written and the request is not cancelled; injection failure panics; the chain is app middleware, then group/route handlers, on a fresh slice.",
         "The induction from the premises to the behavioural statement is on paper (DESIGN.md); handler bodies are arbitrary programs and are not analysed."),
 "C04": ("never-after ordering in Value, key/value provenance at registration, index-agreement and error-before-call in both invoke paths, sibling agreement of the fast invokers",
         "Decides lookup order exact -> same-scope implementors (interfaces only) -> parent; registration keys and plain overwrite; argument slot i is Value(In(i)) for the same i in both invoke paths, an unresolved argument returns an error and cannot reach the call; each fast invoker passes args[i].(T) in position i exactly once and returns results in order; Apply sets only tagged settable fields from valid values; per-request injector is fresh and parented to the application.",
         "reflect semantics trusted."),
 "C05": ("effect/ownership analysis over the request-phase call-graph closure: stores classified by owner type (shared vs per-request), append hazards, freshness of per-request objects, atomic-only status access",
         "Decides that no function reachable while serving writes shared framework state except inside sync.Once.Do / sync/atomic; per-request objects are fresh allocations and do not escape into shared objects; injector mutators at request time target the request scope only. This is an ownership argument, not a race proof.",
         "No pointer analysis is available: aliasing is approximated by static type ownership; dependencies and user handlers are outside the analysis."),
 "C06": ("table extraction (lexer rules, parser struct tags, README grammar blocks) and agreement as sets/grammars; printer-vs-grammar token skeleton",
         "Decides that the struct-tag grammar equals the README EBNF production by production, that the lexer token classes equal the documented character classes, lexer state-machine side conditions (declared states, disjoint first sets, push/pop discipline per state as documented, lookahead), and that the canonical printer emits exactly the grammar's token sequence per alternative with one blank after ':' and ','. Round 8: a segment of one literal / {bind} / {parameter list} element is rendered within that kind's own production (language equality alone accepts a parameter list rendered in the {bind} form).",
         "participle's interpreter is trusted; totality of parsing is not decided."),
 "C07": ("path counting of chain starts, compiler prove pass (check_bce) + cursor-provenance lattice for slices of the path, guarded type assertions, ban on non-deterministic inputs in the routing path",
         "Decides that every path through router.ServeHTTP starts exactly one chain; that every index/slice of the request path in the matcher is either proven by the Go compiler's prove pass or discharged by the cursor lattice (0<=next<=len); type assertions in the matcher are guarded by the style they assert; the not-found chain is built from the application's context creator. Round 8: a leaf matcher reports a match only behind its header gate asked about this request's headers, also where the gate is asked by the callers (shared with C09.R1).",
         "gc's prove pass is trusted as a static analysis; panics inside regexp/net/url/user handlers are not decided."),
 "C08": ("error-discipline dataflow on the registration call graph, guard-cut reachability for method/duplicate/optional/empty/match-all checks, bind-set domination at node allocations, nil-typestate of the root tree",
         "Decides that every error on the registration path is propagated or panics at registration; unknown methods cannot reach parse/add; an equal-text leaf or a second match-all cannot reach the list store; every bind-carrying node allocation is dominated by a failed lookup of its bind(s) among ancestors and within the segment; only the last segment may be optional; the root tree's nil segment is never dereferenced. Round 8: a leaf is published to the static shortcut only where that leaf itself reports Static(), per method (shared with C10.R1/R2/R6); the method test may be an explicit enumeration of all nine verbs.",
         "Completeness of acceptance beyond absence of nil-dereference/explicit-error paths is not decided."),
 "C09": ("boolean value implication of every leaf matcher's verdict by the header matcher, loop-exit-only true in HeaderMatcher.Match, coverage of Headers() over all leaves incl. the optional short form, who-may-set",
         "Decides that each leaf matcher's true verdict implies its header matcher accepted the request's headers; Match is a conjunction over all constraints with empty values failing; Headers() builds a fresh matcher, applies it to every leaf of the route including the implicit short form, and evicts the shortcut entry.",
         "regexp matching and HTTP header canonicalisation trusted."),
 "C10": ("guard-cut reachability of the shortcut insert, key provenance for insert/evict/lookup, eviction post-dominance, summary of Static()",
         "Decides that the shortcut table is written only under leaf.Static(), keyed by the leaf's own route text for the same method, evicted wherever a header matcher is set, looked up by method and raw path, and that Static() is true only for non-optional leaves all of whose ancestors are static.",
         "The paper argument (DESIGN.md) that these facts make the table unobservable relies on C01."),
 "C11": ("push/pop dominance and post-dominance around the group callback, concatenation provenance, append-hazard analysis on registration-phase slices, verb tables",
         "Decides group stack discipline, prefix/handler concatenation order on a fresh slice, absence of append aliasing on long-lived handler slices, verb->method constant agreement for router and ComboRoute, AutoHead gating, one Route call per collected method, and Combo duplicate refusal.",
         "Behavioural equality with the flat expansion follows only together with C01/C03."),
 "C12": ("sibling agreement of bind traversal between printer, regex constructor and URL skeleton; taint from annotations to the skeleton; substitution idiom recognition; guard-cut for the optional segment",
         "Decides that URL building enumerates every bind the matcher binds, drops annotations, substitutes simultaneously (single Replacer or direct emission), gates the optional segment on withOptional, and that the router front end panics on unknown/empty/duplicate names and forwards pairs unchanged. Round 8: Name() passes over no leaf of the route, so a single-method route cannot stay unnamed.",
         "Inverse relation to matching for all paths is not decided."),
 "C13": ("who-may-call on the embedded writer, cut-reachability ordering inside the once-guarded status region, value provenance of status/size, descending hook loop recognition",
         "Decides the per-method premises of the response-writer state machine: the underlying WriteHeader is reachable only inside the sync.Once region (or a !Written() guard), after the hooks, with the caller's status, and the status is recorded atomically only after it; underlying Write/Flush only after Written() or an implicit WriteHeader(200) through the wrapper; no body for HEAD; size grows by the forwarded count only; hooks run in reverse registration order from that region only. Round 8: the attempt to send the first status is consumed (sync.Once) before the hooks run, so a hook runs at most once also when one of them panics.",
         "sync.Once and sync/atomic contracts trusted; hook re-entrancy not decided."),
 "C14": ("value provenance of every status/body write in the default return handler, guard-cut on validity/zero/error edges, return-handler dispatch in the run loop, fast-path result order",
         "Decides the shape of the return-value table: WriteHeader arguments are 500 on the non-nil-error edge or int(vals[0]) on the Kind()==Int edge of the two-value case; bodies derive from the selected value or err.Error(); nothing is written for invalid/zero values; the run loop looks the handler up by type and passes (context, values); the teapot fast path returns its results in declaration order. Round 8: a returned body commits the response whatever the method (shares C13.R4: the implicit 200 precedes the HEAD shortcut).",
         "reflect.Value semantics trusted."),
 "C15": ("defer/recover structure of the Recovery literal, guard-cut 500 on the recovered edge, taint from recover()/stack to response sinks guarded by Env()==dev, exit-call ban over the request phase",
         "Decides that a deferred literal calling recover() directly dominates Next(), does not re-panic, writes 500 on the recovered edge, lets panic detail reach the response only under development mode, that injection failures panic inside the chain, and that nothing reachable while serving exits the process.",
         "Panics inside third-party logger formatting are not decided."),
 "C16": ("guard-cut reachability of Open and of every response effect in the Static handler, boundary-test normal form, file-access who-may-call ban",
         "Decides the method gate, the prefix test at a segment boundary, that response effects are unreachable unless Open and Stat succeeded (and the index is a regular file), that the only file access is FileSystem.Open on the configured file system, and that what is served is the opened file or the opened index.",
         "http.Dir containment and http.ServeContent behaviour trusted (stdlib)."),
 "C17": ("ordering and provenance per render method, option flow into encoders, per-request mapping of Render",
         "Decides, for each of JSON/XML/Binary/PlainText, Content-Type (right format constant, configured charset) -> WriteHeader(own status parameter) -> body from the own value parameter on the wrapper writer; indentation options reach the encoders; charset defaults to utf-8; Renderer maps a fresh render bound to the request's writer on the request context. Round 8: every path through Renderer's handler maps the render.",
         "Encoder fidelity (encoding/json, encoding/xml) trusted."),
 "C18": ("compiler prove pass for index safety + totality ban list over accessor methods, sibling agreement of the default rule, parse-function table, escape/unescape pairing",
         "Decides that the accessors contain no unproven index, unchecked assertion, explicit panic or partial callee; that every Query* sibling returns the default exactly on (value empty and default given); that each typed accessor uses the documented parser with base 10 / 64 bits; and that SetCookie/Cookie form a QueryEscape/QueryUnescape pair with raw fallback. Round 8: once the text was parsed strconv's value is the answer also on ErrRange (another value only where errors.Is(err, strconv.ErrRange) is false; ParseBool's false).",
         "net/http cookie sanitising and strconv semantics trusted."),
}

CLAIMED = ["C01", "C02", "C03", "C04", "C05", "C06", "C07", "C08", "C09", "C10", "C11", "C12", "C13", "C14", "C15", "C16", "C17", "C18"]

def main():
    checks = []
    na = []
    for pid in sorted(P):
        tech, text, note = P[pid]
        if pid in CLAIMED:
            checks.append({
                "property_id": pid,
                "quick_cmd": "./check %s quick" % pid,
                "thorough_cmd": "./check %s thorough" % pid,
                "evidence_file": "/verif/evidence/%s.json" % pid,
                "replay_cmd_template": "./bin/flamecheck -property %s -replay {path}" % pid,
                "engine": "flamecheck",
                "level_claimed": {"category": "other", "text": text, "design_ref": "DESIGN.md section 3, " + pid},
                "level_note": note + " Level 'other': structural necessary conditions decided by static analysis; the behavioural property itself is not proven.",
                "technique": "static analysis: " + tech,
            })
        else:
            na.append({"property_id": pid, "reason": "not claimed yet: the static rules designed for it (DESIGN.md section 3) are not built; no verdict is given"})
    m = {
        "version": 1,
        "setup_cmd": "cd /verif/checker && GOFLAGS=-mod=mod GOPROXY=off GOSUMDB=off GOTOOLCHAIN=local GOWORK=off go build -o ../bin/flamecheck . && cd /repo && GOFLAGS=-mod=mod GOPROXY=off GOSUMDB=off GOTOOLCHAIN=local GOWORK=off go build ./...",
        "hooks": {
            "guard": "verif",
            "enable": "none needed: static analysis reads the unmodified source of /repo's working tree (no hooks, no instrumentation)",
            "baseline_off_cmd": "cd /repo && GOFLAGS=-mod=mod GOPROXY=off GOSUMDB=off go test -json -vet=off -count=1 -timeout 25m ./...",
            "source_commits": [],
            "add_only": True,
        },
        "engines": [{
            "name": "flamecheck",
            "path": "/verif/checker",
            "serves_properties": sorted(CLAIMED),
            "kind_free_text": "repo-specific static analyzer over go/packages + go/types + go/ssa (x/tools v0.29.0): cut-reachability, dominance, value provenance, effect/ownership, sibling and table agreement; no flamego code is executed",
        }],
        "checks": checks,
        "not_applicable": na,
        "notes": "All verdicts come from static analysis of /repo's current working tree. `./check <id> thorough` adds a whole-program load (dependencies and stdlib bodies), the GOARCH=386 file selection and the in-memory rule-liveness audit (seeds/seeds.txt), which tests the checker and never decides the verdict. Known findings: KNOWN_FINDINGS.txt.",
    }
    json.dump(m, open('/verif/MANIFEST.json', 'w'), indent=1)
    print("wrote MANIFEST.json: claimed", len(checks), "not_applicable", len(na))

if __name__ == "__main__":
    main()
