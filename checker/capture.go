package main

// Capture by value of effectively-final variables. A local variable that is assigned several times and
// then read by a function literal stays a memory cell in the SSA form, although nothing can change it
// once the literal exists. When every assignment of the variable lies textually before the statement
// that creates the literal, none lies in a loop around that statement or inside any literal, and its
// address is never taken, the literal may as well read a copy made right before that statement:
//
//	xC := x; S(func() { … xC … })
//
// The variable itself is then an ordinary SSA value (φ of its assignments) in the enclosing function.
// Variables that are never reassigned are left alone (a single-store cell is already transparent).

import (
	"fmt"
	"go/ast"
	"go/token"
	"go/types"
	"sort"
)

func (ns *normState) planCaptures() editSet {
	es := editSet{}
	shorts := make([]string, 0, len(ns.pkgs))
	for s := range ns.pkgs {
		shorts = append(shorts, s)
	}
	sort.Strings(shorts)
	n := 0
	for _, short := range shorts {
		pk := ns.pkgs[short]
		info := pk.TypesInfo
		for _, file := range pk.Syntax {
			for _, d := range file.Decls {
				fd, ok := d.(*ast.FuncDecl)
				if !ok || fd.Body == nil {
					continue
				}
				n += ns.captureInFunc(info, fd, es)
			}
		}
	}
	if n > 0 {
		ns.notes = append(ns.notes, fmt.Sprintf("%d effectively-final captured variable(s) are read through a copy made when the function literal is created", n))
	}
	return es
}

func (ns *normState) captureInFunc(info *types.Info, fd *ast.FuncDecl, es editSet) int {
	// results are assigned by return statements: never candidates
	results := map[types.Object]bool{}
	if fd.Type.Results != nil {
		for _, f := range fd.Type.Results.List {
			for _, nm := range f.Names {
				results[info.Defs[nm]] = true
			}
		}
	}
	hasGoto := false
	type asg struct {
		pos   token.Pos
		inLit bool
	}
	assigns := map[types.Object][]asg{}
	addrTaken := map[types.Object]bool{}
	var lits []*ast.FuncLit
	var stack []ast.Node
	inLit := func() bool {
		for _, n := range stack {
			if _, ok := n.(*ast.FuncLit); ok {
				return true
			}
		}
		return false
	}
	noteAssign := func(e ast.Expr) {
		if id, ok := e.(*ast.Ident); ok {
			if o := info.ObjectOf(id); o != nil {
				assigns[o] = append(assigns[o], asg{id.Pos(), inLit()})
			}
		}
	}
	ast.Inspect(fd.Body, func(n ast.Node) bool {
		if n == nil {
			stack = stack[:len(stack)-1]
			return true
		}
		switch x := n.(type) {
		case *ast.BranchStmt:
			if x.Tok == token.GOTO {
				hasGoto = true
			}
		case *ast.AssignStmt:
			if x.Tok != token.DEFINE {
				for _, l := range x.Lhs {
					noteAssign(l)
				}
			} else {
				// a redefinition in a := with mixed new/old names assigns the old ones
				for _, l := range x.Lhs {
					if id, ok := l.(*ast.Ident); ok && info.Defs[id] == nil {
						noteAssign(l)
					}
				}
			}
		case *ast.IncDecStmt:
			noteAssign(x.X)
		case *ast.RangeStmt:
			if x.Tok == token.ASSIGN {
				if x.Key != nil {
					noteAssign(x.Key)
				}
				if x.Value != nil {
					noteAssign(x.Value)
				}
			}
		case *ast.UnaryExpr:
			if x.Op == token.AND {
				if id, ok := x.X.(*ast.Ident); ok {
					addrTaken[info.ObjectOf(id)] = true
				}
			}
		case *ast.FuncLit:
			if !inLit() {
				lits = append(lits, x)
			}
		}
		stack = append(stack, n)
		return true
	})
	if hasGoto || len(lits) == 0 {
		return 0
	}
	// method values x.m with pointer receivers on addressable x take the address implicitly: any selector
	// on the variable whose selection is a method with pointer receiver counts as address-taken
	ast.Inspect(fd.Body, func(n ast.Node) bool {
		if se, ok := n.(*ast.SelectorExpr); ok {
			if id, ok := se.X.(*ast.Ident); ok {
				if sel := info.Selections[se]; sel != nil && sel.Kind() != types.FieldVal {
					if sig, ok := sel.Obj().Type().(*types.Signature); ok && sig.Recv() != nil {
						if _, isPtr := sig.Recv().Type().(*types.Pointer); isPtr {
							if _, varIsPtr := info.TypeOf(id).Underlying().(*types.Pointer); !varIsPtr {
								addrTaken[info.ObjectOf(id)] = true
							}
						}
					}
				}
			}
		}
		return true
	})
	count := 0
	used := map[string]bool{}
	for _, lit := range lits {
		// the statement of a statement list that contains the literal, and the loops around it
		var host ast.Stmt
		var loops []ast.Node
		var path []ast.Node
		var find func(n ast.Node) bool
		find = func(n ast.Node) bool {
			found := false
			ast.Inspect(n, func(m ast.Node) bool {
				if found {
					return false
				}
				if m == nil {
					path = path[:len(path)-1]
					return true
				}
				path = append(path, m)
				if m == ast.Node(lit) {
					found = true
					// freeze the path
					var list []ast.Stmt
					for i := len(path) - 1; i >= 0; i-- {
						switch p := path[i].(type) {
						case *ast.BlockStmt:
							list = p.List
						case *ast.CaseClause:
							list = p.Body
						case *ast.CommClause:
							list = p.Body
						}
						if list != nil && host == nil && i+1 < len(path) {
							if st, ok := path[i+1].(ast.Stmt); ok {
								for _, s := range list {
									if s == st {
										host = st
									}
								}
							}
							if host == nil {
								list = nil
							}
						}
						switch path[i].(type) {
						case *ast.ForStmt, *ast.RangeStmt:
							loops = append(loops, path[i])
						}
					}
					return false
				}
				return true
			})
			return found
		}
		path = nil
		if !find(fd.Body) || host == nil {
			continue
		}
		if _, isLabeled := host.(*ast.LabeledStmt); isLabeled {
			continue
		}
		// captured variables of the literal
		caps := map[types.Object][]*ast.Ident{}
		ast.Inspect(lit.Body, func(n ast.Node) bool {
			id, ok := n.(*ast.Ident)
			if !ok {
				return true
			}
			v, ok := info.Uses[id].(*types.Var)
			if !ok || v.IsField() || v.Pkg() == nil || v.Parent() == v.Pkg().Scope() {
				return true
			}
			// declared in fd, outside the literal
			if v.Pos() < fd.Pos() || v.Pos() >= fd.End() || (v.Pos() >= lit.Pos() && v.Pos() < lit.End()) {
				return true
			}
			caps[v] = append(caps[v], id)
			return true
		})
		var objs []types.Object
		for o := range caps {
			objs = append(objs, o)
		}
		sort.Slice(objs, func(i, j int) bool { return objs[i].Pos() < objs[j].Pos() })
		var pre string
		for _, o := range objs {
			as := assigns[o]
			if len(as) == 0 || results[o] || addrTaken[o] {
				continue
			}
			ok := true
			for _, a := range as {
				if a.inLit || a.pos >= host.Pos() {
					ok = false
				}
				for _, lp := range loops {
					if a.pos >= lp.Pos() && a.pos < lp.End() {
						ok = false
					}
				}
			}
			// declared inside the host statement itself (e.g. an if-init of the host): cannot copy before it
			if o.Pos() >= host.Pos() {
				ok = false
			}
			if !ok {
				continue
			}
			name := o.Name() + "Cap"
			for i := 0; used[name] || fdDeclares(info, fd, name); i++ {
				name = fmt.Sprintf("%sCap%d", o.Name(), i)
			}
			used[name] = true
			pre += name + " := " + o.Name() + "; "
			for _, id := range caps[o] {
				es.add(ns.fset, id.Pos(), id.End(), name)
			}
			count++
		}
		if pre != "" {
			es.add(ns.fset, host.Pos(), host.Pos(), pre)
		}
	}
	return count
}

func fdDeclares(info *types.Info, fd *ast.FuncDecl, name string) bool {
	found := false
	ast.Inspect(fd, func(n ast.Node) bool {
		if id, ok := n.(*ast.Ident); ok && id.Name == name {
			found = true
		}
		return !found
	})
	return found
}
