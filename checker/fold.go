package main

// Folding of write-once package-level type keys: `var returnHandlerType =
// reflect.TypeOf(ReturnHandler(nil))` read in place of the expression itself
// (a hoisted invariant) is substituted back at its uses, so that provenance
// matchers see the expression. Only initialisers built from reflect.TypeOf,
// inject.InterfaceOf, (reflect.Type).Elem, conversions of nil and composite
// literals without operands are folded (pure, value independent of time), and
// only for private variables that are never assigned or address-taken.

import (
	"go/ast"
	"go/token"
	"go/types"
	"os"
	"strings"
)

func pureTypeKeyExpr(e ast.Expr, info *types.Info) bool {
	switch x := e.(type) {
	case *ast.ParenExpr:
		return pureTypeKeyExpr(x.X, info)
	case *ast.Ident:
		if x.Name == "nil" {
			return true
		}
		_, isType := info.Uses[x].(*types.TypeName)
		return isType
	case *ast.StarExpr:
		return pureTypeKeyExpr(x.X, info)
	case *ast.SelectorExpr:
		// qualified type name
		_, isType := info.Uses[x.Sel].(*types.TypeName)
		return isType
	case *ast.CallExpr:
		// conversion T(nil) / (*T)(nil)
		if tv, ok := info.Types[x.Fun]; ok && tv.IsType() {
			return len(x.Args) == 1 && pureTypeKeyExpr(x.Args[0], info)
		}
		sel, ok := x.Fun.(*ast.SelectorExpr)
		if !ok {
			return false
		}
		if fn, ok := info.Uses[sel.Sel].(*types.Func); ok {
			full := fn.FullName()
			switch {
			case full == "reflect.TypeOf" || strings.HasSuffix(full, "/inject.InterfaceOf"):
				return len(x.Args) == 1 && pureTypeKeyExpr(x.Args[0], info)
			case full == "(reflect.Type).Elem":
				return len(x.Args) == 0 && pureTypeKeyExpr(sel.X, info)
			}
		}
	}
	return false
}

func (ns *normState) planFolds() editSet {
	es := editSet{}
	addedImport := map[string]bool{}
	for _, pk := range ns.pkgs {
		info := pk.TypesInfo
		type cand struct {
			obj  *types.Var
			init ast.Expr
			file *ast.File
		}
		var cands []cand
		for _, f := range pk.Syntax {
			for _, d := range f.Decls {
				gd, ok := d.(*ast.GenDecl)
				if !ok || gd.Tok != token.VAR {
					continue
				}
				for _, sp := range gd.Specs {
					vs := sp.(*ast.ValueSpec)
					if len(vs.Names) != 1 || len(vs.Values) != 1 || vs.Names[0].Name == "_" || ast.IsExported(vs.Names[0].Name) {
						continue
					}
					obj, _ := info.Defs[vs.Names[0]].(*types.Var)
					if obj == nil || !pureTypeKeyExpr(vs.Values[0], info) {
						continue
					}
					cands = append(cands, cand{obj, vs.Values[0], f})
				}
			}
		}
		for _, cd := range cands {
			// never assigned, never address-taken
			mutated := false
			var uses []*ast.Ident
			useFile := map[*ast.Ident]*ast.File{}
			for _, f := range pk.Syntax {
				ast.Inspect(f, func(n ast.Node) bool {
					switch x := n.(type) {
					case *ast.AssignStmt:
						for _, l := range x.Lhs {
							if id, ok := l.(*ast.Ident); ok && info.Uses[id] == types.Object(cd.obj) {
								mutated = true
							}
						}
					case *ast.UnaryExpr:
						if id, ok := x.X.(*ast.Ident); ok && x.Op == token.AND && info.Uses[id] == types.Object(cd.obj) {
							mutated = true
						}
					case *ast.IncDecStmt:
						if id, ok := x.X.(*ast.Ident); ok && info.Uses[id] == types.Object(cd.obj) {
							mutated = true
						}
					case *ast.Ident:
						if info.Uses[x] == types.Object(cd.obj) {
							uses = append(uses, x)
							useFile[x] = f
						}
					}
					return true
				})
			}
			if mutated || len(uses) == 0 {
				continue
			}
			// the expression's qualified names must resolve in every using file: same imports under the same names
			src := ns.srcOf(cd.file, cd.init.Pos(), cd.init.End())
			if src == "" {
				continue
			}
			need := map[string]string{} // local package name -> path
			ast.Inspect(cd.init, func(n ast.Node) bool {
				if sel, ok := n.(*ast.SelectorExpr); ok {
					if id, ok := sel.X.(*ast.Ident); ok {
						if pn, ok := info.Uses[id].(*types.PkgName); ok {
							need[id.Name] = pn.Imported().Path()
						}
					}
				}
				return true
			})
			okAll := true
			var importEdits []func()
			for _, u := range uses {
				f := useFile[u]
				have := map[string]string{}
				for _, im := range f.Imports {
					p := strings.Trim(im.Path.Value, `"`)
					name := p[strings.LastIndex(p, "/")+1:]
					if im.Name != nil {
						name = im.Name.Name
					}
					have[name] = p
				}
				for n, p := range need {
					if have[n] == "" {
						// not imported in the using file: the import is added (once per file and name)
						k := ns.fset.Position(f.Pos()).Filename + "|" + n
						{
							at := f.Name.End()
							for _, d := range f.Decls {
								if gd, ok := d.(*ast.GenDecl); ok && gd.Tok == token.IMPORT {
									at = gd.End()
								}
							}
							n, p := n, p
							importEdits = append(importEdits, func() {
								if !addedImport[k] {
									addedImport[k] = true
									es.add(ns.fset, at, at, "; import "+n+" \""+p+"\"")
								}
							})
						}
						continue
					}
					if have[n] != p {
						okAll = false
					}
				}
				// a local declaration shadowing a needed package name or type would change the meaning: the
				// re-type-check of the round catches that (the step is dropped if it does not type-check)
			}
			if !okAll {
				continue
			}
			for _, ie := range importEdits {
				ie()
			}
			for _, u := range uses {
				es.add(ns.fset, u.Pos(), u.End(), "("+src+")")
			}
			ns.notes = append(ns.notes, "the write-once package variable "+pk.Types.Name()+"."+cd.obj.Name()+" (a hoisted type key) is read as its initialiser "+src)
		}
	}
	return es
}

// srcOf returns the source text of [pos, end) in the current overlay (or on disk).
func (ns *normState) srcOf(f *ast.File, pos, end token.Pos) string {
	tf := ns.fset.File(pos)
	if tf == nil {
		return ""
	}
	b, ok := ns.overlay[tf.Name()]
	if !ok {
		var err error
		b, err = os.ReadFile(tf.Name())
		if err != nil {
			return ""
		}
	}
	s, e := tf.Offset(pos), tf.Offset(end)
	if s < 0 || e > len(b) || s > e {
		return ""
	}
	return string(b[s:e])
}
