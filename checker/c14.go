package main

// C14 Handler return values map to the response by a fixed table.

import (
	"go/token"
	"go/types"
	"strings"

	"golang.org/x/tools/go/ssa"
)

func init() { register("C14", checkC14) }

const (
	reflectKindInt    = 2
	reflectKindString = 24
)

func checkC14(c *Check) {
	p := c.P
	c.Explain = "value provenance of every status and body write in the default return handler, guard-cut reachability on the validity / zero / is-error edges, the return-handler dispatch in the run loop, and the result order of the built-in fast path"
	c.NotDec = []string{"reflect.Value semantics for every value (IsZero, String() on non-string kinds)", "status 0 and other codes net/http rejects (outside \"valid status codes\")"}
	c.Trusted = []string{"package reflect"}

	// ---- R1 dispatch in the run loop
	c.Rule("R1", "E3 + E1", "after a handler returned values, the ReturnHandler registered in the injector is looked up by type and called with (context, values) before the Written() test; the application registers the default one", 3)
	a := resolveChain(c)
	c.curRule = "C14.R1"
	if a != nil {
		run := a.run
		key := p.FuncKey(run)
		recv := vParam(run, 0)
		I := a.invoke.(*ssa.Call)
		valsV := vExtract(0, vIs(I))
		var rh ssa.CallInstruction
		allInstrs(run, func(in ssa.Instruction) {
			ci, ok := in.(ssa.CallInstruction)
			if !ok || callName(ci.Common()) != "dynamic" {
				return
			}
			ta, isTA := assertOf(ci.Common().Value)
			if !isTA || namedName(ta.AssertedType) != "ReturnHandler" {
				return
			}
			rh = ci
		})
		if rh == nil {
			c.Bad(key+":return-handler", p.FuncPos(run), "returned values are never handed to a ReturnHandler")
		} else {
			ta, _ := assertOf(rh.Common().Value)
			lookedUp := vCall("(reflect.Value).Interface", vCall("(inject.TypeMapper).Value", vAny, vCall("reflect.TypeOf", func(v ssa.Value) bool {
				cst, ok := strip(v).(*ssa.Const)
				return ok && namedName(cst.Type()) == "ReturnHandler"
			})))(ta.X)
			args := rh.Common().Args
			okArgs := len(args) == 2 && recv(args[0]) && valsV(args[1])
			c.Cond(lookedUp, key+":return-handler-lookup", p.Pos(rh.Pos()), "handler = Value(TypeOf(ReturnHandler(nil))).Interface().(ReturnHandler): a registered handler replaces the default", "the return handler is not looked up by type in the injector: a user-registered ReturnHandler cannot replace the table")
			c.Cond(okArgs, key+":return-handler-args", p.Pos(rh.Pos()), "called with (context, values of this invocation)", "the return handler does not receive this context and the values just returned")
			some := edgesWhere(run, cCmp(token.GTR, vLen(valsV), vConstInt(0)), false)
			written := func(in ssa.Instruction) bool {
				v, ok := in.(ssa.Value)
				return ok && vCall("(flamego.ResponseWriter).Written")(v)
			}
			in, path := Query{Fn: run, Cut: some, Avoid: isInstr(rh)}.After(I, func(in ssa.Instruction) bool { return written(in) || isReturn(in) })
			if in == nil && len(some) > 0 {
				c.OK(key+":rendered-before-written-test", p.Pos(rh.Pos()), "len(vals) > 0 ⇒ the return handler runs before the Written() test", numInstrs(run))
			} else {
				c.Bad(key+":rendered-before-written-test", p.Pos(rh.Pos()), "returned values can be skipped, or rendered after the chain decided whether to continue", blockPath(path))
			}
		}
	}
	if nw := p.Fn("flamego", "NewWithLogger"); nw != nil {
		ok := false
		for _, ci := range callsIn(nw, func(n string, cm *ssa.CallCommon) bool { return cm.IsInvoke() && cm.Method.Name() == "Map" }) {
			if appendsOnly(ci.Common().Args[0], vCall("flamego.defaultReturnHandler")) {
				ok = true
			}
		}
		c.Cond(ok, p.FuncKey(nw)+":maps-default-return-handler", p.FuncPos(nw), "f.Map(defaultReturnHandler())", "the application no longer registers the default return handler")
	} else {
		c.Anchor("flamego.NewWithLogger")
	}

	// the framework itself maps a ReturnHandler nowhere in the request phase: a per-request
	// mapping shadows the one the application registered (own values are consulted before the parent's)
	{
		isRH := func(v ssa.Value) bool {
			if mi, ok := v.(*ssa.MakeInterface); ok {
				v = mi.X
			}
			return namedName(v.Type()) == "ReturnHandler"
		}
		n := 0
		for _, fn := range p.REQList() {
			for _, ci := range callsIn(fn, func(nm string, cm *ssa.CallCommon) bool {
				m := nm
				if cm.IsInvoke() {
					m = cm.Method.Name()
				}
				return strings.HasSuffix(m, "Map") || strings.HasSuffix(m, "MapTo") || strings.HasSuffix(m, ").Set") || m == "Set"
			}) {
				for _, a := range callArgs(ci.Common()) {
					if derivesFrom(a, isRH, nil) {
						n++
						c.Bad(p.FuncKey(fn)+":maps-return-handler-per-request", p.Pos(ci.Pos()), "a ReturnHandler is mapped into the per-request injector by the framework itself: it shadows the handler registered on the application, which no longer replaces the table")
					}
				}
			}
		}
		if n == 0 {
			c.OK("REQ:no-per-request-return-handler", "request phase", "no request-phase function maps a ReturnHandler", 1)
		}
	}

	// ---- R2/R4 table shape
	c.Rule("R2", "E1 + E3", "status: 500 on the non-nil-error edge, int(vals[0].Int()) on the Kind()==Int edge of the two-value case, nothing else; body: err.Error() or the selected value's Bytes()/String() (after at most one Elem()), only for valid, non-zero values; the selected value is vals[1] only for (int, x) and for a (string|[]byte, error) whose second value is an error", 6)
	c.Rule("R4", "E3", "the writer is the http.ResponseWriter resolved through the injector of the context", 1)
	drh := p.Fn("flamego", "defaultReturnHandler")
	if drh == nil {
		c.Anchor("flamego.defaultReturnHandler")
		return
	}
	var lit *ssa.Function
	for _, l := range drh.AnonFuncs {
		if l.Signature.Params().Len() == 2 {
			lit = l
		}
	}
	if lit == nil {
		c.curRule = "C14.R2"
		c.Undecided(p.FuncKey(drh)+":literal", p.FuncPos(drh), "no func(Context, []reflect.Value) literal")
		return
	}
	key := p.FuncKey(lit)
	ctxP, valsP := vParam(lit, 0), vParam(lit, 1)
	valAt := func(k int64) VM { return vElem(valsP, vConstInt(k)) }
	// writer
	isW := func(v ssa.Value) bool {
		ta, ok := strip(v).(*ssa.TypeAssert)
		if !ok || namedName(ta.AssertedType) != "ResponseWriter" {
			return false
		}
		// inject.InterfaceOf((*T)(nil)) is reflect.TypeOf((*T)(nil)).Elem() for an interface T
		typ := vOr(vCall("inject.InterfaceOf"), vCall("(reflect.Type).Elem", vCall("reflect.TypeOf")))
		return vCall("(reflect.Value).Interface", vCall("(inject.TypeMapper).Value", ctxP, typ))(ta.X)
	}
	var whs, wrs []ssa.CallInstruction
	okW := true
	allInstrs(lit, func(in ssa.Instruction) {
		ci, ok := in.(ssa.CallInstruction)
		if !ok || !ci.Common().IsInvoke() {
			return
		}
		switch ci.Common().Method.Name() {
		case "WriteHeader":
			whs = append(whs, ci)
			if !isW(ci.Common().Value) {
				okW = false
			}
		case "Write":
			wrs = append(wrs, ci)
			if !isW(ci.Common().Value) {
				okW = false
			}
		}
	})
	c.curRule = "C14.R4"
	c.Cond(okW && len(whs)+len(wrs) > 0, key+":writer", p.FuncPos(lit), "w = c.Value(InterfaceOf((*http.ResponseWriter)(nil))).Interface().(http.ResponseWriter)", "the return handler writes to something other than the injector's http.ResponseWriter")

	c.curRule = "C14.R2"
	// selected value phi
	var respVal *ssa.Phi
	allInstrs(lit, func(in ssa.Instruction) {
		if ph, ok := in.(*ssa.Phi); ok && len(ph.Edges) >= 4 && namedName(ph.Type()) == "Value" {
			respVal = ph
		}
	})
	if respVal == nil {
		// the selection may be recorded first (an enum: nothing / first / second) and looked up afterwards:
		// a φ of reflect.Value that merges vals[0] and vals[1]
		allInstrs(lit, func(in ssa.Instruction) {
			ph, ok := in.(*ssa.Phi)
			if !ok || namedName(ph.Type()) != "Value" || respVal != nil {
				return
			}
			has0, has1 := false, false
			for _, e := range ph.Edges {
				has0 = has0 || valAt(0)(e)
				has1 = has1 || valAt(1)(e)
			}
			if has0 && has1 {
				respVal = ph
			}
		})
	}
	if respVal == nil {
		c.Undecided(key+":selection", p.FuncPos(lit), "selected value φ not found")
		return
	}
	isResp := func(v ssa.Value) bool {
		v = strip(v)
		if v == ssa.Value(respVal) {
			return true
		}
		if ph, ok := v.(*ssa.Phi); ok {
			// φ(respVal, respVal.Elem())
			for _, e := range ph.Edges {
				if strip(e) != ssa.Value(respVal) && !vCall("(reflect.Value).Elem", vIs(respVal))(e) {
					return false
				}
			}
			return true
		}
		return false
	}
	errV := func(v ssa.Value) bool {
		e, ok := strip(v).(*ssa.Extract)
		if !ok || e.Index != 0 {
			return false
		}
		ta, ok := e.Tuple.(*ssa.TypeAssert)
		return ok && isErrorT(ta.AssertedType) && vCall("(reflect.Value).Interface", vIs(respVal))(ta.X)
	}
	errOK := func(v ssa.Value) bool {
		e, ok := strip(v).(*ssa.Extract)
		if !ok || e.Index != 1 {
			return false
		}
		ta, ok := e.Tuple.(*ssa.TypeAssert)
		return ok && isErrorT(ta.AssertedType) && vCall("(reflect.Value).Interface", vIs(respVal))(ta.X)
	}
	isErrEdge := edgesWhere(lit, cBool(errOK), true)
	// err != nil, or simply the ok edge of the assertion: x.(error) succeeds only for a non-nil interface value,
	// so the extra test is redundant (modernisers remove it)
	nonNilErr := union(edgesWhere(lit, cCmp(token.NEQ, errV, vNil), true), isErrEdge)
	kindInt := edgesWhere(lit, cCmp(token.EQL, vCall("(reflect.Value).Kind", valAt(0)), vConstInt(reflectKindInt)), true)
	two := edgesWhere(lit, cCmp(token.EQL, vLen(valsP), vConstInt(2)), true)
	// statuses
	n500, nInt := 0, 0
	for _, wh := range whs {
		arg := wh.Common().Args[0]
		pos := p.Pos(wh.Pos())
		flagOff := EdgeSet{}
		// a status that travels next to a "has status" flag (two results of a selection helper): where the flag is
		// true the status is the value that was chosen together with it
		if ph, isPhi := strip(arg).(*ssa.Phi); isPhi {
			for _, in2 := range ph.Block().Instrs {
				fl, isFl := in2.(*ssa.Phi)
				if !isFl || fl == ph || len(fl.Edges) != len(ph.Edges) {
					continue
				}
				if bt, isB := fl.Type().Underlying().(*types.Basic); !isB || bt.Kind() != types.Bool {
					continue
				}
				onFlag := edgesWhere(lit, cBool(vIs(fl)), true)
				if g, _ := guardedBy(lit, onFlag, isInstr(wh)); !g || len(onFlag) == 0 {
					continue
				}
				var chosen ssa.Value
				same := true
				for i, e := range fl.Edges {
					if vConstBool(false)(e) {
						continue
					}
					if chosen == nil {
						chosen = ph.Edges[i]
					} else if strip(chosen) != strip(ph.Edges[i]) {
						same = false
					}
				}
				if chosen != nil && same {
					arg = chosen
					flagOff = union(flagOff, edgesWhere(lit, cBool(vIs(fl)), false))
				}
			}
		}
		switch {
		case vConstInt(500)(arg):
			n500++
			g1, _ := guardedBy(lit, isErrEdge, isInstr(wh))
			g2, _ := guardedBy(lit, nonNilErr, isInstr(wh))
			c.Cond(g1 && g2 && len(isErrEdge) > 0 && len(nonNilErr) > 0, key+":status-500", pos, "500 only when the selected value is a non-nil error", "status 500 is sent although the selected value is not a non-nil error")
		case vCall("(reflect.Value).Int", valAt(0))(arg):
			nInt++
			g1, _ := guardedBy(lit, kindInt, isInstr(wh))
			g2, _ := guardedBy(lit, two, isInstr(wh))
			c.Cond(g1 && g2 && len(kindInt) > 0 && len(two) > 0, key+":status-from-int", pos, "int(vals[0].Int()) only in the two-value case with vals[0].Kind() == Int", "the handler's int is used as status outside the (int, x) shape")
			// … and always there: once the (int, x) shape is recognised no return is reached without the status
			// having been sent (a status remembered and sent only behind later tests is lost for e.g. an empty body)
			sent := true
			var badPath string
			for e := range kindInt {
				if g, _ := guardedBy(lit, two, func(in ssa.Instruction) bool { return in.Block() == e.B }); !g {
					continue
				}
				if in, path := (Query{Fn: lit, Cut: flagOff, Avoid: isInstr(wh)}).Reach(e.B.Succs[e.S], 0, isReturn); in != nil {
					sent, badPath = false, blockPath(path)
				}
			}
			if sent {
				c.OK(key+":status-always-sent", pos, "from the (int, x) shape every path to a return passes WriteHeader(int)", 1)
			} else {
				c.Bad(key+":status-always-sent", pos, "the (int, x) shape can return without the handler's status having been sent", badPath)
			}
		default:
			c.Bad(key+":status", pos, "unexpected status "+vstr(arg)+": the table only knows 500 for errors and the handler's own int")
		}
	}
	if n500 == 0 {
		c.Bad(key+":status-500", p.FuncPos(lit), "a non-nil error no longer produces status 500")
	}
	if nInt == 0 {
		c.Bad(key+":status-from-int", p.FuncPos(lit), "(int, x) no longer uses the int as status")
	}
	// bodies
	valid := edgesWhere(lit, cBool(vCall("(reflect.Value).IsValid", vIs(respVal))), true)
	nonZero := edgesWhere(lit, cBool(vCall("(reflect.Value).IsZero", vIs(respVal))), false)
	nErrBody, nValBody := 0, 0
	for _, wr := range wrs {
		arg := wr.Common().Args[0]
		pos := p.Pos(wr.Pos())
		g0, _ := guardedBy(lit, valid, isInstr(wr))
		fromErr := func(v ssa.Value) bool {
			cv, ok := strip(v).(*ssa.Convert)
			if !ok {
				return false
			}
			cl := asCall(cv.X)
			return cl != nil && cl.Call.IsInvoke() && cl.Call.Method.Name() == "Error" && errV(cl.Call.Value)
		}
		fromVal := func(v ssa.Value) bool {
			if vCall("(reflect.Value).Bytes", isResp)(v) {
				return true
			}
			cv, ok := strip(v).(*ssa.Convert)
			return ok && vCall("(reflect.Value).String", isResp)(cv.X)
		}
		switch {
		case fromErr(arg):
			nErrBody++
			g1, _ := guardedBy(lit, nonNilErr, isInstr(wr))
			c.Cond(g0 && g1, key+":body-error", pos, "body = err.Error() on the non-nil-error edge", "an error message is written outside the non-nil-error edge")
		case fromVal(arg):
			nValBody++
			g1, _ := guardedBy(lit, nonZero, isInstr(wr))
			c.Cond(g0 && g1 && len(valid) > 0 && len(nonZero) > 0, key+":body-value", pos, "body = selected value's Bytes()/String(), only when valid and non-zero", "a body is written for an invalid or zero value (the chain would stop although the handler returned nothing)")
		default:
			c.Bad(key+":body", pos, "the body "+vstr(arg)+" is not derived from the returned value")
		}
	}
	if nErrBody == 0 || nValBody < 2 {
		c.Bad(key+":body", p.FuncPos(lit), "the table no longer writes the error message and both the bytes and the string form of the value")
	}
	// selection
	okSel := true
	why := ""
	nV1 := 0
	isErrOfV1 := edgesWhere(lit, cBool(func(v ssa.Value) bool {
		e, ok := strip(v).(*ssa.Extract)
		if !ok || e.Index != 1 {
			return false
		}
		ta, ok := e.Tuple.(*ssa.TypeAssert)
		return ok && isErrorT(ta.AssertedType) && vCall("(reflect.Value).Interface", valAt(1))(ta.X)
	}), true)
	notErrOfV1 := edgesWhere(lit, cBool(func(v ssa.Value) bool {
		e, ok := strip(v).(*ssa.Extract)
		if !ok || e.Index != 1 {
			return false
		}
		ta, ok := e.Tuple.(*ssa.TypeAssert)
		return ok && isErrorT(ta.AssertedType) && vCall("(reflect.Value).Interface", valAt(1))(ta.X)
	}), false)
	one := edgesWhere(lit, cCmp(token.EQL, vLen(valsP), vConstInt(1)), true)
	// incoming values of the selection, through nested φs (a helper's merged result)
	type incoming struct {
		e    ssa.Value
		pred *ssa.BasicBlock
		blk  *ssa.BasicBlock
	}
	var ins []incoming
	seenPhi := map[*ssa.Phi]bool{}
	var flat func(ph *ssa.Phi)
	flat = func(ph *ssa.Phi) {
		if seenPhi[ph] {
			return
		}
		seenPhi[ph] = true
		for i, e := range ph.Edges {
			if inner, isPhi := e.(*ssa.Phi); isPhi {
				flat(inner)
				continue
			}
			ins = append(ins, incoming{e, ph.Block().Preds[i], ph.Block()})
		}
	}
	flat(respVal)
	// a recorded choice: where an incoming value is selected by `pick == K` and pick is a φ of constants, the
	// value arrives, for the purpose of the table, on the edges where pick was given K
	{
		var pick *ssa.Phi
		allInstrs(lit, func(in ssa.Instruction) {
			ph, ok := in.(*ssa.Phi)
			if !ok || pick != nil {
				return
			}
			if b, isB := ph.Type().Underlying().(*types.Basic); !isB || b.Info()&types.IsInteger == 0 {
				return
			}
			allConst := len(ph.Edges) >= 3
			phiLeaves(ph, func(l ssa.Value) {
				if _, isC := strip(l).(*ssa.Const); !isC {
					allConst = false
				}
			})
			if allConst {
				pick = ph
			}
		})
		if pick != nil {
			type pin struct {
				k    int64
				pred *ssa.BasicBlock
				blk  *ssa.BasicBlock
			}
			var pins []pin
			seenP := map[*ssa.Phi]bool{}
			var flatP func(ph *ssa.Phi)
			flatP = func(ph *ssa.Phi) {
				if seenP[ph] {
					return
				}
				seenP[ph] = true
				for i, e := range ph.Edges {
					if inner, isPhi := e.(*ssa.Phi); isPhi {
						flatP(inner)
						continue
					}
					if k, ok := constInt(e); ok {
						pins = append(pins, pin{k, ph.Block().Preds[i], ph.Block()})
					}
				}
			}
			flatP(pick)
			ks := map[int64]bool{}
			for _, pn := range pins {
				ks[pn.k] = true
			}
			var expanded []incoming
			for _, inc := range ins {
				var sel *int64
				for k := range ks {
					kk := k
					g := edgesWhere(lit, cCmp(token.EQL, vIs(pick), vConstInt(kk)), true)
					if len(g) > 0 && edgeGuarded(lit, g, inc.pred, inc.blk) {
						sel = &kk
					}
				}
				if sel == nil {
					expanded = append(expanded, inc)
					continue
				}
				for _, pn := range pins {
					if pn.k == *sel {
						expanded = append(expanded, incoming{inc.e, pn.pred, pn.blk})
					}
				}
			}
			ins = expanded
		}
	}
	for _, inc := range ins {
		e, pred := inc.e, inc.pred
		respBlk := inc.blk
		switch {
		case valAt(0)(e):
			if !edgeGuarded(lit, one, pred, respBlk) && !edgeGuarded(lit, notErrOfV1, pred, respBlk) {
				okSel, why = false, "vals[0] is selected although the second value is an error (or outside the one-/two-value shapes)"
			}
		case valAt(1)(e):
			nV1++
			if !edgeGuarded(lit, kindInt, pred, respBlk) && !edgeGuarded(lit, isErrOfV1, pred, respBlk) {
				okSel, why = false, "vals[1] is selected although vals[0] is not an int and vals[1] is not an error"
			}
		default:
			if cst, ok := strip(e).(*ssa.Const); !ok || !types.Identical(cst.Type(), respVal.Type()) {
				okSel, why = false, "unexpected selected value "+vstr(e)
			}
		}
	}
	c.Cond(okSel && nV1 == 2, key+":selection", p.Pos(respVal.Pos()), "selected = vals[0] | vals[1] (Kind Int edge / is-an-error edge) | none", "the selected value does not follow the table: "+why)

	// ---- R5 the status the table sends is recorded
	c.Rule("R5", "shared with C13 (R1, R2, R4, R6)", "a status handed to the response writer reaches the client once and is recorded, and a returned body commits the response whatever the method (the implicit 200 precedes the HEAD shortcut), so Written() turns true and the chain stops: no class of status codes or requests bypasses the bookkeeping", 8)
	c.Share("C13", []string{"R1", "R2", "R4", "R6"}, 8)

	// ---- R3 fast path equals reflective path
	c.Rule("R3", "E6 (shared with C04.R4)", "every built-in fast invoker returns [ValueOf(r0), ValueOf(r1), …] of its function's results in declaration order on every path, whatever their value: a fast path that drops or reshapes a result (e.g. nothing for \"\") bypasses the registered return handler", 1)
	if fi := p.Named("inject", "FastInvoker"); fi != nil {
		seenTeapot := false
		for _, m := range p.Implementations(fi.Underlying().(*types.Interface), "Invoke") {
			if m.Pkg != p.SSA["flamego"] {
				continue
			}
			if strings.Contains(p.FuncKey(m), "teapotInvoker") {
				seenTeapot = true
			}
			sub := NewCheck(p, "C14", c.Tier, c.Seed)
			sub.Rule("R3", "", "", 0)
			checkFastInvoker(sub, m)
			bad := false
			for _, o := range sub.Obs {
				if o.Status == "violated" {
					bad = true
					c.Bad(o.Construct, o.Pos, o.How)
				}
			}
			if !bad {
				c.OK(p.FuncKey(m)+":results", p.FuncPos(m), "fast path returns its results in order", 1)
			}
		}
		if !seenTeapot {
			c.Anchor("flamego.teapotInvoker")
		}
	} else {
		c.Anchor("inject.FastInvoker")
	}
}

// assertOf: the type assertion producing v, in the plain form x.(T) or the comma-ok form.
func assertOf(v ssa.Value) (*ssa.TypeAssert, bool) {
	v = strip(v)
	if e, ok := v.(*ssa.Extract); ok && e.Index == 0 {
		v = e.Tuple
	}
	ta, ok := v.(*ssa.TypeAssert)
	return ta, ok
}
