package main

// Role-based anchors. Rules are written against today's declared names of
// private helpers ("route.newLeaf", "(*flamego.context).run", field
// "context.index"). When a declared name is missing (the helper was renamed)
// the helper is looked for by its ROLE — what it does — and, if exactly one
// candidate exists, it is aliased to the canonical name so that every matcher
// keeps working. A role with no or several candidates stays unresolved and the
// rules report an unresolvable anchor as before.

import (
	"go/token"
	"go/types"
	"strings"
	"sync"

	"golang.org/x/tools/go/ssa"
)

var funcAlias sync.Map  // *ssa.Function -> canonical call name
var fieldAlias sync.Map // *types.Var -> canonical field name

func (p *Prog) resolveRoles() {
	p.roleFn = map[string]*ssa.Function{}
	for k, v := range p.preRole {
		p.roleFn[k] = v
	}
	p.roleField = map[string]*types.Var{}
	route := p.SSA["route"]
	flame := p.SSA["flamego"]
	if route == nil || flame == nil {
		return
	}
	topFuncs := func(pkg *ssa.Package, pred func(f *ssa.Function) bool) []*ssa.Function {
		var out []*ssa.Function
		for _, f := range p.funcs {
			if f.Pkg == pkg && f.Parent() == nil && f.Synthetic == "" && pred(f) {
				out = append(out, f)
			}
		}
		return out
	}
	implementsNamed := func(t types.Type, ifaceName string) bool {
		n := p.Named("route", ifaceName)
		if n == nil {
			return false
		}
		iface := n.Underlying().(*types.Interface)
		return types.Implements(t, iface) || types.Implements(types.NewPointer(t), iface)
	}
	allocsOf := func(f *ssa.Function, ifaceName string) int {
		seen := map[string]bool{}
		allInstrs(f, func(in ssa.Instruction) {
			if al, ok := in.(*ssa.Alloc); ok {
				t := derefT(al.Type())
				if _, isStruct := t.Underlying().(*types.Struct); isStruct && implementsNamed(t, ifaceName) {
					seen[t.String()] = true
				}
			}
		})
		return len(seen)
	}
	callsMethod := func(f *ssa.Function, full string) bool { return len(callsNamed(f, full)) > 0 }
	bind := func(key string, declared *ssa.Function, cands []*ssa.Function, alias string) {
		if declared != nil {
			p.roleFn[key] = declared
			return
		}
		if p.roleFn[key] != nil {
			return
		}
		if len(cands) == 1 {
			p.roleFn[key] = cands[0]
			funcAlias.Store(cands[0], alias)
			p.roleNotes = append(p.roleNotes, key+" resolved by role to "+p.FuncKey(cands[0]))
		}
	}
	noRecv := func(f *ssa.Function) bool { return f.Signature.Recv() == nil }
	recvIs := func(f *ssa.Function, typ string) bool {
		r := f.Signature.Recv()
		return r != nil && namedName(derefT(r.Type())) == typ
	}

	bind("route.newLeaf", route.Func("newLeaf"), topFuncs(route, func(f *ssa.Function) bool { return noRecv(f) && allocsOf(f, "Leaf") >= 3 }), "route.newLeaf")
	bind("route.newTree", route.Func("newTree"), topFuncs(route, func(f *ssa.Function) bool { return noRecv(f) && allocsOf(f, "Tree") >= 3 }), "route.newTree")
	bind("route.getParentBindSet", route.Func("getParentBindSet"), topFuncs(route, func(f *ssa.Function) bool {
		if !noRecv(f) || f.Signature.Results().Len() != 1 {
			return false
		}
		m, ok := f.Signature.Results().At(0).Type().Underlying().(*types.Map)
		if !ok {
			return false
		}
		st, isStruct := m.Elem().Underlying().(*types.Struct)
		return isStruct && st.NumFields() == 0
	}), "route.getParentBindSet")
	bind("route.constructMatchStyleRegex", route.Func("constructMatchStyleRegex"), topFuncs(route, func(f *ssa.Function) bool {
		for _, ci := range callsNamed(f, "regexp.Compile", "regexp.MustCompile") {
			if vCall("(*bytes.Buffer).String")(ci.Common().Args[0]) {
				return true
			}
		}
		return false
	}), "route.constructMatchStyleRegex")
	bind("route.addLeaf", route.Func("addLeaf"), topFuncs(route, func(f *ssa.Function) bool { return noRecv(f) && callsMethod(f, "(route.Tree).setLeaves") }), "route.addLeaf")
	bind("route.addSubtree", route.Func("addSubtree"), topFuncs(route, func(f *ssa.Function) bool { return noRecv(f) && callsMethod(f, "(route.Tree).setSubtrees") }), "route.addSubtree")
	bind("route.addNextSegment", route.Func("addNextSegment"), topFuncs(route, func(f *ssa.Function) bool {
		if !noRecv(f) {
			return false
		}
		a, b := false, false
		allInstrs(f, func(in ssa.Instruction) {
			if ci, ok := in.(ssa.CallInstruction); ok {
				if sc := ci.Common().StaticCallee(); sc != nil {
					if sc == p.roleFn["route.addLeaf"] {
						a = true
					}
					if sc == p.roleFn["route.addSubtree"] {
						b = true
					}
				}
			}
		})
		return a && b
	}), "route.addNextSegment")

	// baseTree matcher methods
	usesField := func(f *ssa.Function, name string) bool {
		found := false
		allInstrs(f, func(in ssa.Instruction) {
			if fa, ok := in.(*ssa.FieldAddr); ok && fieldOf(fa).Name() == name {
				found = true
			}
		})
		return found
	}
	hasIntParam := func(f *ssa.Function) bool {
		for _, prm := range f.Params {
			if isIntT(prm.Type()) {
				return true
			}
		}
		return false
	}
	leafBool := func(f *ssa.Function) bool {
		r := f.Signature.Results()
		return r.Len() == 2 && namedName(r.At(0).Type()) == "Leaf"
	}
	bind("route.(*baseTree).matchSubtree", p.Meth("route", "baseTree", "matchSubtree"), topFuncs(route, func(f *ssa.Function) bool {
		return recvIs(f, "baseTree") && leafBool(f) && usesField(f, "subtrees") && hasIntParam(f)
	}), "(*route.baseTree).matchSubtree")
	bind("route.(*baseTree).matchLeaf", p.Meth("route", "baseTree", "matchLeaf"), topFuncs(route, func(f *ssa.Function) bool {
		return recvIs(f, "baseTree") && leafBool(f) && usesField(f, "leaves") && !usesField(f, "subtrees") && !hasIntParam(f)
	}), "(*route.baseTree).matchLeaf")

	// flamego
	bind("flamego.(*Flame).createContext", p.Meth("flamego", "Flame", "createContext"), topFuncs(flame, func(f *ssa.Function) bool {
		return recvIs(f, "Flame") && f.Signature.Results().Len() == 1 && namedName(f.Signature.Results().At(0).Type()) == "internalContext"
	}), "(*flamego.Flame).createContext")
	bind("flamego.newContext", flame.Func("newContext"), topFuncs(flame, func(f *ssa.Function) bool {
		return noRecv(f) && f.Signature.Results().Len() == 1 && namedName(f.Signature.Results().At(0).Type()) == "internalContext"
	}), "flamego.newContext")
	bind("flamego.(*router).addRoute", p.Meth("flamego", "router", "addRoute"), topFuncs(flame, func(f *ssa.Function) bool {
		return recvIs(f, "router") && callsMethod(f, "route.AddRoute")
	}), "(*flamego.router).addRoute")
	bind("flamego.(*responseWriter).callBefore", p.Meth("flamego", "responseWriter", "callBefore"), topFuncs(flame, func(f *ssa.Function) bool {
		if !recvIs(f, "responseWriter") || f.Signature.Params().Len() != 0 || f.Signature.Results().Len() != 0 {
			return false
		}
		found := false
		allInstrs(f, func(in ssa.Instruction) {
			if ci, ok := in.(ssa.CallInstruction); ok && !ci.Common().IsInvoke() {
				if ld, ok := ci.Common().Value.(*ssa.UnOp); ok && ld.Op == token.MUL {
					if _, ok := ld.X.(*ssa.IndexAddr); ok {
						found = true
					}
				}
			}
		})
		return found
	}), "(*flamego.responseWriter).callBefore")
	bind("flamego.(*context).run", p.Meth("flamego", "context", "run"), topFuncs(flame, func(f *ssa.Function) bool {
		return recvIs(f, "context") && callsMethod(f, "(inject.Invoker).Invoke")
	}), "(*flamego.context).run")

	// field context.index: the int field that Next() stores
	if f := p.Field("flamego", "context", "index"); f != nil {
		p.roleField["context.index"] = f
	} else if next := p.Meth("flamego", "context", "Next"); next != nil {
		var cands []*types.Var
		allInstrs(next, func(in ssa.Instruction) {
			if st, ok := in.(*ssa.Store); ok {
				if fv := fieldOf(strip(st.Addr)); fv != nil && isIntT(fv.Type()) {
					cands = append(cands, fv)
				}
			}
		})
		if len(cands) == 1 {
			p.roleField["context.index"] = cands[0]
			fieldAlias.Store(cands[0], "index")
			p.roleNotes = append(p.roleNotes, "context.index resolved by role to field "+cands[0].Name())
		}
	}
}

// aliasedFieldName returns the canonical name of a field.
func aliasedFieldName(f *types.Var) string {
	if a, ok := fieldAlias.Load(f); ok {
		return a.(string)
	}
	return f.Name()
}

func roleKey(pkg, typ, name string) string {
	if typ == "" {
		return pkg + "." + name
	}
	return pkg + ".(*" + typ + ")." + name
}

// methodAliasName maps a (possibly renamed) interface method to the canonical
// name rules use: an interface method that the role-resolved run loop implements is "run".
func (p *Prog) methodAliasName(name string) string {
	if r := p.roleFn["flamego.(*context).run"]; r != nil && r.Name() == name {
		return "run"
	}
	return name
}

var _ = strings.HasPrefix
