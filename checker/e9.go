package main

// Engine E9: finite automata over a small alphabet of byte classes. Regular
// expressions (built from tables extracted from source) are compiled to NFAs
// (Thompson), determinised lazily, and compared for language equality with a
// shortest distinguishing string. No flamego or participle code runs.

import (
	"fmt"
	"sort"
	"strings"
)

// ---- regular expression AST over symbol classes
type Re interface{}

type reSet struct{ classes map[int]bool } // exactly one symbol from the set
type reSeq []Re
type reAlt []Re
type reStar struct{ X Re }
type rePlus struct{ X Re }
type reOpt struct{ X Re }
type reEps struct{}
type reNone struct{} // empty language

// ---- NFA
type nfa struct {
	n     int
	eps   [][]int
	trans []map[int][]int // state -> symbol -> states
	start int
	final int
}

func (a *nfa) newState() int {
	a.eps = append(a.eps, nil)
	a.trans = append(a.trans, map[int][]int{})
	a.n++
	return a.n - 1
}

func compileRe(r Re) *nfa {
	a := &nfa{}
	s, f := a.build(r)
	a.start, a.final = s, f
	return a
}

func (a *nfa) build(r Re) (int, int) {
	switch x := r.(type) {
	case reEps:
		s := a.newState()
		f := a.newState()
		a.eps[s] = append(a.eps[s], f)
		return s, f
	case reNone:
		return a.newState(), a.newState()
	case reSet:
		s := a.newState()
		f := a.newState()
		for c := range x.classes {
			a.trans[s][c] = append(a.trans[s][c], f)
		}
		return s, f
	case reSeq:
		if len(x) == 0 {
			return a.build(reEps{})
		}
		s, f := a.build(x[0])
		for _, y := range x[1:] {
			s2, f2 := a.build(y)
			a.eps[f] = append(a.eps[f], s2)
			f = f2
		}
		return s, f
	case reAlt:
		s := a.newState()
		f := a.newState()
		for _, y := range x {
			s2, f2 := a.build(y)
			a.eps[s] = append(a.eps[s], s2)
			a.eps[f2] = append(a.eps[f2], f)
		}
		return s, f
	case reStar:
		s := a.newState()
		f := a.newState()
		s2, f2 := a.build(x.X)
		a.eps[s] = append(a.eps[s], s2, f)
		a.eps[f2] = append(a.eps[f2], s2, f)
		return s, f
	case rePlus:
		return a.build(reSeq{x.X, reStar{x.X}})
	case reOpt:
		return a.build(reAlt{x.X, reEps{}})
	}
	panic(fmt.Sprintf("compileRe: unknown node %T", r))
}

func (a *nfa) closure(set map[int]bool) map[int]bool {
	stack := []int{}
	for s := range set {
		stack = append(stack, s)
	}
	for len(stack) > 0 {
		s := stack[len(stack)-1]
		stack = stack[:len(stack)-1]
		for _, t := range a.eps[s] {
			if !set[t] {
				set[t] = true
				stack = append(stack, t)
			}
		}
	}
	return set
}

func setKey(set map[int]bool) string {
	ks := make([]int, 0, len(set))
	for k := range set {
		ks = append(ks, k)
	}
	sort.Ints(ks)
	var sb strings.Builder
	for _, k := range ks {
		fmt.Fprintf(&sb, "%d,", k)
	}
	return sb.String()
}

// ---- generic deterministic machine interface (lazy)
type machine interface {
	startKey() string
	step(key string, sym int) string // "" = dead
	accepting(key string) bool
}

// nfaMachine determinises an NFA lazily.
type nfaMachine struct {
	a    *nfa
	sets map[string]map[int]bool
}

func newNFAMachine(a *nfa) *nfaMachine { return &nfaMachine{a: a, sets: map[string]map[int]bool{}} }

func (m *nfaMachine) intern(set map[int]bool) string {
	if len(set) == 0 {
		return ""
	}
	k := "N" + setKey(set)
	if _, ok := m.sets[k]; !ok {
		m.sets[k] = set
	}
	return k
}

func (m *nfaMachine) startKey() string {
	return m.intern(m.a.closure(map[int]bool{m.a.start: true}))
}

func (m *nfaMachine) step(key string, sym int) string {
	set := m.sets[key]
	next := map[int]bool{}
	for s := range set {
		for _, t := range m.a.trans[s][sym] {
			next[t] = true
		}
	}
	return m.intern(m.a.closure(next))
}

func (m *nfaMachine) accepting(key string) bool { return key != "" && m.sets[key][m.a.final] }

// compareMachines explores the product of two deterministic machines and
// returns the shortest string (as symbols) on which they disagree.
func compareMachines(a, b machine, nsym int, limit int) (diff []int, aAccepts bool, states int, err error) {
	type pair struct{ ka, kb string }
	type node struct {
		p    pair
		prev *node
		sym  int
	}
	start := &node{p: pair{a.startKey(), b.startKey()}, sym: -1}
	seen := map[pair]bool{start.p: true}
	queue := []*node{start}
	for len(queue) > 0 {
		n := queue[0]
		queue = queue[1:]
		states++
		if states > limit {
			return nil, false, states, fmt.Errorf("product exceeds %d states", limit)
		}
		aa, bb := a.accepting(n.p.ka), b.accepting(n.p.kb)
		if aa != bb {
			w := []int{}
			for x := n; x.prev != nil; x = x.prev {
				w = append([]int{x.sym}, w...)
			}
			return w, aa, states, nil
		}
		for s := 0; s < nsym; s++ {
			na, nb := "", ""
			if n.p.ka != "" {
				na = a.step(n.p.ka, s)
			}
			if n.p.kb != "" {
				nb = b.step(n.p.kb, s)
			}
			if na == "" && nb == "" {
				continue
			}
			p := pair{na, nb}
			if !seen[p] {
				seen[p] = true
				queue = append(queue, &node{p: p, prev: n, sym: s})
			}
		}
	}
	return nil, false, states, nil
}

// countStates explores one machine fully (for evidence).
func countStates(m machine, nsym, limit int) int {
	seen := map[string]bool{m.startKey(): true}
	queue := []string{m.startKey()}
	for len(queue) > 0 && len(seen) < limit {
		k := queue[0]
		queue = queue[1:]
		for s := 0; s < nsym; s++ {
			n := m.step(k, s)
			if n != "" && !seen[n] {
				seen[n] = true
				queue = append(queue, n)
			}
		}
	}
	return len(seen)
}

// ---- byte classes
type byteClasses struct {
	classOf [256]int
	rep     []byte // representative byte per class
	n       int
}

// partitionBytes groups the 256 byte values by membership in the given sets.
func partitionBytes(sets [][256]bool) *byteClasses {
	bc := &byteClasses{}
	idx := map[string]int{}
	for b := 0; b < 256; b++ {
		var sb strings.Builder
		for _, s := range sets {
			if s[b] {
				sb.WriteByte('1')
			} else {
				sb.WriteByte('0')
			}
		}
		k := sb.String()
		id, ok := idx[k]
		if !ok {
			id = bc.n
			idx[k] = id
			bc.n++
			bc.rep = append(bc.rep, byte(b))
		}
		bc.classOf[b] = id
	}
	// prefer printable representatives
	for c := 0; c < bc.n; c++ {
		for b := 33; b < 127; b++ {
			if bc.classOf[b] == c {
				bc.rep[c] = byte(b)
				break
			}
		}
	}
	return bc
}

func (bc *byteClasses) setOf(s [256]bool) reSet {
	r := reSet{classes: map[int]bool{}}
	for b := 0; b < 256; b++ {
		if s[b] {
			r.classes[bc.classOf[b]] = true
		}
	}
	return r
}

func (bc *byteClasses) render(w []int) string {
	var sb strings.Builder
	for _, c := range w {
		sb.WriteByte(bc.rep[c])
	}
	return sb.String()
}

func byteSetOf(chars string) [256]bool {
	var s [256]bool
	for i := 0; i < len(chars); i++ {
		s[chars[i]] = true
	}
	return s
}

func describeSet(s [256]bool) string {
	var sb strings.Builder
	for b := 0; b < 256; b++ {
		if s[b] {
			if b > 32 && b < 127 {
				sb.WriteByte(byte(b))
			} else {
				fmt.Fprintf(&sb, "\\x%02x", b)
			}
		}
	}
	return sb.String()
}
