#!/usr/bin/env python3
"""Re-evaluates every stored benign refactoring (in memory, all 18 quick checks) and arms the quiet ones."""
import json, glob, subprocess, re, collections
r = subprocess.run("./bin/flamecheck -audit -audit-all -property benign/", shell=True, cwd="/verif", capture_output=True, text=True)
alarms = collections.defaultdict(list)
for l in r.stdout.splitlines():
    m = re.match(r"AUDIT-WARNING (\S+) seed=benign/(\S+)@(C\d+) .*? fired=\[(.*?)\] :: (.*)", l)
    if m:
        alarms[m.group(2)].append({"property": m.group(3), "status": m.group(1), "rules": m.group(4).split(), "detail": m.group(5)[:500]})
n = q = 0
for f in sorted(glob.glob('/verif/benign/*/meta.json')):
    m = json.load(open(f))
    if not m.get('accepted'):
        continue
    n += 1
    a = alarms.get(m['id'], [])
    m['armed'] = not a
    m['alarms_now'] = a
    q += not a
    json.dump(m, open(f, 'w'), indent=1)
    if a:
        print(m['id'], 'ALARMS', '; '.join("%s:%s" % (x['property'], ','.join(x['rules'])) for x in a))
print(r.stdout.strip().splitlines()[-1])
print('benign patches: %d quiet (armed): %d open false alarms: %d' % (n, q, n - q))
