package main

// Rule-liveness audit: a catalogue of seeded faults (and benign refactorings)
// applied IN MEMORY through packages.Config.Overlay. It tests the checker, not
// flamego: it never decides a property's verdict.

import (
	"encoding/json"
	"fmt"
	"os"
	"path/filepath"
	"sort"
	"strings"
	"sync"
	"time"
)

// auditIncludeUnarmed: also run benign patches that still raise alarms (maintenance: -audit-all).
var auditIncludeUnarmed = false

type seedEdit struct {
	File, Old, New string
	All            bool // replace every occurrence (identifier renames)
}

type Seed struct {
	ID       string
	Property string
	Expect   []string // rule ids of which at least one must fire; "none" = benign
	Edits    []seedEdit
	Note     string
	Patch    string // path of a stored unified diff (independent changes), applied instead of Edits
}

func parseSeeds(path string) ([]*Seed, error) {
	b, err := os.ReadFile(path)
	if err != nil {
		return nil, err
	}
	var out []*Seed
	var cur *Seed
	var ed *seedEdit
	mode := ""
	var buf []string
	flush := func() {
		if ed == nil {
			return
		}
		txt := strings.Join(buf, "\n")
		switch mode {
		case "old":
			ed.Old = txt
		case "new":
			ed.New = txt
		}
		buf = nil
	}
	for _, line := range strings.Split(string(b), "\n") {
		switch {
		case strings.HasPrefix(line, "=== "):
			flush()
			if ed != nil && cur != nil {
				cur.Edits = append(cur.Edits, *ed)
			}
			ed, mode = nil, ""
			cur = &Seed{ID: strings.TrimSpace(strings.TrimPrefix(line, "=== "))}
			out = append(out, cur)
		case mode == "" && strings.HasPrefix(line, "property:"):
			cur.Property = strings.TrimSpace(strings.TrimPrefix(line, "property:"))
		case mode == "" && strings.HasPrefix(line, "expect:"):
			cur.Expect = strings.Fields(strings.TrimPrefix(line, "expect:"))
		case mode == "" && strings.HasPrefix(line, "patch:"):
			// a stored diff (relative to /verif) applied before the edits: near-miss twins of stored changes
			cur.Patch = filepath.Join(filepath.Dir(filepath.Dir(path)), strings.TrimSpace(strings.TrimPrefix(line, "patch:")))
		case mode == "" && strings.HasPrefix(line, "note:"):
			cur.Note = strings.TrimSpace(strings.TrimPrefix(line, "note:"))
		case strings.HasPrefix(line, "file:") && (mode == "" || mode == "new"):
			flush()
			if ed != nil {
				cur.Edits = append(cur.Edits, *ed)
			}
			ed = &seedEdit{File: strings.TrimSpace(strings.TrimPrefix(line, "file:"))}
			mode = "file"
		case line == "--- old":
			flush()
			mode = "old"
		case line == "--- old-all":
			flush()
			mode = "old"
			if ed != nil {
				ed.All = true
			}
		case line == "--- new":
			flush()
			mode = "new"
		default:
			if mode == "old" || mode == "new" {
				buf = append(buf, line)
			}
		}
	}
	flush()
	if ed != nil && cur != nil {
		cur.Edits = append(cur.Edits, *ed)
	}
	for _, s := range out {
		if s.Property == "" || len(s.Expect) == 0 || (len(s.Edits) == 0 && s.Patch == "") {
			return nil, fmt.Errorf("seed %s incomplete", s.ID)
		}
		for i := range s.Edits {
			s.Edits[i].Old = strings.Trim(s.Edits[i].Old, "\n")
			s.Edits[i].New = strings.Trim(s.Edits[i].New, "\n")
		}
	}
	return out, nil
}

type auditResult struct {
	seed    *Seed
	status  string // killed | survived | skipped | broken | quiet | false-alarm
	fired   []string
	detail  string
	elapsed time.Duration
}

func runSeed(repo string, s *Seed) auditResult {
	p, res := loadSeed(repo, s)
	if p == nil {
		return res
	}
	return evalSeed(p, s)
}

// loadSeed loads the variant a seed describes (nil Prog: the result says why not).
func loadSeed(repo string, s *Seed) (*Prog, auditResult) {
	ov := map[string][]byte{}
	if s.Patch != "" {
		b, err := os.ReadFile(s.Patch)
		if err != nil {
			return nil, auditResult{seed: s, status: "skipped", detail: err.Error()}
		}
		ov, err = applyUnified(repo, string(b))
		if err != nil {
			return nil, auditResult{seed: s, status: "skipped", detail: err.Error()}
		}
	}
	for _, e := range s.Edits {
		abs := filepath.Join(repo, e.File)
		src, ok := ov[abs]
		if !ok {
			b, err := os.ReadFile(abs)
			if err != nil {
				return nil, auditResult{seed: s, status: "skipped", detail: err.Error()}
			}
			src = b
		}
		n := strings.Count(string(src), e.Old)
		if e.All {
			if n == 0 {
				return nil, auditResult{seed: s, status: "skipped", detail: fmt.Sprintf("pattern does not occur in %s", e.File)}
			}
			ov[abs] = []byte(strings.ReplaceAll(string(src), e.Old, e.New))
			continue
		}
		if n != 1 {
			return nil, auditResult{seed: s, status: "skipped", detail: fmt.Sprintf("pattern occurs %d times in %s (tree already edited?)", n, e.File)}
		}
		ov[abs] = []byte(strings.Replace(string(src), e.Old, e.New, 1))
	}
	p, err := LoadRepo(repo, false, "", ov)
	if err != nil {
		return nil, auditResult{seed: s, status: "broken", detail: "variant does not load: " + err.Error()}
	}
	return p, auditResult{}
}

func evalSeed(p *Prog, s *Seed) auditResult {
	t0 := time.Now()
	c := NewCheck(p, s.Property, "quick", 0)
	func() {
		defer func() {
			if r := recover(); r != nil {
				c.curRule = s.Property + ".internal"
				c.Bad("checker-panic", "?", fmt.Sprint(r))
			}
		}()
		properties[s.Property](c)
	}()
	for _, id := range c.order {
		r := c.Rules[id]
		if r.Instances < r.Min {
			c.curRule = id
			c.Bad("anchor-drift", "?", "instances below minimum")
		}
	}
	firedSet := map[string]bool{}
	var details []string
	for _, o := range c.Obs {
		if o.Status == "violated" {
			firedSet[o.Rule] = true
			details = append(details, o.Rule+" "+o.Construct+": "+o.How)
		}
	}
	var fired []string
	for r := range firedSet {
		fired = append(fired, r)
	}
	sort.Strings(fired)
	res := auditResult{seed: s, fired: fired, detail: strings.Join(details, " || "), elapsed: time.Since(t0)}
	if len(s.Expect) == 1 && s.Expect[0] == "none" {
		if len(fired) == 0 {
			res.status = "quiet"
		} else {
			res.status = "false-alarm"
		}
		return res
	}
	for _, e := range s.Expect {
		if firedSet[e] || (e == "any" && len(fired) > 0) {
			res.status = "killed"
			return res
		}
	}
	res.status = "survived"
	return res
}

// knownBaseline returns rules that already fire on the unmodified tree for a
// property (known findings etc.), so that the audit can discount them.
func runAudit(repo, verif, prop string, seed int64) int {
	seeds, err := parseSeeds(filepath.Join(verif, "seeds", "seeds.txt"))
	if err != nil {
		fmt.Println("ERROR", err)
		return 2
	}
	seeds = append(seeds, storedPatchSeeds(verif)...)
	// a seed with property ALL is expanded into one seed per property (used for benign noise edits)
	var expanded []*Seed
	for _, s := range seeds {
		if s.Property != "ALL" {
			expanded = append(expanded, s)
			continue
		}
		var ids []string
		for id := range properties {
			ids = append(ids, id)
		}
		sort.Strings(ids)
		for _, id := range ids {
			cp := *s
			cp.Property = id
			cp.ID = s.ID + "@" + id
			expanded = append(expanded, &cp)
		}
	}
	seeds = expanded
	var sel []*Seed
	for _, s := range seeds {
		if prop == "" || prop == "all" || s.Property == prop || s.ID == prop || strings.HasPrefix(s.ID, prop+"@") || (strings.HasSuffix(prop, "/") && strings.HasPrefix(s.ID, prop)) {
			if _, ok := properties[s.Property]; ok {
				sel = append(sel, s)
			}
		}
	}
	// baseline: what fires on the unmodified tree
	baseline := map[string]map[string]bool{}
	{
		props := map[string]bool{}
		for _, s := range sel {
			props[s.Property] = true
		}
		p, err := LoadRepo(repo, false, "", nil)
		if err != nil {
			fmt.Println("ERROR", err)
			return 2
		}
		for pr := range props {
			c := NewCheck(p, pr, "quick", 0)
			properties[pr](c)
			baseline[pr] = map[string]bool{}
			for _, o := range c.Obs {
				if o.Status == "violated" {
					baseline[pr][o.Rule+"|"+o.Construct] = true
				}
			}
		}
	}
	_ = baseline
	results := make([]auditResult, len(sel))
	var wg sync.WaitGroup
	sem := make(chan struct{}, 12)
	// seeds that describe the same variant (ALL-expansions) share one load
	groups := map[string][]int{}
	var order []string
	for i, s := range sel {
		base := s.ID
		if k := strings.LastIndex(base, "@"); k >= 0 {
			base = base[:k]
		}
		if _, ok := groups[base]; !ok {
			order = append(order, base)
		}
		groups[base] = append(groups[base], i)
	}
	for _, base := range order {
		idx := groups[base]
		wg.Add(1)
		go func(idx []int) {
			defer wg.Done()
			sem <- struct{}{}
			defer func() { <-sem }()
			p, res := loadSeed(repo, sel[idx[0]])
			for _, i := range idx {
				if p == nil {
					r := res
					r.seed = sel[i]
					results[i] = r
					continue
				}
				results[i] = evalSeed(p, sel[i])
			}
			if p != nil {
				purgeCaches(p)
			}
		}(idx)
	}
	wg.Wait()
	counts := map[string]int{}
	for _, r := range results {
		counts[r.status]++
		switch r.status {
		case "killed", "quiet":
			fmt.Printf("audit %-11s %-40s fired=%v\n", r.status, r.seed.ID, r.fired)
		case "skipped":
			fmt.Printf("audit %-11s %-40s %s\n", r.status, r.seed.ID, r.detail)
		default:
			fmt.Printf("AUDIT-WARNING %s seed=%s property=%s expect=%v fired=%v :: %s\n", r.status, r.seed.ID, r.seed.Property, r.seed.Expect, r.fired, r.detail)
		}
	}
	fmt.Printf("audit summary: seeds=%d killed=%d quiet=%d survived=%d false-alarm=%d skipped=%d broken=%d\n",
		len(sel), counts["killed"], counts["quiet"], counts["survived"], counts["false-alarm"], counts["skipped"], counts["broken"])
	if counts["survived"]+counts["false-alarm"]+counts["broken"] > 0 {
		return 1
	}
	return 0
}

// storedPatchSeeds turns the independently produced changes kept under
// /verif/seeded (property-breaking: the own property's check must fire) and
// /verif/benign (behaviour-preserving: every check must stay quiet) into seeds.
func storedPatchSeeds(verif string) []*Seed {
	var out []*Seed
	ms, _ := filepath.Glob(filepath.Join(verif, "seeded", "*", "meta.json"))
	sort.Strings(ms)
	for _, m := range ms {
		b, err := os.ReadFile(m)
		if err != nil {
			continue
		}
		var meta struct {
			ID        string `json:"id"`
			Property  string `json:"property"`
			Confirmed bool   `json:"confirmed"`
		}
		if json.Unmarshal(b, &meta) != nil || !meta.Confirmed {
			continue
		}
		out = append(out, &Seed{ID: "seeded/" + meta.ID, Property: meta.Property, Expect: []string{"any"}, Patch: filepath.Join(filepath.Dir(m), "patch.diff"), Edits: nil})
	}
	ms, _ = filepath.Glob(filepath.Join(verif, "benign", "*", "meta.json"))
	sort.Strings(ms)
	for _, m := range ms {
		b, err := os.ReadFile(m)
		if err != nil {
			continue
		}
		var meta struct {
			ID       string `json:"id"`
			Accepted bool   `json:"accepted"`
			Armed    bool   `json:"armed"` // quiet when last evaluated: part of every audit; unarmed ones are open false alarms (DESIGN.md)
		}
		if json.Unmarshal(b, &meta) != nil || !meta.Accepted {
			continue
		}
		if !meta.Armed && !auditIncludeUnarmed {
			continue
		}
		out = append(out, &Seed{ID: "benign/" + meta.ID, Property: "ALL", Expect: []string{"none"}, Patch: filepath.Join(filepath.Dir(m), "patch.diff")})
	}
	return out
}
