package main

// A restricted source-level inliner (step 3 of normalize.go).
//
// A private function or method that the canonical table does not know — in
// practice a helper extracted from a canonical function, or new code — is
// inlined at its call sites so that the rules see the statements where they
// were written against. Only exact transformations are performed:
//
//   callee: unexported, has a body, no type parameters, not recursive, no
//           defer/recover/goto/labels, never used as a value, not a method
//           that an interface of the module could dispatch to;
//   site:   f(a…) as a statement; x, y := f(a…) / x, y = f(a…); return f(a…);
//           the condition or init of an if statement when the call is the
//           first thing evaluated; or a nested operand when everything
//           evaluated before it is an identifier or literal and the callee
//           only computes (no stores except to its own locals, no calls
//           except builtins).
//
// Arguments are bound to fresh, explicitly typed locals in evaluation order,
// every identifier the callee declares is given a unique suffix, `return` is
// turned into an assignment to result temporaries (followed by a labelled
// break when it is not the last statement) or kept as a `return` when the
// call was itself returned. Identifiers the callee body takes from package
// scope must mean the same thing at the call site, and missing imports are
// added to the caller's file. When a condition is not met the call is left
// alone.

import (
	"fmt"
	"go/ast"
	"go/token"
	"go/types"
	"os"
	"sort"
	"strings"

	"golang.org/x/tools/go/packages"
)

type inlCallee struct {
	obj    types.Object // the *types.Func, or the local variable a function literal is bound to
	sig    *types.Signature
	decl   *ast.FuncDecl // for a bound function literal: a synthetic declaration (Type and Body of the literal)
	pk     *packages.Package
	file   *ast.File
	pure   bool      // computes only (eligible for hoisting out of an operand position)
	defEnd token.Pos // bound function literal: end of the defining assignment
	dyn    bool      // may also be reached by dynamic dispatch: inlined at static call sites, never dropped as a function
}

var inlineCounter int

func (ns *normState) fileOf(pk *packages.Package, pos token.Pos) *ast.File {
	for _, f := range pk.Syntax {
		if f.Pos() <= pos && pos <= f.End() {
			return f
		}
	}
	return nil
}

func (ns *normState) srcText(pos, end token.Pos) string {
	p := ns.fset.Position(pos)
	e := ns.fset.Position(end)
	b, err := ns.readFile(p.Filename)
	if err != nil || e.Offset > len(b) || p.Offset > e.Offset {
		return ""
	}
	return string(b[p.Offset:e.Offset])
}

var srcCache = map[string][]byte{}

func (ns *normState) readFile(name string) ([]byte, error) {
	if ns.overlay != nil {
		if b, ok := ns.overlay[name]; ok {
			return b, nil
		}
	}
	return os.ReadFile(name)
}

// render returns the text of [pos,end) with edits (absolute positions) applied.
func (ns *normState) render(pos, end token.Pos, eds []posEdit) string {
	sort.Slice(eds, func(i, j int) bool { return eds[i].pos < eds[j].pos })
	var b strings.Builder
	at := pos
	for _, e := range eds {
		if e.pos < at || e.end > end {
			continue
		}
		b.WriteString(ns.srcText(at, e.pos))
		b.WriteString(e.text)
		at = e.end
	}
	b.WriteString(ns.srcText(at, end))
	return b.String()
}

type posEdit struct {
	pos, end token.Pos
	text     string
}

func (ns *normState) unknownCallees() map[types.Object]*inlCallee {
	cset := canonFuncSet()
	out := map[types.Object]*inlCallee{}
	// names of methods of module interfaces (possible dynamic dispatch)
	ifaceMeth := map[string]bool{}
	for _, pk := range ns.pkgs {
		sc := pk.Types.Scope()
		for _, n := range sc.Names() {
			if tn, ok := sc.Lookup(n).(*types.TypeName); ok {
				if it, ok := tn.Type().Underlying().(*types.Interface); ok {
					for i := 0; i < it.NumMethods(); i++ {
						ifaceMeth[it.Method(i).Name()] = true
					}
				}
			}
		}
	}
	aliased := methodToFuncAliases(ns.pkgs)
	// the extended variant a canonical function merely forwards to stands for that function
	forwardTo := map[types.Object]bool{}
	for short, pk := range ns.pkgs {
		for _, file := range pk.Syntax {
			for _, d := range file.Decls {
				fd, ok := d.(*ast.FuncDecl)
				if !ok || fd.Body == nil || fd.Recv != nil || len(fd.Body.List) != 1 {
					continue
				}
				if _, known := cset[short+"||"+fd.Name.Name]; !known {
					continue
				}
				ret, ok := fd.Body.List[0].(*ast.ReturnStmt)
				if !ok || len(ret.Results) != 1 {
					continue
				}
				ce, ok := ret.Results[0].(*ast.CallExpr)
				if !ok {
					continue
				}
				id, ok := ce.Fun.(*ast.Ident)
				if !ok {
					continue
				}
				var names []string
				if fd.Type.Params != nil {
					for _, f := range fd.Type.Params.List {
						for _, n := range f.Names {
							names = append(names, n.Name)
						}
					}
				}
				if len(ce.Args) < len(names) || len(ce.Args) == 0 {
					continue
				}
				if len(names) == 0 {
					// Recovery() { return RecoveryWithObserver(nil) }: constants only
					allConst := true
					for _, a := range ce.Args {
						tv, has := pk.TypesInfo.Types[a]
						if !has || (tv.Value == nil && !tv.IsNil()) {
							allConst = false
						}
					}
					if !allConst {
						continue
					}
				}
				same := true
				for i, n := range names {
					if a, isId := ce.Args[i].(*ast.Ident); !isId || a.Name != n {
						same = false
					}
				}
				if same {
					if obj := pk.TypesInfo.Uses[id]; obj != nil {
						forwardTo[obj] = true
					}
				}
			}
		}
	}
	// an unknown function with the receiver and signature of a MISSING canonical function may be that
	// function under a new name (several candidates: the role-based anchors decide): it is not inlined
	missingSig := map[string]bool{}
	{
		have := map[string]bool{}
		for short, pk := range ns.pkgs {
			for _, f := range declaredFuncs(pk) {
				sig := f.Type().(*types.Signature)
				have[short+"|"+recvStr(sig)+"|"+f.Name()] = true
			}
		}
		for k, cf := range cset {
			if !have[k] {
				missingSig[cf.Pkg+"|"+cf.Recv+"|"+cf.Sig] = true
			}
		}
	}
	for short, pk := range ns.pkgs {
		for _, file := range pk.Syntax {
			for _, d := range file.Decls {
				fd, ok := d.(*ast.FuncDecl)
				if ok && fd.Recv == nil {
					if _, isAlias := aliased[short+"."+fd.Name.Name]; isAlias {
						continue
					}
				}
				if !ok || fd.Body == nil || fd.Name.Name == "init" || fd.Name.Name == "main" {
					continue
				}
				// new exported functions (not methods) are inlined at their call sites inside the module as
				// well: New() { return NewWithOptions(Options{}) }
				// … and so are new exported methods at their static call sites (a convenience accessor that
				// existing code now calls); dynamic dispatch is unaffected, and names of module interface
				// methods are excluded below
				fn, _ := pk.TypesInfo.Defs[fd.Name].(*types.Func)
				if fn == nil {
					continue
				}
				sig := fn.Type().(*types.Signature)
				if _, known := cset[short+"|"+recvStr(sig)+"|"+fn.Name()]; known {
					continue
				}
				if sig.RecvTypeParams() != nil {
					continue
				}
				if missingSig[short+"|"+recvStr(sig)+"|"+sigStr(sig)] {
					continue
				}
				if forwardTo[types.Object(fn)] {
					continue
				}
				dynMeth := false
				if sig.Recv() != nil && ifaceMeth[fn.Name()] {
					// possibly reached by dynamic dispatch — only if the receiver's type implements a module interface
					// that declares a method of this name
					dyn := false
					rt := sig.Recv().Type()
					for _, pk2 := range ns.pkgs {
						sc := pk2.Types.Scope()
						for _, n := range sc.Names() {
							tn, ok := sc.Lookup(n).(*types.TypeName)
							if !ok {
								continue
							}
							it, ok := tn.Type().Underlying().(*types.Interface)
							if !ok {
								continue
							}
							has := false
							for i := 0; i < it.NumMethods(); i++ {
								if it.Method(i).Name() == fn.Name() {
									has = true
								}
							}
							if !has {
								continue
							}
							if types.Implements(rt, it) {
								dyn = true
							}
							if _, isPtr := rt.(*types.Pointer); !isPtr && types.Implements(types.NewPointer(rt), it) {
								dyn = true
							}
						}
					}
					dynMeth = dyn
				}
				c := &inlCallee{obj: fn, sig: sig, decl: fd, pk: pk, file: file, dyn: dynMeth}
				if !ns.bodyInlinable(c) {
					continue
				}
				out[types.Object(fn)] = c
			}
		}
	}
	// function literals bound once to a local variable that the canonical tree does not know
	// (respond := func(…) {…}) are helpers too
	canonCl := map[string]bool{}
	for _, cc := range canonClosures {
		canonCl[cc[0]+"|"+cc[1]+"|"+cc[2]] = true
	}
	for short, pk := range ns.pkgs {
		for _, file := range pk.Syntax {
			for _, d := range file.Decls {
				fd, ok := d.(*ast.FuncDecl)
				if !ok || fd.Body == nil {
					continue
				}
				owner := fd.Name.Name
				if fd.Recv != nil && len(fd.Recv.List) == 1 {
					owner = strings.TrimPrefix(ns.srcText(fd.Recv.List[0].Type.Pos(), fd.Recv.List[0].Type.End()), "*") + "." + owner
				}
				ast.Inspect(fd.Body, func(n ast.Node) bool {
					var as ast.Node
					var lit *ast.FuncLit
					var id *ast.Ident
					var defEnd token.Pos
					switch x := n.(type) {
					case *ast.AssignStmt:
						if x.Tok != token.DEFINE || len(x.Lhs) != 1 || len(x.Rhs) != 1 {
							return true
						}
						l, ok := x.Rhs[0].(*ast.FuncLit)
						i, ok2 := x.Lhs[0].(*ast.Ident)
						if !ok || !ok2 {
							return true
						}
						as, lit, id, defEnd = x, l, i, x.End()
					case *ast.DeclStmt:
						// var conv func(T) U = func(v T) U { … } (the shape an inlined function-valued parameter takes)
						gd, ok := x.Decl.(*ast.GenDecl)
						if !ok || gd.Tok != token.VAR || len(gd.Specs) != 1 {
							return true
						}
						vs, ok := gd.Specs[0].(*ast.ValueSpec)
						if !ok || len(vs.Names) != 1 || len(vs.Values) != 1 {
							return true
						}
						l, ok := vs.Values[0].(*ast.FuncLit)
						if !ok {
							return true
						}
						as, lit, id, defEnd = x, l, vs.Names[0], x.End()
					default:
						return true
					}
					if id.Name == "_" {
						return true
					}
					if canonCl[short+"|"+owner+"|"+id.Name] {
						return true
					}
					v, _ := pk.TypesInfo.Defs[id].(*types.Var)
					sig, _ := pk.TypesInfo.TypeOf(lit).(*types.Signature)
					if v == nil || sig == nil {
						return true
					}
					// assigned once
					reassigned := false
					ast.Inspect(fd.Body, func(m ast.Node) bool {
						switch x := m.(type) {
						case *ast.AssignStmt:
							for _, l := range x.Lhs {
								if li, isId := l.(*ast.Ident); isId && ast.Node(x) != as && pk.TypesInfo.Uses[li] == types.Object(v) {
									reassigned = true
								}
							}
						case *ast.UnaryExpr:
							if li, isId := x.X.(*ast.Ident); isId && x.Op == token.AND && pk.TypesInfo.Uses[li] == types.Object(v) {
								reassigned = true
							}
						}
						return true
					})
					if reassigned {
						return true
					}
					c := &inlCallee{obj: v, sig: sig, decl: &ast.FuncDecl{Name: id, Type: lit.Type, Body: lit.Body}, pk: pk, file: file, defEnd: defEnd}
					if !ns.bodyInlinable(c) {
						return true
					}
					out[types.Object(v)] = c
					return true
				})
			}
		}
	}
	// never used as a value: every use is the Fun of a call
	for _, pk := range ns.pkgs {
		calledAt := map[*ast.Ident]bool{}
		for _, file := range pk.Syntax {
			ast.Inspect(file, func(n ast.Node) bool {
				if ce, ok := n.(*ast.CallExpr); ok {
					switch f := ce.Fun.(type) {
					case *ast.Ident:
						calledAt[f] = true
					case *ast.SelectorExpr:
						calledAt[f.Sel] = true
					}
				}
				return true
			})
		}
		for id, obj := range pk.TypesInfo.Uses {
			if _, isC := out[obj]; isC && !calledAt[id] {
				delete(out, obj)
			}
		}
	}
	return out
}

func (ns *normState) bodyInlinable(c *inlCallee) bool {
	ok := true
	pure := true
	info := c.pk.TypesInfo
	named := false
	if c.decl.Type.Results != nil {
		for _, f := range c.decl.Type.Results.List {
			if len(f.Names) > 0 {
				named = true
			}
		}
	}
	var walk func(n ast.Node, inLit bool)
	walk = func(n ast.Node, inLit bool) {
		ast.Inspect(n, func(n ast.Node) bool {
			switch x := n.(type) {
			case *ast.FuncLit:
				if x.Body != nil {
					pure = false
					walk(x.Body, true)
				}
				return false
			case *ast.DeferStmt, *ast.GoStmt:
				ok = false
			case *ast.ReturnStmt:
				if !inLit && named && len(x.Results) == 0 {
					// bare return with named results is supported, nothing to do
					_ = x
				}
			case *ast.CallExpr:
				if id, isId := x.Fun.(*ast.Ident); isId {
					if id.Name == "recover" {
						if _, isB := info.Uses[id].(*types.Builtin); isB {
							ok = false
						}
					}
					if info.Uses[id] == c.obj {
						ok = false
					}
					if _, isB := info.Uses[id].(*types.Builtin); !isB {
						if tv, has := info.Types[x.Fun]; !has || !tv.IsType() {
							pure = false
						}
					}
				} else if sel, isSel := x.Fun.(*ast.SelectorExpr); isSel {
					if info.Uses[sel.Sel] == c.obj {
						ok = false
					}
					if tv, has := info.Types[x.Fun]; !has || !tv.IsType() {
						pure = false
					}
				} else {
					if tv, has := info.Types[x.Fun]; !has || !tv.IsType() {
						pure = false
					}
				}
			case *ast.AssignStmt:
				for _, l := range x.Lhs {
					if _, isId := l.(*ast.Ident); !isId {
						pure = false
					}
				}
			case *ast.IncDecStmt:
				if _, isId := x.X.(*ast.Ident); !isId {
					pure = false
				}
			case *ast.SendStmt:
				pure = false
			case *ast.UnaryExpr:
				if x.Op == token.ARROW {
					pure = false
				}
			}
			return true
		})
	}
	walk(c.decl.Body, false)
	// assignments to identifiers must target the callee's own locals
	ast.Inspect(c.decl.Body, func(n ast.Node) bool {
		if as, isAs := n.(*ast.AssignStmt); isAs {
			for _, l := range as.Lhs {
				if id, isId := l.(*ast.Ident); isId && id.Name != "_" {
					obj := info.ObjectOf(id)
					if obj == nil || obj.Pos() < c.decl.Pos() || obj.Pos() > c.decl.End() {
						pure = false
					}
				}
			}
		}
		return true
	})
	c.pure = pure
	return ok
}

// localObjects returns the objects declared inside the callee declaration that
// must be renamed (variables, constants, types; not fields or methods).
func (ns *normState) localIdentEdits(c *inlCallee, suffix string, from, to token.Pos) []posEdit {
	info := c.pk.TypesInfo
	var eds []posEdit
	isLocal := func(obj types.Object) bool {
		if obj == nil || obj.Pos() < c.decl.Pos() || obj.Pos() > c.decl.End() {
			return false
		}
		switch o := obj.(type) {
		case *types.Var:
			return !o.IsField()
		case *types.Const, *types.TypeName, *types.Label:
			return true
		}
		return false
	}
	// the symbolic variable of a type switch (switch v := x.(type)) has no object of its own
	ast.Inspect(c.decl, func(n ast.Node) bool {
		ts, ok := n.(*ast.TypeSwitchStmt)
		if !ok {
			return true
		}
		if as, ok := ts.Assign.(*ast.AssignStmt); ok && len(as.Lhs) == 1 {
			if id, ok := as.Lhs[0].(*ast.Ident); ok && id.Name != "_" && id.Pos() >= from && id.End() <= to {
				eds = append(eds, posEdit{id.Pos(), id.End(), id.Name + suffix})
			}
		}
		return true
	})
	ast.Inspect(c.decl, func(n ast.Node) bool {
		id, ok := n.(*ast.Ident)
		if !ok || id.Name == "_" || id.Pos() < from || id.End() > to {
			return true
		}
		if obj := info.Uses[id]; obj != nil && ns.typeArgs != nil {
			if txt, isTP := ns.typeArgs[obj]; isTP {
				eds = append(eds, posEdit{id.Pos(), id.End(), txt})
				return true
			}
		}
		if obj := info.Defs[id]; obj != nil && isLocal(obj) {
			eds = append(eds, posEdit{id.Pos(), id.End(), id.Name + suffix})
		} else if obj := info.Uses[id]; obj != nil && isLocal(obj) {
			eds = append(eds, posEdit{id.Pos(), id.End(), id.Name + suffix})
		}
		return true
	})
	return eds
}

// checkSpec describes "lhs := f(…); if <test of result j> { T }" for the check mode of
// buildInline: every return of f is sent straight to T (copied), past the if, or to the if.
type checkSpec struct {
	lhs      []string // assignment targets, one per result
	j        int      // index of the tested result
	takeWhen string   // "nonnil", "nil", "true", "false": value of result j for which T runs
	then     string   // text of the block T (with braces)
	used     map[string]bool
}

type inlSite struct {
	call   *ast.CallExpr
	callee *inlCallee
	pk     *packages.Package
	file   *ast.File
}

// freeNamesOK checks that every package-level / universe / import name the callee
// uses means the same at the call site; it returns the imports to add.
func (ns *normState) freeNamesOK(s *inlSite) (map[string]string, bool) {
	need := map[string]string{} // name -> path
	c := s.callee
	info := c.pk.TypesInfo
	scope := s.pk.Types.Scope().Innermost(s.call.Pos())
	if scope == nil {
		return nil, false
	}
	ok := true
	selNames := map[*ast.Ident]bool{}
	ast.Inspect(c.decl, func(n ast.Node) bool {
		if se, isSel := n.(*ast.SelectorExpr); isSel {
			selNames[se.Sel] = true
		}
		return true
	})
	ast.Inspect(c.decl, func(n ast.Node) bool {
		id, isId := n.(*ast.Ident)
		if !isId || id.Name == "_" || selNames[id] {
			return true
		}
		obj := info.Uses[id]
		if obj == nil {
			return true
		}
		if obj.Pos() >= c.decl.Pos() && obj.Pos() <= c.decl.End() {
			return true // callee-local (renamed)
		}
		switch o := obj.(type) {
		case *types.Var:
			if o.IsField() {
				return true
			}
		case *types.Func:
			if o.Type().(*types.Signature).Recv() != nil {
				return true
			}
		}
		if pn, isPkg := obj.(*types.PkgName); isPkg {
			_, at := scope.LookupParent(id.Name, s.call.Pos())
			if apn, isP := at.(*types.PkgName); isP && apn.Imported() == pn.Imported() {
				return true
			}
			if at != nil {
				// the name means something else at the call site
				if _, isP := at.(*types.PkgName); !isP || c.file == s.file {
					ok = false
					return true
				}
				ok = false
				return true
			}
			need[id.Name] = pn.Imported().Path()
			return true
		}
		_, at := scope.LookupParent(id.Name, s.call.Pos())
		if at != obj {
			ok = false
		}
		return true
	})
	return need, ok
}

func (ns *normState) typeText(c *inlCallee, e ast.Expr) string {
	return ns.srcText(e.Pos(), e.End())
}

// buildInline renders the inlined block. mode: "stmt", "assign" (results into temps), "return".
// It returns the declarations to place before the block, the block, and the temp names.
func (ns *normState) buildInline(s *inlSite, mode string) (pre string, block string, temps []string, ok bool) {
	c := s.callee
	inlineCounter++
	suffix := fmt.Sprintf("_i%d", inlineCounter)
	info := c.pk.TypesInfo
	sig := c.sig
	ns.typeArgs = nil
	if tps := sig.TypeParams(); tps != nil && tps.Len() > 0 {
		// a generic helper: the instance's type arguments are written out in place of the parameters
		var id *ast.Ident
		switch f := s.call.Fun.(type) {
		case *ast.Ident:
			id = f
		case *ast.IndexExpr:
			id, _ = f.X.(*ast.Ident)
		case *ast.IndexListExpr:
			id, _ = f.X.(*ast.Ident)
		}
		if id == nil {
			return "", "", nil, false
		}
		inst, has := s.pk.TypesInfo.Instances[id]
		if !has || inst.TypeArgs == nil || inst.TypeArgs.Len() != tps.Len() {
			return "", "", nil, false
		}
		ns.typeArgs = map[types.Object]string{}
		for i := 0; i < tps.Len(); i++ {
			foreign := false
			txt := types.TypeString(inst.TypeArgs.At(i), func(p *types.Package) string {
				if p == s.pk.Types {
					return ""
				}
				// a type of another package: the site's file must import it under its own name
				for _, im := range s.file.Imports {
					if strings.Trim(im.Path.Value, "\"") == p.Path() && (im.Name == nil || im.Name.Name == p.Name()) {
						return p.Name()
					}
				}
				foreign = true
				return ""
			})
			if foreign || strings.Contains(txt, "interface{") || strings.Contains(txt, "struct{") {
				ns.typeArgs = nil
				return "", "", nil, false
			}
			ns.typeArgs[tps.At(i).Obj()] = txt
		}
		defer func() { ns.typeArgs = nil }()
	}
	var b strings.Builder
	b.WriteString("{\n")

	usedObj := map[types.Object]bool{}
	ast.Inspect(c.decl.Body, func(n ast.Node) bool {
		if id, isId := n.(*ast.Ident); isId {
			if o := info.Uses[id]; o != nil {
				usedObj[o] = true
			}
		}
		return true
	})
	bind := func(name *ast.Ident, typ string, val string) {
		if name == nil || name.Name == "_" || !usedObj[info.Defs[name]] {
			fmt.Fprintf(&b, "var _ %s = %s\n", typ, val)
			return
		}
		fmt.Fprintf(&b, "var %s%s %s = %s\n", name.Name, suffix, typ, val)
	}
	// receiver
	if c.decl.Recv != nil && len(c.decl.Recv.List) == 1 {
		sel, isSel := s.call.Fun.(*ast.SelectorExpr)
		if !isSel {
			return "", "", nil, false
		}
		selInfo := s.pk.TypesInfo.Selections[sel]
		if selInfo == nil || len(selInfo.Index()) != 1 {
			return "", "", nil, false
		}
		rf := c.decl.Recv.List[0]
		x := ns.srcText(sel.X.Pos(), sel.X.End())
		xt := s.pk.TypesInfo.TypeOf(sel.X)
		_, recvPtr := sig.Recv().Type().(*types.Pointer)
		_, xPtr := xt.Underlying().(*types.Pointer)
		val := "(" + x + ")"
		if recvPtr && !xPtr {
			val = "&" + val
		} else if !recvPtr && xPtr {
			val = "*" + val
		}
		var nm *ast.Ident
		if len(rf.Names) == 1 {
			nm = rf.Names[0]
		}
		bind(nm, ns.srcText(rf.Type.Pos(), rf.Type.End()), val)
	} else if _, isSel := s.call.Fun.(*ast.SelectorExpr); isSel {
		return "", "", nil, false
	}
	// parameters
	type prm struct {
		name *ast.Ident
		typ  ast.Expr
	}
	var prms []prm
	if c.decl.Type.Params != nil {
		for _, f := range c.decl.Type.Params.List {
			if len(f.Names) == 0 {
				prms = append(prms, prm{nil, f.Type})
			}
			for _, n := range f.Names {
				prms = append(prms, prm{n, f.Type})
			}
		}
	}
	args := s.call.Args
	// a single multi-value call argument is not supported
	if len(args) == 1 && len(prms) > 1 {
		return "", "", nil, false
	}
	for i, p := range prms {
		tt := ns.typeSrc(c, p.typ)
		if ell, isEll := p.typ.(*ast.Ellipsis); isEll {
			et := ns.typeSrc(c, ell.Elt)
			tt = "[]" + et
			if s.call.Ellipsis.IsValid() {
				if i >= len(args) {
					return "", "", nil, false
				}
				bind(p.name, tt, ns.srcText(args[i].Pos(), args[i].End()))
			} else if i >= len(args) {
				bind(p.name, tt, "nil")
			} else {
				var parts []string
				for _, a := range args[i:] {
					parts = append(parts, ns.srcText(a.Pos(), a.End()))
				}
				bind(p.name, tt, tt+"{"+strings.Join(parts, ", ")+"}")
			}
			continue
		}
		if i >= len(args) {
			return "", "", nil, false
		}
		bind(p.name, tt, ns.srcText(args[i].Pos(), args[i].End()))
	}
	// results
	type res struct {
		name *ast.Ident
		typ  string
	}
	var ress []res
	if c.decl.Type.Results != nil {
		for _, f := range c.decl.Type.Results.List {
			tt := ns.typeSrc(c, f.Type)
			if len(f.Names) == 0 {
				ress = append(ress, res{nil, tt})
			}
			for _, n := range f.Names {
				ress = append(ress, res{n, tt})
			}
		}
	}
	var namedRes []string
	for _, r := range ress {
		if r.name != nil && r.name.Name != "_" {
			fmt.Fprintf(&b, "var %s%s %s\n_ = %s%s\n", r.name.Name, suffix, r.typ, r.name.Name, suffix)
			namedRes = append(namedRes, r.name.Name+suffix)
		} else if r.name != nil {
			namedRes = append(namedRes, "")
		}
	}
	if mode == "assign" {
		for i, r := range ress {
			t := fmt.Sprintf("r%d%s", i, suffix)
			temps = append(temps, t)
			pre += fmt.Sprintf("var %s %s\n", t, r.typ)
		}
	}
	// returns
	var rets []*ast.ReturnStmt
	var collect func(n ast.Node)
	collect = func(n ast.Node) {
		ast.Inspect(n, func(n ast.Node) bool {
			switch x := n.(type) {
			case *ast.FuncLit:
				return false
			case *ast.ReturnStmt:
				rets = append(rets, x)
			}
			return true
		})
	}
	collect(c.decl.Body)
	body := c.decl.Body
	var last ast.Stmt
	if len(body.List) > 0 {
		last = body.List[len(body.List)-1]
	}
	branchUsed := map[string]bool{}
	needLabel := false
	if mode == "branch" {
		temps = []string{"T" + suffix, "F" + suffix, "E" + suffix}
	}
	for _, r := range rets {
		if ast.Stmt(r) != last {
			needLabel = true
		}
	}
	label := "L" + suffix
	eds := ns.localIdentEdits(c, suffix, body.Lbrace+1, body.Rbrace)
	for _, r := range rets {
		var vals string
		if len(r.Results) == 0 {
			var parts []string
			for _, n := range namedRes {
				if n == "" {
					return "", "", nil, false
				}
				parts = append(parts, n)
			}
			vals = strings.Join(parts, ", ")
		} else {
			// render the result expressions with the renames applied
			var sub []posEdit
			for _, e := range eds {
				if e.pos >= r.Results[0].Pos() && e.end <= r.Results[len(r.Results)-1].End() {
					sub = append(sub, e)
				}
			}
			vals = ns.render(r.Results[0].Pos(), r.Results[len(r.Results)-1].End(), sub)
		}
		var text string
		switch mode {
		case "check":
			cs := ns.check
			text = strings.Join(cs.lhs, ", ") + " = " + vals
			known := ""
			if len(r.Results) == len(cs.lhs) {
				ev := strings.TrimSpace(ns.srcText(r.Results[cs.j].Pos(), r.Results[cs.j].End()))
				switch cs.takeWhen {
				case "nonnil", "nil":
					if ev == "nil" {
						known = "nil"
					} else if ce, isCall := r.Results[cs.j].(*ast.CallExpr); isCall {
						switch strings.TrimSpace(ns.srcText(ce.Fun.Pos(), ce.Fun.End())) {
						case "fmt.Errorf", "errors.New", "errors.Errorf":
							known = "nonnil"
						}
					}
				case "true", "false":
					if ev == "true" || ev == "false" {
						known = ev
					}
				}
			}
			switch {
			case known == "":
				text += "\ngoto Check" + suffix
				cs.used["Check"] = true
			case known == cs.takeWhen:
				text += "\n" + cs.then
			default:
				text += "\ngoto Cont" + suffix
				cs.used["Cont"] = true
			}
		case "branch":
			switch strings.TrimSpace(vals) {
			case "true":
				text = "goto T" + suffix
				branchUsed["T"] = true
			case "false":
				text = "goto F" + suffix
				branchUsed["F"] = true
			default:
				text = "if " + vals + " {\ngoto T" + suffix + "\n}\ngoto F" + suffix
				branchUsed["T"], branchUsed["F"] = true, true
			}
		case "return":
			if vals == "" {
				text = "return"
			} else {
				text = "return " + vals
			}
		case "stmt":
			// results, if any, are evaluated and dropped
			text = ""
			if vals != "" && len(r.Results) > 0 {
				if len(ress) == len(r.Results) {
					us := make([]string, len(ress))
					for i := range us {
						us[i] = "_"
					}
					text = strings.Join(us, ", ") + " = " + vals
				} else {
					us := make([]string, len(ress))
					for i := range us {
						us[i] = "_"
					}
					text = strings.Join(us, ", ") + " = " + vals
				}
			}
			if needLabel && ast.Stmt(r) != last {
				if text != "" {
					text += "\n"
				}
				text += "break " + label
			}
		case "assign":
			text = strings.Join(temps, ", ") + " = " + vals
			if len(temps) == 0 {
				text = ""
			}
			if needLabel && ast.Stmt(r) != last {
				if text != "" {
					text += "\n"
				}
				text += "break " + label
			}
		}
		// drop renames inside the replaced return statement
		var kept []posEdit
		for _, e := range eds {
			if e.pos >= r.Pos() && e.end <= r.End() {
				continue
			}
			kept = append(kept, e)
		}
		eds = append(kept, posEdit{r.Pos(), r.End(), text})
	}
	inner := ns.render(body.Lbrace+1, body.Rbrace, eds)
	if mode == "check" {
		b.WriteString(inner + "\n}")
		return pre, b.String(), []string{"Check" + suffix, "Cont" + suffix}, true
	}
	if mode == "branch" {
		if !branchUsed["T"] {
			temps[0] = ""
		}
		if !branchUsed["F"] {
			temps[1] = ""
		}
		b.WriteString(inner + "\n}")
		return pre, b.String(), temps, true
	}
	if needLabel && mode != "return" {
		b.WriteString(label + ":\nswitch {\ndefault:\n" + inner + "\n}\n")
	} else {
		b.WriteString(inner + "\n")
	}
	b.WriteString("}")
	return pre, b.String(), temps, true
}

// simpleOperand: identifier, literal or selector chain rooted at an identifier.
func simpleOperand(e ast.Expr) bool {
	switch x := e.(type) {
	case *ast.Ident, *ast.BasicLit:
		return true
	case *ast.ParenExpr:
		return simpleOperand(x.X)
	case *ast.SelectorExpr:
		return simpleOperand(x.X)
	}
	return false
}

// findTarget looks for an inlinable call inside expression e such that everything
// evaluated before it is simple. leftmostOnly restricts the search to the left spine
// (conditions). It returns the call or nil.
func (ns *normState) findTarget(pk *packages.Package, e ast.Expr, callees map[types.Object]*inlCallee, top bool) *ast.CallExpr {
	switch x := e.(type) {
	case *ast.ParenExpr:
		return ns.findTarget(pk, x.X, callees, false)
	case *ast.UnaryExpr:
		if x.Op == token.ARROW || x.Op == token.AND {
			return nil
		}
		return ns.findTarget(pk, x.X, callees, false)
	case *ast.BinaryExpr:
		if t := ns.findTarget(pk, x.X, callees, false); t != nil {
			return t
		}
		if x.Op == token.LAND || x.Op == token.LOR {
			return nil
		}
		if simpleOperand(x.X) {
			return ns.findTarget(pk, x.Y, callees, false)
		}
		return nil
	case *ast.CallExpr:
		if c := ns.calleeOf(pk, x, callees); c != nil {
			if top || len(c.decl.Type.Results.List) == 1 && len(c.decl.Type.Results.List[0].Names) <= 1 {
				return x
			}
			return nil
		}
		// operand of another call: receiver / function value first, then arguments left to right
		if tv, ok := pk.TypesInfo.Types[x.Fun]; ok && tv.IsType() {
			if len(x.Args) == 1 {
				return ns.findTarget(pk, x.Args[0], callees, false)
			}
			return nil
		}
		if sel, isSel := x.Fun.(*ast.SelectorExpr); isSel && !simpleOperand(sel.X) {
			// the receiver expression is evaluated before anything else of this call
			// (whatever findTarget accepts inside the receiver is evaluated before the rest of this call)
			if t := ns.findTarget(pk, sel.X, callees, false); t != nil {
				return t
			}
			// the receiver expression runs first: only a callee that merely computes may be hoisted
			// out of the arguments, in front of it
			for _, a := range x.Args {
				if t := ns.findTarget(pk, a, callees, false); t != nil {
					if c := ns.calleeOf(pk, t, callees); c != nil && c.pure {
						return t
					}
					return nil
				}
				if !simpleOperand(a) {
					return nil
				}
			}
			return nil
		}
		if !simpleOperand(x.Fun) {
			return nil
		}
		// operands evaluated before the target: plain identifiers and literals cannot be
		// affected by the callee; field reads can, so the callee must only compute then
		plain := plainOperand(x.Fun)
		for _, a := range x.Args {
			if t := ns.findTarget(pk, a, callees, false); t != nil {
				if c := ns.calleeOf(pk, t, callees); c != nil && (c.pure || (plain && t == a)) {
					return t
				}
				return nil
			}
			if !simpleOperand(a) {
				return nil
			}
			plain = plain && plainOperand(a)
		}
	}
	return nil
}

func (ns *normState) calleeOf(pk *packages.Package, ce *ast.CallExpr, callees map[types.Object]*inlCallee) *inlCallee {
	var id *ast.Ident
	switch f := ce.Fun.(type) {
	case *ast.Ident:
		id = f
	case *ast.SelectorExpr:
		id = f.Sel
	default:
		return nil
	}
	obj := pk.TypesInfo.Uses[id]
	if obj == nil {
		return nil
	}
	c := callees[obj]
	if c == nil || c.decl.Type.Results == nil && false {
		return c
	}
	return c
}

func numResults(c *inlCallee) int {
	return c.sig.Results().Len()
}

func (ns *normState) planInlines() (editSet, map[string]bool) {
	es := editSet{}
	inlined := map[string]bool{}
	callees := ns.unknownCallees()
	if len(callees) == 0 {
		return es, inlined
	}
	importsNeeded := map[*ast.File]map[string]string{}
	for _, pk := range ns.pkgs {
		for _, file := range pk.Syntax {
			for _, d := range file.Decls {
				fd, ok := d.(*ast.FuncDecl)
				if !ok || fd.Body == nil {
					continue
				}
				ns.inlineInBlock(pk, file, fd.Body, callees, es, inlined, importsNeeded)
			}
		}
	}
	for file, need := range importsNeeded {
		var names []string
		for n := range need {
			names = append(names, n)
		}
		sort.Strings(names)
		txt := ""
		for _, n := range names {
			have := false
			for _, im := range file.Imports {
				p := strings.Trim(im.Path.Value, "\"")
				nm := ""
				if im.Name != nil {
					nm = im.Name.Name
				} else {
					nm = p[strings.LastIndex(p, "/")+1:]
				}
				if p == need[n] && nm == n {
					have = true
				}
			}
			if !have {
				txt += fmt.Sprintf("\nimport %s %q\n", n, need[n])
			}
		}
		if txt != "" {
			es.add(ns.fset, file.Name.End(), file.Name.End(), txt)
		}
	}
	return es, inlined
}

func stmtLists(n ast.Node, f func(list []ast.Stmt)) {
	ast.Inspect(n, func(n ast.Node) bool {
		switch x := n.(type) {
		case *ast.BlockStmt:
			f(x.List)
		case *ast.CaseClause:
			f(x.Body)
		case *ast.CommClause:
			f(x.Body)
		}
		return true
	})
}

func (ns *normState) inlineInBlock(pk *packages.Package, file *ast.File, body *ast.BlockStmt, callees map[types.Object]*inlCallee, es editSet, inlined map[string]bool, imports map[*ast.File]map[string]string) {
	done := map[ast.Stmt]bool{}
	covered := func(s ast.Stmt) bool {
		for d := range done {
			if d.Pos() <= s.Pos() && s.End() <= d.End() {
				return true
			}
			if s.Pos() <= d.Pos() && d.End() <= s.End() {
				return true
			}
		}
		return false
	}
	keepUsed := ns.keepUsed
	noted := map[string]bool{}
	record := func(s *inlSite, st ast.Stmt, text string, need map[string]string) {
		if st != nil {
			es.add(ns.fset, st.Pos(), st.End(), text)
			done[st] = true
		}
		sig := s.callee.sig
		key := pkgShort[s.callee.pk.PkgPath] + "|" + recvStr(sig) + "|" + s.callee.obj.Name()
		if !inlined[key] && !noted[key] {
			ns.notes = append(ns.notes, fmt.Sprintf("calls of the private helper %s.%s%s (not part of the canonical tree) are inlined into their callers", pkgShort[s.callee.pk.PkgPath], recvPrefix(recvStr(sig)), s.callee.obj.Name()))
		}
		if !s.callee.dyn {
			inlined[key] = true
		} else {
			inlined[key] = inlined[key] // noted, but the method stays a function of its own
			noted[key] = true
		}
		if s.callee.defEnd.IsValid() && !keepUsed[s.callee.obj] {
			// the variable may end up without uses
			keepUsed[s.callee.obj] = true
			es.add(ns.fset, s.callee.defEnd, s.callee.defEnd, "\n_ = "+s.callee.obj.Name())
		}
		if len(need) > 0 {
			if imports[file] == nil {
				imports[file] = map[string]string{}
			}
			for k, v := range need {
				imports[file][k] = v
			}
		}
	}
	try := func(st ast.Stmt) {
		if covered(st) {
			return
		}
		switch x := st.(type) {
		case *ast.ExprStmt:
			ce, ok := x.X.(*ast.CallExpr)
			if !ok {
				return
			}
			if c := ns.calleeOf(pk, ce, callees); c != nil {
				s := &inlSite{ce, c, pk, file}
				need, ok := ns.freeNamesOK(s)
				if !ok {
					return
				}
				if _, blk, _, ok := ns.buildInline(s, "stmt"); ok {
					record(s, st, blk, need)
				}
				return
			}
			ns.tryHoist(pk, file, st, x.X, callees, record)
		case *ast.ReturnStmt:
			if len(x.Results) == 1 {
				if ce, ok := x.Results[0].(*ast.CallExpr); ok {
					if c := ns.calleeOf(pk, ce, callees); c != nil {
						s := &inlSite{ce, c, pk, file}
						need, ok := ns.freeNamesOK(s)
						if !ok {
							return
						}
						if _, blk, _, ok := ns.buildInline(s, "return"); ok {
							record(s, st, blk, need)
						}
						return
					}
				}
			}
			// return A && B / A || B with an unknown helper called in B only: B is evaluated on one side of A, so
			// it cannot be hoisted; the statement is split into its exact branching form and B is inlined in the
			// next round (if A { return B }; return false  /  if A { return true }; return B)
			if len(x.Results) == 1 {
				if be, ok := x.Results[0].(*ast.BinaryExpr); ok && (be.Op == token.LAND || be.Op == token.LOR) {
					if ns.findTarget(pk, be.X, callees, true) == nil && ns.findTarget(pk, be.Y, callees, true) != nil {
						a, b := ns.srcText(be.X.Pos(), be.X.End()), ns.srcText(be.Y.Pos(), be.Y.End())
						text := "if " + a + " {\nreturn " + b + "\n}\nreturn false"
						if be.Op == token.LOR {
							text = "if " + a + " {\nreturn true\n}\nreturn " + b
						}
						es.add(ns.fset, st.Pos(), st.End(), text)
						done[st] = true
						return
					}
				}
			}
			for _, r := range x.Results {
				if ns.tryHoist(pk, file, st, r, callees, record) {
					return
				}
				if !simpleOperand(r) {
					return
				}
			}
		case *ast.AssignStmt:
			if len(x.Rhs) == 1 {
				if ce, ok := x.Rhs[0].(*ast.CallExpr); ok {
					if c := ns.calleeOf(pk, ce, callees); c != nil && numResults(c) == len(x.Lhs) && (x.Tok == token.DEFINE || x.Tok == token.ASSIGN) {
						for _, l := range x.Lhs {
							// index operands of the left side are evaluated before the call: they must be
							// plain (identifiers / literals), which the callee cannot change
							// (a callee that merely computes cannot change them either: the order does not matter)
							if x.Tok == token.ASSIGN && !simpleOperand(l) && !plainIndexed(l) && !c.pure {
								return
							}
						}
						s := &inlSite{ce, c, pk, file}
						need, ok := ns.freeNamesOK(s)
						if !ok {
							return
						}
						pre, blk, temps, ok := ns.buildInline(s, "assign")
						if !ok {
							return
						}
						var lhs []string
						for _, l := range x.Lhs {
							lhs = append(lhs, ns.srcText(l.Pos(), l.End()))
						}
						text := pre + blk + "\n" + strings.Join(lhs, ", ") + " " + x.Tok.String() + " " + strings.Join(temps, ", ")
						record(s, st, text, need)
						return
					}
				}
				for _, l := range x.Lhs {
					if !simpleOperand(l) {
						return
					}
				}
				ns.tryHoist(pk, file, st, x.Rhs[0], callees, record)
			}
		case *ast.DeclStmt:
			// var x T = f(a…)
			gd, ok := x.Decl.(*ast.GenDecl)
			if !ok || gd.Tok != token.VAR || len(gd.Specs) != 1 {
				return
			}
			vs, ok := gd.Specs[0].(*ast.ValueSpec)
			if !ok || len(vs.Names) != 1 || len(vs.Values) != 1 {
				return
			}
			t := ns.findTarget(pk, vs.Values[0], callees, true)
			if t == nil {
				return
			}
			c := ns.calleeOf(pk, t, callees)
			if c == nil || numResults(c) != 1 {
				return
			}
			s := &inlSite{t, c, pk, file}
			need, ok := ns.freeNamesOK(s)
			if !ok {
				return
			}
			pre, blk, temps, ok := ns.buildInline(s, "assign")
			if !ok || len(temps) != 1 {
				return
			}
			text := pre + blk + "\n" + ns.render(st.Pos(), st.End(), []posEdit{{t.Pos(), t.End(), temps[0]}})
			record(s, st, text, need)
		case *ast.IfStmt:
			ns.tryIf(pk, file, x, callees, record)
		}
	}
	stmtLists(body, func(list []ast.Stmt) {
		for i, st := range list {
			if i+1 < len(list) && !covered(st) && !covered(list[i+1]) {
				if ns.tryAssignCheck(pk, file, st, list[i+1], callees, func(s *inlSite, text string, need map[string]string) {
					es.add(ns.fset, st.Pos(), list[i+1].End(), text)
					done[st], done[list[i+1]] = true, true
					record(s, nil, "", need)
				}) {
					continue
				}
			}
			try(st)
		}
	})
	// else-if statements are not in a statement list
	ast.Inspect(body, func(n ast.Node) bool {
		if ifs, ok := n.(*ast.IfStmt); ok {
			if e, ok := ifs.Else.(*ast.IfStmt); ok && !covered(e) {
				ns.tryIf(pk, file, e, callees, record)
			}
		}
		return true
	})
}

// tryHoist replaces a nested operand call by a temporary computed before the statement.
func (ns *normState) tryHoist(pk *packages.Package, file *ast.File, st ast.Stmt, e ast.Expr, callees map[types.Object]*inlCallee, record func(*inlSite, ast.Stmt, string, map[string]string)) bool {
	t := ns.findTarget(pk, e, callees, false)
	if t == nil {
		return false
	}
	c := ns.calleeOf(pk, t, callees)
	if c == nil || numResults(c) != 1 {
		return false
	}
	if t != e && !c.pure && !firstEvaluated(e, t) && !plainBefore(e, t) {
		// not the whole expression: only hoist computations
		if _, isCall := e.(*ast.CallExpr); isCall {
			return false
		}
	}
	s := &inlSite{t, c, pk, file}
	need, ok := ns.freeNamesOK(s)
	if !ok {
		return false
	}
	pre, blk, temps, ok := ns.buildInline(s, "assign")
	if !ok || len(temps) != 1 {
		return false
	}
	text := pre + blk + "\n" + ns.render(st.Pos(), st.End(), []posEdit{{t.Pos(), t.End(), temps[0]}})
	record(s, st, text, need)
	return true
}

func (ns *normState) tryIf(pk *packages.Package, file *ast.File, x *ast.IfStmt, callees map[types.Object]*inlCallee, record func(*inlSite, ast.Stmt, string, map[string]string)) {
	rest := func(condText string) string {
		t := "if " + condText + " " + ns.srcText(x.Body.Pos(), x.Body.End())
		if x.Else != nil {
			t += " else " + ns.srcText(x.Else.Pos(), x.Else.End())
		}
		return t
	}
	// if err := f(a); err != nil { …; return } — every return of f jumps straight to the body or past it
	if as, ok := x.Init.(*ast.AssignStmt); ok && len(as.Rhs) == 1 && as.Tok == token.DEFINE && x.Else == nil {
		if _, isCall := as.Rhs[0].(*ast.CallExpr); isCall {
			ns.checkIfText = "if " + ns.srcText(x.Cond.Pos(), x.Cond.End()) + " " + ns.srcText(x.Body.Pos(), x.Body.End())
			done := ns.tryAssignCheck(pk, file, as, x, callees, func(s *inlSite, text string, need map[string]string) {
				record(s, x, "{\n"+text+"\n}", need)
			})
			ns.checkIfText = ""
			if done {
				return
			}
		}
	}
	// call in the init statement: v, ok := f(a)
	if as, ok := x.Init.(*ast.AssignStmt); ok && len(as.Rhs) == 1 {
		if ce, ok := as.Rhs[0].(*ast.CallExpr); ok {
			if c := ns.calleeOf(pk, ce, callees); c != nil && numResults(c) == len(as.Lhs) && as.Tok == token.DEFINE {
				s := &inlSite{ce, c, pk, file}
				need, ok := ns.freeNamesOK(s)
				if !ok {
					return
				}
				pre, blk, temps, ok := ns.buildInline(s, "assign")
				if !ok {
					return
				}
				var lhs []string
				for _, l := range as.Lhs {
					lhs = append(lhs, ns.srcText(l.Pos(), l.End()))
				}
				text := "{\n" + pre + blk + "\n" + strings.Join(lhs, ", ") + " := " + strings.Join(temps, ", ") + "\n" + rest(ns.srcText(x.Cond.Pos(), x.Cond.End())) + "\n}"
				record(s, x, text, need)
				return
			}
		}
	}
	if x.Init != nil {
		// a call in the condition would have to be evaluated after the init statement
		t := ns.findTarget(pk, x.Cond, callees, false)
		if t == nil {
			return
		}
		c := ns.calleeOf(pk, t, callees)
		if c == nil || numResults(c) != 1 {
			return
		}
		s := &inlSite{t, c, pk, file}
		need, ok := ns.freeNamesOK(s)
		if !ok {
			return
		}
		pre, blk, temps, ok := ns.buildInline(s, "assign")
		if !ok {
			return
		}
		cond := ns.render(x.Cond.Pos(), x.Cond.End(), []posEdit{{t.Pos(), t.End(), temps[0]}})
		text := "{\n" + ns.srcText(x.Init.Pos(), x.Init.End()) + "\n" + pre + blk + "\n" + rest(cond) + "\n}"
		record(s, x, text, need)
		return
	}
	// if f(a) { A } else { B } with a boolean helper: every return of f jumps straight to A or B
	{
		cond := x.Cond
		neg := false
		for {
			if pe, ok := cond.(*ast.ParenExpr); ok {
				cond = pe.X
				continue
			}
			if ue, ok := cond.(*ast.UnaryExpr); ok && ue.Op == token.NOT {
				cond = ue.X
				neg = !neg
				continue
			}
			break
		}
		if ce, ok := cond.(*ast.CallExpr); ok {
			if c := ns.calleeOf(pk, ce, callees); c != nil && numResults(c) == 1 {
				if bt, isB := c.sig.Results().At(0).Type().Underlying().(*types.Basic); isB && bt.Kind() == types.Bool {
					s := &inlSite{ce, c, pk, file}
					need, ok := ns.freeNamesOK(s)
					if !ok {
						return
					}
					_, blk, labels, ok := ns.buildInline(s, "branch")
					if !ok {
						return
					}
					thenT := ns.srcText(x.Body.Pos(), x.Body.End())
					elseT := ""
					if x.Else != nil {
						elseT = ns.srcText(x.Else.Pos(), x.Else.End())
						if _, isIf := x.Else.(*ast.IfStmt); isIf {
							elseT = "{\n" + elseT + "\n}"
						}
					}
					tLab, fLab, eLab := labels[0], labels[1], labels[2]
					if neg {
						thenT, elseT = elseT, thenT
					}
					// thenT runs for a true result, elseT for a false one
					var b strings.Builder
					b.WriteString("{\n" + blk + "\n")
					if tLab != "" {
						b.WriteString(tLab + ":\n")
						if thenT != "" {
							b.WriteString(thenT + "\n")
						}
						if fLab != "" {
							b.WriteString("goto " + eLab + "\n")
						}
					}
					if fLab != "" {
						b.WriteString(fLab + ":\n")
						if elseT != "" {
							b.WriteString(elseT + "\n")
						}
						if tLab != "" {
							b.WriteString(eLab + ":\n")
						}
					}
					b.WriteString("}")
					record(s, x, b.String(), need)
					return
				}
			}
		}
	}
	t := ns.findTarget(pk, x.Cond, callees, false)
	if t == nil {
		return
	}
	c := ns.calleeOf(pk, t, callees)
	if c == nil || numResults(c) != 1 {
		return
	}
	s := &inlSite{t, c, pk, file}
	need, ok := ns.freeNamesOK(s)
	if !ok {
		return
	}
	pre, blk, temps, ok := ns.buildInline(s, "assign")
	if !ok {
		return
	}
	cond := ns.render(x.Cond.Pos(), x.Cond.End(), []posEdit{{t.Pos(), t.End(), temps[0]}})
	text := "{\n" + pre + blk + "\n" + rest(cond) + "\n}"
	record(s, x, text, need)
}

// firstEvaluated: t is the first thing evaluated in e (receiver chains: t().m().n(args)).
func firstEvaluated(e ast.Expr, t *ast.CallExpr) bool {
	for {
		switch x := e.(type) {
		case *ast.ParenExpr:
			e = x.X
		case *ast.CallExpr:
			if x == t {
				return true
			}
			sel, ok := x.Fun.(*ast.SelectorExpr)
			if !ok || plainOperand(x.Fun) {
				// pkg.F(t, …) / f(t, …): t is first if it is the first argument or follows plain ones
				return plainBefore(x, t)
			}
			e = sel.X
		case *ast.SelectorExpr:
			e = x.X
		default:
			return false
		}
	}
}

// plainOperand: identifier, literal, or method selector on an identifier (x.m).
func plainOperand(e ast.Expr) bool {
	switch x := e.(type) {
	case *ast.Ident, *ast.BasicLit:
		return true
	case *ast.ParenExpr:
		return plainOperand(x.X)
	case *ast.SelectorExpr:
		_, isId := x.X.(*ast.Ident)
		return isId
	}
	return false
}

// plainBefore: e is a call g(a1, …, t, …) whose function and arguments before t are plain.
func plainBefore(e ast.Expr, t *ast.CallExpr) bool {
	ce, ok := e.(*ast.CallExpr)
	if !ok || !plainOperand(ce.Fun) {
		return false
	}
	for _, a := range ce.Args {
		if a == ast.Expr(t) {
			return true
		}
		if !plainOperand(a) {
			return false
		}
	}
	return false
}

// tryAssignCheck handles  x, err := f(a…)  followed by  if err != nil { T }  (or a boolean flag):
// T must end the function (return / panic) and contain no break/continue/goto; the if has no else.
func (ns *normState) tryAssignCheck(pk *packages.Package, file *ast.File, st, next ast.Stmt, callees map[types.Object]*inlCallee, emit func(*inlSite, string, map[string]string)) bool {
	as, ok := st.(*ast.AssignStmt)
	if !ok || len(as.Rhs) != 1 || (as.Tok != token.DEFINE && as.Tok != token.ASSIGN) {
		return false
	}
	ce, ok := as.Rhs[0].(*ast.CallExpr)
	if !ok {
		return false
	}
	c := ns.calleeOf(pk, ce, callees)
	if c == nil || numResults(c) != len(as.Lhs) || (len(as.Lhs) < 2 && ns.checkIfText == "") {
		return false
	}
	ifs, ok := next.(*ast.IfStmt)
	if !ok || (ifs.Init != nil && ns.checkIfText == "") || ifs.Else != nil || len(ifs.Body.List) == 0 {
		return false
	}
	// the tested result
	var lhs []string
	for _, l := range as.Lhs {
		id, isId := l.(*ast.Ident)
		if !isId {
			return false
		}
		lhs = append(lhs, id.Name)
	}
	j, takeWhen := -1, ""
	cond := ifs.Cond
	neg := false
	for {
		if pe, ok := cond.(*ast.ParenExpr); ok {
			cond = pe.X
			continue
		}
		if ue, ok := cond.(*ast.UnaryExpr); ok && ue.Op == token.NOT {
			cond, neg = ue.X, !neg
			continue
		}
		break
	}
	find := func(e ast.Expr) int {
		id, ok := e.(*ast.Ident)
		if !ok || id.Name == "_" {
			return -1
		}
		for i, n := range lhs {
			if n == id.Name {
				return i
			}
		}
		return -1
	}
	switch x := cond.(type) {
	case *ast.Ident:
		j = find(x)
		takeWhen = "true"
		if neg {
			takeWhen = "false"
		}
	case *ast.BinaryExpr:
		isNil := func(e ast.Expr) bool { id, ok := e.(*ast.Ident); return ok && id.Name == "nil" }
		if (x.Op == token.NEQ || x.Op == token.EQL) && (isNil(x.Y) || isNil(x.X)) {
			if isNil(x.Y) {
				j = find(x.X)
			} else {
				j = find(x.Y)
			}
			takeWhen = "nonnil"
			if (x.Op == token.EQL) != neg {
				takeWhen = "nil"
			}
		}
	}
	if j < 0 {
		return false
	}
	// T terminates and has no branch statements that could bind differently when copied
	last := ifs.Body.List[len(ifs.Body.List)-1]
	term := false
	switch x := last.(type) {
	case *ast.ReturnStmt:
		term = true
	case *ast.ExprStmt:
		if call, ok := x.X.(*ast.CallExpr); ok {
			if id, ok := call.Fun.(*ast.Ident); ok && id.Name == "panic" {
				term = true
			}
		}
	}
	if !term {
		return false
	}
	clean := true
	ast.Inspect(ifs.Body, func(n ast.Node) bool {
		switch n.(type) {
		case *ast.BranchStmt, *ast.LabeledStmt, *ast.FuncLit, *ast.DeferStmt:
			clean = false
		}
		return true
	})
	if !clean {
		return false
	}
	s := &inlSite{ce, c, pk, file}
	need, ok := ns.freeNamesOK(s)
	if !ok {
		return false
	}
	ns.check = &checkSpec{lhs: lhs, j: j, takeWhen: takeWhen, then: ns.srcText(ifs.Body.Pos(), ifs.Body.End()), used: map[string]bool{}}
	defer func() { ns.check = nil }()
	_, blk, labels, ok := ns.buildInline(s, "check")
	if !ok {
		return false
	}
	// declarations for names this statement introduces
	var b strings.Builder
	sig := c.sig
	_ = sig
	var resTypes []string
	if c.decl.Type.Results != nil {
		for _, f := range c.decl.Type.Results.List {
			tt := ns.srcText(f.Type.Pos(), f.Type.End())
			n := len(f.Names)
			if n == 0 {
				n = 1
			}
			for k := 0; k < n; k++ {
				resTypes = append(resTypes, tt)
			}
		}
	}
	for i, l := range as.Lhs {
		id := l.(*ast.Ident)
		if id.Name == "_" {
			return false
		}
		if as.Tok == token.DEFINE && pk.TypesInfo.Defs[id] != nil {
			tt := resTypes[i]
			if sig.TypeParams() != nil && sig.TypeParams().Len() > 0 {
				// a generic callee: the variable's type at this site (the instance's result type)
				if t := pk.TypesInfo.TypeOf(id); t != nil {
					tt = types.TypeString(t, func(p *types.Package) string {
						if p == pk.Types {
							return ""
						}
						return p.Name()
					})
				}
			}
			fmt.Fprintf(&b, "var %s %s\n_ = %s\n", id.Name, tt, id.Name)
		}
	}
	b.WriteString(blk + "\n")
	if ns.check.used["Check"] {
		ifText := ns.srcText(ifs.Pos(), ifs.End())
		if ns.checkIfText != "" {
			ifText = ns.checkIfText
		}
		b.WriteString(labels[0] + ":\n" + ifText + "\n")
	}
	if ns.check.used["Cont"] {
		b.WriteString(labels[1] + ":\n")
	}
	emit(s, b.String(), need)
	return true
}

// plainIndexed: x[i] or x.f[i] with plain x and i.
func plainIndexed(e ast.Expr) bool {
	ix, ok := e.(*ast.IndexExpr)
	return ok && plainOperand(ix.X) && plainOperand(ix.Index)
}

// typeSrc renders a type expression of the callee's declaration, with type parameters of a generic
// callee replaced by the type arguments of the instance being inlined.
func (ns *normState) typeSrc(c *inlCallee, e ast.Expr) string {
	if ns.typeArgs == nil {
		return ns.srcText(e.Pos(), e.End())
	}
	var eds []posEdit
	ast.Inspect(e, func(n ast.Node) bool {
		if id, ok := n.(*ast.Ident); ok {
			if txt, isTP := ns.typeArgs[c.pk.TypesInfo.Uses[id]]; isTP {
				eds = append(eds, posEdit{id.Pos(), id.End(), txt})
			}
		}
		return true
	})
	return ns.render(e.Pos(), e.End(), eds)
}
