package main

// C07 Serving is total: any request runs exactly one chain, never a routing panic.

import (
	"fmt"
	"go/ast"
	"go/token"
	"go/types"
	"os"
	"strings"

	"golang.org/x/tools/go/ssa"
)

func init() { register("C07", checkC07) }

// routingFuncs: functions of the route package in REQ plus router.ServeHTTP.
func routingFuncs(p *Prog) []*ssa.Function {
	var out []*ssa.Function
	for _, f := range p.REQList() {
		top := f
		for top.Parent() != nil {
			top = top.Parent()
		}
		if top.Pkg == p.SSA["route"] {
			out = append(out, f)
		}
	}
	if sh := p.Meth("flamego", "router", "ServeHTTP"); sh != nil {
		out = append(out, sh)
	}
	if sh := p.Meth("flamego", "Flame", "ServeHTTP"); sh != nil {
		out = append(out, sh)
	}
	return out
}

func checkC07(c *Check) {
	p := c.P
	c.Explain = "path counting of chain starts in ServeHTTP, index/slice safety of the routing path (Go compiler prove pass as oracle + a cursor-provenance lattice 0<=next<=len(path) with inferred per-parameter facts), guarded type assertions and explicit panics, not-found chain construction, ban on time/rand/environment reads in the routing path"
	c.NotDec = []string{
		"panics inside regexp, net/url and user handlers",
		"stack depth for very long paths (recursion is one frame per segment)",
		"that Invoke's reflection cannot panic for well-typed handlers",
	}
	c.Trusted = []string{"Go compiler prove pass (ssa/check_bce) as a static analysis", "regexp.FindStringSubmatch returns nil or NumSubexp()+1 entries", "strings.Index returns -1 or an offset < len"}

	// ---- R1 exactly one chain per request
	c.Rule("R1", "E1 path counting", "every path through router.ServeHTTP starts exactly one chain (leaf.Handler()(…) or notFound(…)); Flame.ServeHTTP enters the router at most once, and always unless a before-handler ended the request", 3)
	if sh := p.Meth("flamego", "router", "ServeHTTP"); sh != nil {
		key := p.FuncKey(sh)
		isCS := func(in ssa.Instruction) bool {
			ci, ok := in.(ssa.CallInstruction)
			if !ok || callName(ci.Common()) != "dynamic" {
				return false
			}
			v := ci.Common().Value
			return vCall("(route.Leaf).Handler")(v) || vField(vParam(sh, 0), "notFound")(v)
		}
		var starts []ssa.Instruction
		allInstrs(sh, func(in ssa.Instruction) {
			if isCS(in) {
				starts = append(starts, in)
			}
		})
		in, path := Query{Fn: sh, Avoid: isCS}.FromEntry(isReturn)
		if in == nil && len(starts) > 0 {
			c.OK(key+":at-least-one-chain", p.FuncPos(sh), fmt.Sprintf("every return is preceded by one of %d chain starts", len(starts)), numInstrs(sh))
		} else {
			c.Bad(key+":at-least-one-chain", p.FuncPos(sh), "a path through ServeHTTP returns without running any chain: the client gets no response", blockPath(path))
		}
		two := ""
		var at ssa.Instruction
		for _, s := range starts {
			if in, path := (Query{Fn: sh}).After(s, isCS); in != nil {
				two, at = blockPath(path), in
			}
		}
		if two == "" {
			c.OK(key+":at-most-one-chain", p.FuncPos(sh), "no chain start is reachable from another", numInstrs(sh))
		} else {
			c.Bad(key+":at-most-one-chain", p.Pos(at.Pos()), "two chains can run for one request (missing return after dispatch)", two)
		}
		// values looked up in maps keyed by request data may be absent: an interface
		// method may be invoked on them only on the comma-ok true edge (or after a nil test)
		allInstrs(sh, func(in ssa.Instruction) {
			ci, ok := in.(ssa.CallInstruction)
			if !ok || !ci.Common().IsInvoke() {
				return
			}
			rv := strip(ci.Common().Value)
			var lk *ssa.Lookup
			commaOK := false
			if e, isE := rv.(*ssa.Extract); isE {
				if l, isL := e.Tuple.(*ssa.Lookup); isL && l.CommaOk {
					lk, commaOK = l, true
				}
			} else if l, isL := rv.(*ssa.Lookup); isL {
				lk = l
			}
			if lk == nil {
				return
			}
			if _, isMap := lk.X.Type().Underlying().(*types.Map); !isMap {
				return
			}
			k := key + ":present:" + ci.Common().Method.Name()
			g := edgesWhere(sh, cCmp(token.NEQ, vIs(rv), vNil), true)
			if commaOK {
				g = union(g, edgesWhere(sh, cBool(vExtract(1, vIs(lk))), true))
			}
			// … or on the present edge of an earlier comma-ok lookup of the same table under the same key (the
			// table is not written while serving: C05)
			allInstrs(sh, func(in2 ssa.Instruction) {
				l2, isL := in2.(*ssa.Lookup)
				if !isL || !l2.CommaOk || l2 == lk {
					return
				}
				if sameValue(l2.X, lk.X) && sameValue(l2.Index, lk.Index) {
					g = union(g, edgesWhere(sh, cBool(vExtract(1, vIs(l2))), true))
				}
			})
			ok2, path := guardedBy(sh, g, isInstr(in))
			if ok2 && len(g) > 0 {
				c.OK(k, p.Pos(in.Pos()), "method invoked on a map element only on the present/non-nil edge", numInstrs(sh))
			} else {
				c.Bad(k, p.Pos(in.Pos()), "a method is invoked on a map element that is absent for some requests (e.g. an unknown HTTP method): nil-interface panic while serving", path)
			}
		})
		// what is dispatched comes from this request's own lookup: the shortcut hit or Match's result on its
		// ok edge; the not-found chain only after the tree was missing or Match said no (no result cache)
		var matchCall ssa.Value
		allInstrs(sh, func(in ssa.Instruction) {
			if cl, ok := in.(*ssa.Call); ok && callName(&cl.Call) == "(route.Tree).Match" {
				matchCall = cl
			}
		})
		for _, s0 := range starts {
			ci := s0.(ssa.CallInstruction)
			k := key + ":dispatch-provenance"
			if h := asCall(ci.Common().Value); h != nil && callName(&h.Call) == "(route.Leaf).Handler" {
				leaf := strip(h.Call.Value)
				okProv := false
				var g EdgeSet
				if e, isE := leaf.(*ssa.Extract); isE && e.Index == 0 {
					switch t := e.Tuple.(type) {
					case *ssa.Lookup:
						if lk2, isL := strip(t.X).(*ssa.Lookup); isL && vField(vParam(sh, 0), "staticRoutes")(lk2.X) {
							okProv = true
							g = edgesWhere(sh, cBool(vExtract(1, vIs(t))), true)
						}
					case *ssa.Call:
						if callName(&t.Call) == "(route.Tree).Match" {
							okProv = true
							g = edgesWhere(sh, cBool(vExtract(2, vIs(t))), true)
						}
					}
				}
				okG := false
				if okProv && len(g) > 0 {
					okG, _ = guardedBy(sh, g, isInstr(s0))
				}
				// the results of a lookup step merged into variables (leaf, …, found): every incoming leaf is a
				// shortcut hit / Match result that arrives through its own ok edge, or nil on an edge where the
				// found flag — which guards the dispatch — is false
				if ph, isPhi := leaf.(*ssa.Phi); isPhi && !okProv {
					prov := func(v ssa.Value) EdgeSet {
						e, isE := strip(v).(*ssa.Extract)
						if !isE || e.Index != 0 {
							return nil
						}
						switch t := e.Tuple.(type) {
						case *ssa.Lookup:
							if lk2, isL := strip(t.X).(*ssa.Lookup); isL && vField(vParam(sh, 0), "staticRoutes")(lk2.X) {
								return edgesWhere(sh, cBool(vExtract(1, vIs(t))), true)
							}
						case *ssa.Call:
							if callName(&t.Call) == "(route.Tree).Match" {
								return edgesWhere(sh, cBool(vExtract(2, vIs(t))), true)
							}
						}
						return nil
					}
					var flag *ssa.Phi
					for _, in := range ph.Block().Instrs {
						if f, isF := in.(*ssa.Phi); isF && types.Identical(f.Type(), types.Typ[types.Bool]) && len(f.Edges) == len(ph.Edges) {
							fe := edgesWhere(sh, cBool(vIs(f)), true)
							if gd, _ := guardedBy(sh, fe, isInstr(s0)); gd && len(fe) > 0 {
								flag = f
							}
						}
					}
					all := len(ph.Edges) > 0
					for i, e := range ph.Edges {
						if ge := prov(e); len(ge) > 0 && edgeGuarded(sh, ge, ph.Block().Preds[i], ph.Block()) {
							continue
						}
						if vNil(e) && flag != nil && vConstBool(false)(flag.Edges[i]) {
							continue
						}
						all = false
					}
					okProv, okG = all, all
				}
				c.Cond(okProv && okG, k, p.Pos(s0.Pos()), "dispatched leaf = shortcut hit or Match result, on its ok edge", "a leaf is dispatched that does not come from this request's shortcut lookup or tree match (e.g. a result cache): the outcome depends on earlier requests or registrations")
			} else {
				// not-found: only on the missing-tree edge or the Match-failed edge
				g := EdgeSet{}
				allInstrs(sh, func(in ssa.Instruction) {
					if lk, ok := in.(*ssa.Lookup); ok && lk.CommaOk && vField(vParam(sh, 0), "routeTrees")(lk.X) {
						g.addAll(edgesWhere(sh, cBool(vExtract(1, vIs(lk))), false))
					}
				})
				if matchCall != nil {
					g.addAll(edgesWhere(sh, cBool(vExtract(2, vIs(matchCall))), false))
				}
				okG, path := guardedBy(sh, g, isInstr(s0))
				if okG && len(g) > 0 {
					c.OK(k+":not-found", p.Pos(s0.Pos()), "not-found only after the method's tree was missing or Match reported no match for this request", numInstrs(sh))
				} else {
					c.Bad(k+":not-found", p.Pos(s0.Pos()), "the not-found chain can run without the tree having been asked for this request (e.g. a cache of earlier misses): a route registered meanwhile, or admitting the path, is ignored", path)
				}
			}
		}
		// the handler invoked is the matched leaf's, with the request's own w and req
		for _, s := range starts {
			a := s.(ssa.CallInstruction).Common().Args
			okArgs := len(a) >= 2 && vParam(sh, 1)(a[0]) && vParam(sh, 2)(a[1])
			c.Cond(okArgs, key+":chain-args", p.Pos(s.Pos()), "chain started with the request's own writer and request", "a chain is started with a writer/request other than the ones being served")
		}
	} else {
		c.Anchor("router.ServeHTTP")
	}
	// who may start a chain at all
	{
		shF := p.Meth("flamego", "router", "ServeHTTP")
		fsF := p.Meth("flamego", "Flame", "ServeHTTP")
		next := p.Meth("flamego", "context", "Next")
		nOK := 0
		for _, fn := range p.Funcs() {
			allInstrs(fn, func(in ssa.Instruction) {
				ci, ok := in.(ssa.CallInstruction)
				if !ok {
					return
				}
				kind := ""
				switch {
				case callName(ci.Common()) == "dynamic" && vFieldNamed("notFound")(ci.Common().Value):
					kind = "notFound"
				case ci.Common().IsInvoke() && ci.Common().Method.Name() == "ServeHTTP" && namedName(ci.Common().Value.Type()) == "Router":
					kind = "Router.ServeHTTP"
				case ci.Common().StaticCallee() != nil && ci.Common().StaticCallee() == shF:
					kind = "Router.ServeHTTP"
				case ci.Common().IsInvoke() && p.methodAliasName(ci.Common().Method.Name()) == "run" && namedName(ci.Common().Value.Type()) == "internalContext":
					kind = "run"
				}
				if kind == "" {
					return
				}
				allowed := false
				switch kind {
				case "notFound":
					allowed = fn == shF
				case "Router.ServeHTTP":
					allowed = fn == fsF
				case "run":
					par := fn.Parent()
					allowed = fn == next || (par != nil && par.Signature.Recv() != nil && namedName(derefT(par.Signature.Recv().Type())) == "router" && (par.Name() == "Route" || par.Name() == "NotFound"))
				}
				if allowed {
					nOK++
				} else {
					c.Bad(p.FuncKey(fn)+":starts-chain:"+kind, p.Pos(in.Pos()), "a handler chain is started ("+kind+") outside the dispatch points (router.ServeHTTP for not-found, Flame.ServeHTTP for the router, the route/not-found closures for run): a request can run a second chain, e.g. from a recover handler")
				}
			})
		}
		if nOK > 0 {
			c.OK("flamego:chain-start-sites", "router.go", fmt.Sprintf("%d chain-start call sites, all at the dispatch points", nOK), nOK)
		}
	}
	if fs := p.Meth("flamego", "Flame", "ServeHTTP"); fs != nil {
		key := p.FuncKey(fs)
		rs := callsNamed(fs, "(flamego.Router).ServeHTTP", "(net/http.Handler).ServeHTTP")
		var rsi []ssa.Instruction
		for _, r := range rs {
			rsi = append(rsi, r)
		}
		beforeTrue := EdgeSet{}
		for _, b := range fs.Blocks {
			if ifi, ok := b.Instrs[len(b.Instrs)-1].(*ssa.If); ok {
				if cl := asCall(ifi.Cond); cl != nil && callName(&cl.Call) == "dynamic" {
					beforeTrue[Edge{b, 0}] = true
				}
			}
		}
		in, path := Query{Fn: fs, Cut: beforeTrue, Avoid: inSet(rsi)}.FromEntry(isReturn)
		twice := false
		for _, r := range rs {
			if in2, _ := (Query{Fn: fs}).After(r, inSet(rsi)); in2 != nil {
				twice = true
			}
		}
		if len(rs) > 0 && in == nil && !twice {
			c.OK(key+":enters-router-once", p.FuncPos(fs), "the router is entered exactly once unless a before-handler returned true", numInstrs(fs))
		} else {
			c.Bad(key+":enters-router-once", p.FuncPos(fs), "Flame.ServeHTTP can return without entering the router (or enter it twice)", blockPath(path))
		}
	} else {
		c.Anchor("Flame.ServeHTTP")
	}

	// ---- R2 index/slice safety of the routing path
	c.Rule("R2", "E8 prove-pass oracle + cursor lattice", "every index/slice operation in the routing path is proven by the Go compiler or discharged by a repo-specific argument (cursor lattice 0<=next<=len(path); regex sub-match table; printer emits a leading '/')", 8)
	checkRoutingIndexSafety(c)

	// ---- R3 guarded assertions, explicit panics
	c.Rule("R3", "E1 guard-cut + E7", "type assertions in the matcher are guarded by the style they assert, exactly one Tree and one Leaf type report style `all`; the explicit panic in baseTree.match is unreachable because only non-base trees enter sibling lists; the params map is made, never nil", 4)
	checkRoutingAssertions(c)

	// ---- R4 not-found chain
	c.Rule("R4", "E3 provenance", "NotFound installs a closure that creates a context with nil params and the given handlers and runs it; router construction installs a default", 2)
	if nf := p.Meth("flamego", "router", "NotFound"); nf != nil {
		key := p.FuncKey(nf)
		stored := false
		for _, u := range p.FieldUses(p.Field("flamego", "router", "notFound")) {
			if u.Kind != "store" {
				continue
			}
			if u.Fn == nf {
				if mc, ok := strip(u.Instr.(*ssa.Store).Val).(*ssa.MakeClosure); ok {
					lit := mc.Fn.(*ssa.Function)
					for _, ci := range callsIn(lit, func(n string, cm *ssa.CallCommon) bool { return n == "dynamic" }) {
						if vField(vAny, "contextCreator")(ci.Common().Value) {
							a := ci.Common().Args
							ok := vParam(lit, 0)(a[0]) && vParam(lit, 1)(a[1]) && vNil(a[2])
							stored = ok
							continue
						}
						// one hop: the closure calls a chain function built beforehand (a captured function value whose
						// definition is a literal doing the same with its own parameters), passing (w, req, nil)
						a := ci.Common().Args
						if len(a) != 3 || !vParam(lit, 0)(a[0]) || !vParam(lit, 1)(a[1]) || !vNil(a[2]) {
							continue
						}
						var inner *ssa.Function
						fv := strip(ci.Common().Value)
						if ld, isLd := fv.(*ssa.UnOp); isLd {
							if cell := cellOf(ld); cell != nil {
								for _, st := range cellStores(cell, 0) {
									if m2, isMC := strip(st.Val).(*ssa.MakeClosure); isMC {
										inner, _ = m2.Fn.(*ssa.Function)
									}
								}
							}
						} else if f, isFV := fv.(*ssa.FreeVar); isFV {
							if b := freeVarBinding(f); b != nil {
								if m2, isMC := strip(b).(*ssa.MakeClosure); isMC {
									inner, _ = m2.Fn.(*ssa.Function)
								}
							}
						}
						if m2, isMC := fv.(*ssa.MakeClosure); isMC {
							inner, _ = m2.Fn.(*ssa.Function)
						}
						if inner == nil || len(inner.Params) != 3 {
							continue
						}
						for _, c2 := range callsIn(inner, func(n string, cm *ssa.CallCommon) bool { return n == "dynamic" }) {
							if vField(vAny, "contextCreator")(c2.Common().Value) {
								b := c2.Common().Args
								if vParam(inner, 0)(b[0]) && vParam(inner, 1)(b[1]) && vParam(inner, 2)(b[2]) {
									stored = true
								}
							}
						}
					}
				}
			} else if !u.Fresh {
				c.Bad(p.FuncKey(u.Fn)+":notFound.store", p.Pos(u.Instr.Pos()), "the not-found handler is replaced outside NotFound()")
			}
		}
		c.Cond(stored, key+":closure", p.FuncPos(nf), "notFound = func(w, req){ contextCreator(w, req, nil, handlers, …).run() }", "NotFound() does not install a chain-running closure over the request's writer and request")
		// constructor installs a default
		def := false
		for _, fn := range p.Funcs() {
			if fn.Name() == "newRouter" || fn.Name() == "NewWithLogger" {
				for _, ci := range callsIn(fn, func(n string, cm *ssa.CallCommon) bool {
					return n == "(*flamego.router).NotFound" || n == "(flamego.Router).NotFound"
				}) {
					_ = ci
					def = true
				}
			}
		}
		c.Cond(def, "flamego.newRouter:default-not-found", p.FuncPos(nf), "a default not-found chain is installed at construction", "no default not-found handler is installed: notFound is nil until the user sets one")
	} else {
		c.Anchor("router.NotFound")
	}

	// ---- R7 a plain map lookup keyed by request data may yield the zero value
	c.Rule("R7", "E1 guard-cut", "in the routing path the result of a plain (not comma-ok) map lookup of pointer, function or interface kind is dereferenced, called or handed to sync/atomic only under a nil test: the key is request data (any method token, any path), so the lookup may miss", 1)
	{
		n, bad := 0, 0
		for _, fn := range routingFuncs(p) {
			allInstrs(fn, func(in ssa.Instruction) {
				l, ok := in.(*ssa.Lookup)
				if !ok || l.CommaOk {
					return
				}
				if _, isMap := l.X.Type().Underlying().(*types.Map); !isMap {
					return
				}
				switch l.Type().Underlying().(type) {
				case *types.Pointer, *types.Signature, *types.Interface:
				default:
					return
				}
				n++
				guards := edgesWhere(fn, cCmp(token.NEQ, vIs(l), vNil), true).addAll(edgesWhere(fn, cCmp(token.EQL, vIs(l), vNil), false))
				// … or a comma-ok lookup of the same key in a table that is filled together with this one
				// (same block, same key at registration/construction) has succeeded
				allInstrs(fn, func(o ssa.Instruction) {
					l2, ok := o.(*ssa.Lookup)
					if !ok || !l2.CommaOk || l2 == l || !sameValue(l2.Index, l.Index) {
						return
					}
					fa, fb := fieldOf(addrOfLoad(strip(l.X))), fieldOf(addrOfLoad(strip(l2.X)))
					if fa == nil || fb == nil || !coPopulated(p, fa, fb) {
						return
					}
					guards.addAll(edgesWhere(fn, cBool(vExtract(1, vIs(l2))), true))
				})
				for _, use := range nilSensitiveUses(l) {
					if okG, _ := guardedBy(fn, guards, isInstr(use)); len(guards) > 0 && okG {
						continue
					}
					bad++
					c.Bad(p.FuncKey(fn)+":lookup-deref", p.Pos(use.Pos()), "the result of a plain map lookup ("+shortName(l.X.Type().String())+") is used here without a nil test: a key that is not in the map (any method token or path can arrive) makes the request panic before any chain runs")
				}
			})
		}
		if bad == 0 {
			c.OK("routing-path:lookup-deref", "routing path", fmt.Sprintf("%d plain lookups of nilable kind in %d routing functions; none is used unguarded", n, len(routingFuncs(p))), 1)
		}
	}

	// ---- R6 the chain that runs is the chosen route's own
	c.Rule("R6", "shared with C03 (R7)", "the per-request chain is a fresh slice of application middleware followed by the chosen route's (or the not-found) handlers: no other request's handlers can appear in it", 5)
	c.Share("C03", []string{"R7"}, 5)

	// ---- R8 the chosen route is one that is eligible for this request's headers
	c.Rule("R8", "shared with C09 (R1)", "a leaf reports a match only behind its header gate asked about this request's headers, on every path that reaches a leaf matcher (a route whose constraints fail is not chosen: the not-found chain or a lower-priority route runs)", 4)
	c.Share("C09", []string{"R1"}, 4)

	// ---- R5 determinism: no clock / randomness / environment in the routing path
	c.Rule("R5", "E5 who-may-call ban", "functions of the routing path do not read the clock, random sources, the environment or package-level mutable state", 1)
	banned := []string{"time.Now", "time.Since", "math/rand.", "crypto/rand.", "os.Getenv", "os.LookupEnv", "runtime.NumGoroutine"}
	nb := 0
	for _, fn := range routingFuncs(p) {
		allInstrs(fn, func(in ssa.Instruction) {
			if ci, ok := in.(ssa.CallInstruction); ok {
				n := callName(ci.Common())
				for _, b := range banned {
					if strings.HasPrefix(n, b) {
						nb++
						c.Bad(p.FuncKey(fn)+":nondeterministic-call", p.Pos(in.Pos()), "the routing path calls "+n+": the outcome is no longer a function of routes and request alone")
					}
				}
			}
			// reads of package-level variables of the module (other than through sync.Once'd fields)
			if u, ok := in.(*ssa.UnOp); ok && u.Op == token.MUL {
				if g, ok := u.X.(*ssa.Global); ok && p.inModuleGlobal(g) {
					if fn.Pkg == p.SSA["route"] || strings.Contains(p.FuncKey(fn), "ServeHTTP") {
						// error sentinel style globals are fine; flag only if the global is ever stored outside init
						if p.globalMutated(g) {
							nb++
							c.Bad(p.FuncKey(fn)+":reads-mutable-global", p.Pos(in.Pos()), "the routing path reads mutable package-level state "+g.Name())
						}
					}
				}
			}
		})
	}
	// Go randomises map iteration order: a range over a map may be left early only if the body has had no
	// effect (otherwise which entries were processed depends on the order)
	orderFns := append([]*ssa.Function{}, routingFuncs(p)...)
	// … and the registration-time functions that build the tables a request is decided by
	for _, f := range []*ssa.Function{p.Fn("route", "NewHeaderMatcher"), p.Meth("flamego", "Route", "Headers"), p.Meth("flamego", "router", "addRoute")} {
		if f != nil {
			orderFns = append(orderFns, f)
		}
	}
	for _, fn := range orderFns {
		for _, why := range orderDependentMapLoops(fn) {
			nb++
			c.Bad(p.FuncKey(fn)+":map-order-dependent", p.FuncPos(fn), why)
		}
	}
	if nb == 0 {
		c.OK("routing-path:deterministic-inputs", "internal/route", fmt.Sprintf("%d routing functions call no clock/random/environment source and read no mutable global", len(routingFuncs(p))), len(routingFuncs(p)))
	}
}

func (p *Prog) inModuleGlobal(g *ssa.Global) bool {
	if g.Pkg == nil {
		return false
	}
	_, ok := pkgShort[g.Pkg.Pkg.Path()]
	return ok
}

// globalMutated: stored anywhere outside package initialisers.
func (p *Prog) globalMutated(g *ssa.Global) bool {
	mut := false
	for _, fn := range p.Funcs() {
		if fn.Name() == "init" || strings.HasPrefix(fn.Name(), "init#") {
			continue
		}
		allInstrs(fn, func(in ssa.Instruction) {
			if st, ok := in.(*ssa.Store); ok {
				if r, _ := addrRoot(st.Addr); r == ssa.Value(g) {
					mut = true
				}
			}
		})
	}
	return mut
}

// ------------------------------------------------------------ cursor lattice

type cfKind int

const (
	cfBot     cfKind = iota // optimistic (loop phi not yet evaluated)
	cfPos                   // 1 <= v <= len(path)
	cfAtSlash               // base <= v < len(path), v = base + Index(path[base:], "/")
	cfSafe                  // 0 <= v <= len(path)
	cfTop                   // unknown
)

type cfact struct {
	k    cfKind
	base ssa.Value
}

func (f cfact) String() string {
	switch f.k {
	case cfBot:
		return "⊥"
	case cfPos:
		return "POS(1<=v<=len)"
	case cfAtSlash:
		return "AT_SLASH(c<=v<len)"
	case cfSafe:
		return "SAFE(0<=v<=len)"
	}
	return "⊤"
}

func cfMeet(a, b cfact) cfact {
	if a.k == cfBot {
		return b
	}
	if b.k == cfBot {
		return a
	}
	if a.k == cfTop || b.k == cfTop {
		return cfact{k: cfTop}
	}
	if a.k == b.k {
		if a.k == cfAtSlash && a.base != b.base {
			return cfact{k: cfSafe}
		}
		return a
	}
	return cfact{k: cfSafe}
}

// cursorPair: in function Fn, parameter Cur is a cursor into string parameter Path.
type cursorPair struct {
	Fn        *ssa.Function
	Path, Cur int
}

type cursorAnalysis struct {
	p     *Prog
	pairs map[*ssa.Function]*cursorPair
	fact  map[*ssa.Function]cfKind // inferred fact of the cursor parameter
	memo  map[ssa.Value]cfact
}

func isIntT(t types.Type) bool {
	b, ok := t.Underlying().(*types.Basic)
	return ok && b.Kind() == types.Int
}

func isStringT(t types.Type) bool {
	b, ok := t.Underlying().(*types.Basic)
	return ok && b.Kind() == types.String
}

// dependsOn: v is derived from x by +,- and phis.
func dependsOn(v, x ssa.Value, depth int) bool {
	v = strip(v)
	if v == x {
		return true
	}
	if depth > 8 {
		return false
	}
	switch y := v.(type) {
	case *ssa.BinOp:
		return dependsOn(y.X, x, depth+1) || dependsOn(y.Y, x, depth+1)
	case *ssa.Phi:
		for _, e := range y.Edges {
			if strip(e) != v && dependsOn(e, x, depth+1) {
				return true
			}
		}
	}
	return false
}

func newCursorAnalysis(p *Prog, fns []*ssa.Function) *cursorAnalysis {
	ca := &cursorAnalysis{p: p, pairs: map[*ssa.Function]*cursorPair{}, fact: map[*ssa.Function]cfKind{}, memo: map[ssa.Value]cfact{}}
	// role detection: an int parameter that bounds a slice of a string parameter of the same function
	for _, fn := range fns {
		for si, sp := range fn.Params {
			if !isStringT(sp.Type()) {
				continue
			}
			for ni, np := range fn.Params {
				if !isIntT(np.Type()) {
					continue
				}
				allInstrs(fn, func(in ssa.Instruction) {
					if sl, ok := in.(*ssa.Slice); ok && strip(sl.X) == ssa.Value(sp) {
						if (sl.Low != nil && dependsOn(sl.Low, np, 0)) || (sl.High != nil && dependsOn(sl.High, np, 0)) {
							if ca.pairs[fn] == nil {
								ca.pairs[fn] = &cursorPair{Fn: fn, Path: si, Cur: ni}
							}
						}
					}
				})
			}
		}
	}
	// forwarding: (S, N) passed to a known pair in the same positions
	for changed := true; changed; {
		changed = false
		for _, fn := range fns {
			if ca.pairs[fn] != nil {
				continue
			}
			allInstrs(fn, func(in ssa.Instruction) {
				ci, ok := in.(ssa.CallInstruction)
				if !ok || ca.pairs[fn] != nil {
					return
				}
				for _, cal := range p.moduleCallees(ci.Common()) {
					cp := ca.pairs[cal]
					if cp == nil {
						continue
					}
					as := callArgs(ci.Common())
					if cp.Path >= len(as) || cp.Cur >= len(as) {
						continue
					}
					for si, sp := range fn.Params {
						for ni, np := range fn.Params {
							if isStringT(sp.Type()) && isIntT(np.Type()) && strip(as[cp.Path]) == ssa.Value(sp) && dependsOn(as[cp.Cur], np, 0) {
								ca.pairs[fn] = &cursorPair{Fn: fn, Path: si, Cur: ni}
								changed = true
							}
						}
					}
				}
			})
		}
	}
	for fn := range ca.pairs {
		ca.fact[fn] = cfPos // optimistic start; lowered by call sites
	}
	return ca
}

// notMinusOne: edges on which idx (a strings.Index result) is known >= 0.
func notMinusOne(fn *ssa.Function, idx ssa.Value) EdgeSet {
	i := vIs(idx)
	if c0, _, isCut := cutIndexValue(idx); isCut {
		// len(before) of one strings.Cut call, in any of its occurrences
		i = func(v ssa.Value) bool {
			c1, _, ok := cutIndexValue(v)
			return ok && c1 == c0
		}
	}
	return union(
		edgesWhere(fn, cCmp(token.EQL, i, vConstInt(-1)), false),
		edgesWhere(fn, cCmp(token.LSS, i, vConstInt(0)), false),
		edgesWhere(fn, cCmp(token.GTR, i, vConstInt(-1)), true),
	)
}

// indexFrom: v == strings.Index(path[c:], "/") (or IndexByte); returns c.
func indexFrom(v ssa.Value, path ssa.Value) (ssa.Value, bool) {
	if c, sep, isCut := cutIndexValue(v); isCut && sep == "/" {
		sl, ok := strip(c.Call.Args[0]).(*ssa.Slice)
		if !ok || strip(sl.X) != strip(path) || sl.High != nil || sl.Low == nil {
			return nil, false
		}
		return strip(sl.Low), true
	}
	cl := asCall(v)
	if cl == nil {
		return nil, false
	}
	n := callName(&cl.Call)
	if n != "strings.Index" && n != "strings.IndexByte" {
		return nil, false
	}
	sl, ok := strip(cl.Call.Args[0]).(*ssa.Slice)
	if !ok || strip(sl.X) != strip(path) || sl.High != nil || sl.Low == nil {
		return nil, false
	}
	if s, isS := constStr(cl.Call.Args[1]); isS && s != "/" {
		return nil, false
	}
	if k, isI := constInt(cl.Call.Args[1]); isI && k != '/' {
		return nil, false
	}
	return strip(sl.Low), true
}

func (ca *cursorAnalysis) eval(fn *ssa.Function, path ssa.Value, v ssa.Value) cfact {
	v = strip(v)
	if f, ok := ca.memo[v]; ok {
		return f
	}
	res := cfact{k: cfTop}
	switch x := v.(type) {
	case *ssa.Const:
		if k, ok := constInt(x); ok && k == 0 {
			res = cfact{k: cfSafe}
		}
	case *ssa.Parameter:
		if cp := ca.pairs[fn]; cp != nil && fn.Params[cp.Cur] == x && strip(path) == ssa.Value(fn.Params[cp.Path]) {
			res = cfact{k: ca.fact[fn]}
		}
	case *ssa.Phi:
		ca.memo[v] = cfact{k: cfBot}
		for iter := 0; iter < 6; iter++ {
			cur := cfact{k: cfBot}
			for _, e := range x.Edges {
				if strip(e) == v {
					continue
				}
				// re-evaluate dependants of the phi each round
				ca.forget(e, v)
				cur = cfMeet(cur, ca.eval(fn, path, e))
			}
			if cur == ca.memo[v] {
				break
			}
			ca.memo[v] = cur
		}
		return ca.memo[v]
	case *ssa.BinOp:
		switch x.Op {
		case token.ADD:
			for _, pr := range [][2]ssa.Value{{x.X, x.Y}, {x.Y, x.X}} {
				a, b := strip(pr[0]), strip(pr[1])
				fa := ca.eval(fn, path, a)
				if fa.k == cfBot {
					// strict on ⊥: optimistic inside a loop fix-point
					if _, isC := b.(*ssa.Const); !isC || res.k == cfTop {
						res = cfact{k: cfBot}
					}
					continue
				}
				// c + Index(path[c:]) on the != -1 edge
				if base, ok := indexFrom(b, path); ok && base == a && (fa.k == cfSafe || fa.k == cfPos) {
					if ok2, _ := guardedBy(fn, notMinusOne(fn, b), isInstr(x)); ok2 {
						res = cfact{k: cfAtSlash, base: a}
					}
				}
				// AT_SLASH + 1
				if k, isC := constInt(b); isC && k == 1 && fa.k == cfAtSlash {
					res = cfact{k: cfPos}
				}
				// c + (Index(path[c:]) + 1)
				if bb, isB := b.(*ssa.BinOp); isB && bb.Op == token.ADD && (fa.k == cfSafe || fa.k == cfPos) {
					for _, q := range [][2]ssa.Value{{bb.X, bb.Y}, {bb.Y, bb.X}} {
						if base, ok := indexFrom(q[0], path); ok && base == a {
							if k, isC := constInt(q[1]); isC && k == 1 {
								if ok2, _ := guardedBy(fn, notMinusOne(fn, strip(q[0])), isInstr(x)); ok2 {
									res = cfact{k: cfPos}
								}
							}
						}
					}
				}
			}
		case token.SUB:
			if k, isC := constInt(x.Y); isC && k == 1 {
				switch ca.eval(fn, path, x.X).k {
				case cfPos:
					res = cfact{k: cfSafe}
				case cfBot:
					res = cfact{k: cfBot}
				}
			}
		}
	}
	ca.memo[v] = res
	return res
}

// forget drops memoised facts of values that depend on phi (so that the loop
// fix-point re-evaluates them).
func (ca *cursorAnalysis) forget(v ssa.Value, phi ssa.Value) {
	v = strip(v)
	if v == phi {
		return
	}
	if dependsOn(v, phi, 0) {
		delete(ca.memo, v)
		if b, ok := v.(*ssa.BinOp); ok {
			ca.forget(b.X, phi)
			ca.forget(b.Y, phi)
		}
	}
}

// inferParamFacts lowers the optimistic POS facts to what all call sites justify.
func (ca *cursorAnalysis) inferParamFacts(fns []*ssa.Function) (sites int, bad []string) {
	for round := 0; round < 8; round++ {
		changed := false
		ca.memo = map[ssa.Value]cfact{}
		sites = 0
		bad = nil
		for _, fn := range fns {
			allInstrs(fn, func(in ssa.Instruction) {
				ci, ok := in.(ssa.CallInstruction)
				if !ok {
					return
				}
				for _, cal := range ca.p.moduleCallees(ci.Common()) {
					cp := ca.pairs[cal]
					if cp == nil {
						continue
					}
					as := callArgs(ci.Common())
					sites++
					f := ca.eval(fn, as[cp.Path], as[cp.Cur])
					have := ca.fact[cal]
					if os.Getenv("FLAMECHECK_DEBUG") != "" {
						fmt.Println("round", round, ca.p.Pos(in.Pos()), ca.p.FuncKey(cal), vstr(as[cp.Cur]), f, "have", cfact{k: have})
					}
					var want cfKind
					switch f.k {
					case cfPos:
						want = cfPos
					case cfSafe, cfAtSlash:
						want = cfSafe
					case cfBot:
						want = have
					default:
						want = cfTop
					}
					if want > have {
						ca.fact[cal] = want
						changed = true
					}
					if want == cfTop {
						bad = append(bad, fmt.Sprintf("%s passes cursor %s to %s (path %s)", ca.p.Pos(in.Pos()), vstr(as[cp.Cur]), ca.p.FuncKey(cal), vstr(as[cp.Path])))
					}
				}
			})
		}
		if !changed {
			break
		}
	}
	return
}

func checkRoutingIndexSafety(c *Check) {
	p := c.P
	fns := routingFuncs(p)
	sites, err := p.IndexSites(fns)
	if err != nil {
		c.Bad("routing-path:prove-pass", "?", "cannot obtain the compiler's bounds-check listing: "+err.Error())
		return
	}
	ca := newCursorAnalysis(p, fns)
	nCall, badCalls := ca.inferParamFacts(fns)
	proven, unproven := 0, 0
	for _, s := range sites {
		if !s.Unproven {
			proven++
		} else {
			unproven++
		}
	}
	c.Extra["index_sites"] = len(sites)
	c.Extra["index_sites_compiler_proven"] = proven
	c.Extra["index_sites_needing_argument"] = unproven
	c.Extra["cursor_call_sites"] = nCall
	facts := map[string]string{}
	for fn, cp := range ca.pairs {
		facts[p.FuncKey(fn)] = fmt.Sprintf("param %s is a cursor into %s: %s", fn.Params[cp.Cur].Name(), fn.Params[cp.Path].Name(), cfact{k: ca.fact[fn]})
	}
	c.Extra["cursor_parameter_facts"] = facts
	if len(badCalls) > 0 {
		for _, b := range badCalls {
			c.Bad("routing-path:cursor-call", "?", "a cursor of unknown range is passed on: "+b)
		}
	} else {
		c.OK("routing-path:cursor-calls", "internal/route", fmt.Sprintf("%d cursor-passing call sites justify the inferred parameter facts (greatest fix-point)", nCall), nCall)
	}
	// every unproven listing entry inside a routing function must map to an SSA site
	up, _ := p.Unproven()
	mapped := map[string]bool{}
	for _, s := range sites {
		if s.Unproven {
			mapped[p.posKey(s.Instr.Pos())] = true
		}
	}
	for k := range up {
		if mapped[k] {
			continue
		}
		for _, fn := range fns {
			if syn := fn.Syntax(); syn != nil {
				a, b := p.Fset.Position(syn.Pos()), p.Fset.Position(syn.End())
				parts := strings.Split(k, ":")
				var line int
				fmt.Sscanf(parts[len(parts)-2], "%d", &line)
				rel := strings.Join(parts[:len(parts)-2], ":")
				if strings.HasSuffix(a.Filename, "/"+rel) && line >= a.Line && line <= b.Line {
					if _, isLit := syn.(*ast.FuncLit); isLit {
						continue
					}
					// could belong to a nested literal that is not in the routing set
					c.Bad(p.FuncKey(fn)+":unmapped-bounds-check", k, "the compiler lists an unproven bounds check here that the analyser could not map to an operation")
				}
			}
		}
	}
	for _, s := range sites {
		if !s.Unproven {
			continue
		}
		key := p.FuncKey(s.Fn) + ":" + s.Kind
		pos := p.Pos(s.Instr.Pos())
		how, ok := dischargeIndexSite(c, ca, s)
		if ok {
			c.OK(key+":"+how.tag, pos, how.text, 1)
		} else {
			c.Bad(key+":undischarged", pos, "index/slice operation not proven by the compiler and not covered by any argument: "+how.text)
		}
	}
}

type discharge struct{ tag, text string }

func dischargeIndexSite(c *Check, ca *cursorAnalysis, s IndexSite) (discharge, bool) {
	p := c.P
	fn := s.Fn
	switch x := s.Instr.(type) {
	case *ssa.Slice:
		// slices of the path parameter: cursor lattice
		if cp := ca.pairs[fn]; cp != nil && strip(x.X) == ssa.Value(fn.Params[cp.Path]) {
			path := x.X
			lo := cfact{k: cfSafe}
			if x.Low != nil {
				lo = ca.eval(fn, path, x.Low)
			}
			if lo.k != cfSafe && lo.k != cfPos && lo.k != cfAtSlash {
				// the start of the segment window: low = next0 - 1 - len(segment0). With the window fact
				// segment0 == path[low:next0-1], so 0 <= low <= next0-1 <= len(path); the high bound, if any, is a
				// cursor value minus one, and the cursor only grows from next0 while staying a valid cursor
				if w, isW := windowSig(fn); isW && p.windowFacts()[fn] && x.Low != nil {
					nextP, segP := vParam(fn, w.next), vParam(fn, w.seg)
					if linForm(-1, []VM{nextP}, []VM{vLen(segP)})(linOf(x.Low)) {
						if x.High == nil {
							return discharge{"segment-window", "path[next-1-len(segment):]: the segment window starts inside the path (every caller passes segment == path[next-1-len(segment):next-1])"}, true
						}
						growing := func(cv ssa.Value) bool {
							if strip(cv) == ssa.Value(fn.Params[w.next]) {
								return true
							}
							ph, isPhi := strip(cv).(*ssa.Phi)
							if !isPhi {
								return false
							}
							for _, e := range ph.Edges {
								if strip(e) == ssa.Value(fn.Params[w.next]) {
									continue
								}
								el := linOf(e)
								if el.t[ssa.Value(ph)] != 1 || el.k < 1 {
									return false
								}
							}
							return true
						}
						// high = cursor + Index(path[cursor:], "/") on the found edge: the '/' in front of the next cursor
						if hf := ca.eval(fn, path, x.High); hf.k == cfAtSlash && hf.base != nil && growing(hf.base) {
							return discharge{"segment-window", "path[next-1-len(segment):cursor+i]: window start <= next-1 <= cursor <= cursor+i < len(path)"}, true
						}
						hl := linOf(x.High)
						if hl.k == 0 && len(hl.t) == 2 {
							// cursor + Index(path[cursor:], "/") spelled as (cursor + i + 1) - 1, on the found edge
							for cv, cf := range hl.t {
								if cf != 1 || !growing(cv) {
									continue
								}
								for iv, icf := range hl.t {
									if iv == cv || icf != 1 {
										continue
									}
									hay, isIdx := indexSlash(iv)
									if !isIdx {
										continue
									}
									sub := subOf(hay)
									if sub.base == nil || strip(sub.base) != strip(path) || sub.hi != nil || !sub.lo.equal(linOf(cv)) {
										continue
									}
									found := union(edgesWhere(fn, cCmp(token.EQL, vIs(iv), vConstInt(-1)), false), edgesWhere(fn, cCmp(token.GEQ, vIs(iv), vConstInt(0)), true))
									f := ca.eval(fn, path, cv)
									if g, _ := guardedBy(fn, found, isInstr(x)); g && len(found) > 0 && (f.k == cfSafe || f.k == cfPos) {
										return discharge{"segment-window", "path[next-1-len(segment):cursor+i]: window start <= next-1 <= cursor <= cursor+i < len(path) on the found edge"}, true
									}
								}
							}
						}
						if hl.k == -1 && len(hl.t) == 1 {
							for cv, cf := range hl.t {
								if cf != 1 {
									continue
								}
								f := ca.eval(fn, path, cv)
								grows := strip(cv) == ssa.Value(fn.Params[w.next])
								if ph, isPhi := strip(cv).(*ssa.Phi); isPhi {
									// φ(next0, cursor + (index + 1)): starts at next0 and only grows
									grows = true
									for _, e := range ph.Edges {
										if strip(e) == ssa.Value(fn.Params[w.next]) {
											continue
										}
										el := linOf(e)
										if el.t[ssa.Value(ph)] != 1 || el.k < 1 {
											grows = false
										}
									}
								}
								if grows && (f.k == cfSafe || f.k == cfPos || f.k == cfAtSlash) {
									return discharge{"segment-window", "path[next-1-len(segment):cursor-1]: window start <= next-1 <= cursor-1 < len(path) (window fact of the callers, cursor " + f.String() + ")"}, true
								}
							}
						}
					}
				}
				return discharge{"cursor", fmt.Sprintf("low bound %s of path slice has fact %s; need 0 <= low <= len(path)", vstr(x.Low), lo)}, false
			}
			if x.High == nil {
				return discharge{"cursor", fmt.Sprintf("path[%s:] with low %s", vstr(x.Low), lo)}, true
			}
			hi := ca.eval(fn, path, x.High)
			if hi.k == cfAtSlash && hi.base == strip(x.Low) {
				return discharge{"cursor", fmt.Sprintf("path[c:c+i]: c %s, c+i %s from the same strings.Index on the != -1 edge", lo, hi)}, true
			}
			return discharge{"cursor", fmt.Sprintf("high bound %s has fact %s; need low <= high <= len(path) from the same strings.Index", vstr(x.High), hi)}, false
		}
		// s[:i], s[i:], s[i+1:] with i the result of a strings.Index* search in the same s, on the found edge
		if how, ok := dischargeSearchSlice(fn, x); ok {
			return how, true
		}
		// s[:n], s[n:] under a guard len(s) >= n with n a length or a non-negative constant
		if how, ok := dischargeLenGuardedSlice(fn, x); ok {
			return how, true
		}
		// segment.String()[1:]
		if cl := asCall(x.X); cl != nil && callName(&cl.Call) == "(*route.Segment).String" && x.High == nil {
			if k, ok := constInt(x.Low); ok && k == 1 {
				if segmentStringStartsWithSlash(p) {
					return discharge{"printer-leading-slash", "Segment.String()[1:]: the printer's first write is the constant \"/\", so len >= 1"}, true
				}
				return discharge{"printer-leading-slash", "Segment.String() is not known to start with a constant byte"}, false
			}
		}
	case *ssa.IndexAddr:
		// t.list[len(t.list)-1] under the node's verified predicate hasMatchAllX(t) (true ⇒ len > 0)
		for nm, field := range hasMatchAllList {
			if root, ok := lastElemAddrOwner(x, field); ok {
				g := union(p.lemmaEdges(fn, vIs(root), nm, true), edgesWhere(fn, cCmp(token.GTR, vLen(vField(vIs(root), field)), vConstInt(0)), true))
				if len(g) > 0 {
					if ok2, _ := guardedBy(fn, g, isInstr(x)); ok2 {
						return discharge{"last-of-non-empty", field + "[len-1] is read only where " + nm + "() held (its definition is verified: true ⇒ len > 0) or len > 0 was tested"}, true
					}
				}
			}
		}
		// x[i] inside `for i := 0; i < len(x); i++` where x is the same field path read again
		if how, ok := dischargeLoopBoundedIndex(fn, x); ok {
			return how, true
		}
		// regex matchers: groups[i] and submatches[group]
		if how, ok := dischargeRegexIndex(c, fn, x); ok {
			return how, true
		} else if how.tag != "" {
			return how, false
		}
	}
	return discharge{"", "no rule applies to " + vstr(s.Instr.(ssa.Value))}, false
}

// segmentStringStartsWithSlash: in the literal run by Segment.String's Once,
// the first write to the buffer is the constant "/" and str = buf.String().
func segmentStringStartsWithSlash(p *Prog) bool {
	if segmentStringStartsWithSlashShape(p) {
		return true
	}
	return segmentPrinterStartsWith(p, '/')
}

// segmentPrinterStartsWith decides the question on the printer's output language (the translation of
// Segment.String used for C06.R4): every string it can produce is non-empty and starts with b.
func segmentPrinterStartsWith(p *Prog, b byte) bool {
	lt, err := extractLexer(p)
	if err != nil {
		return false
	}
	tg, err := extractTagGrammar(p)
	if err != nil {
		return false
	}
	blocks, err := readmeBlocks(p)
	if err != nil {
		return false
	}
	var spec *bnf
	for _, bl := range blocks {
		if strings.Contains(bl, "::=") {
			spec, _ = parseBNF(bl)
		}
	}
	if spec == nil {
		return false
	}
	bc := buildByteClasses(lt, tg, spec)
	pk := p.Pkgs["route"]
	if pk == nil {
		return false
	}
	var segFn *ast.FuncDecl
	for _, f := range pk.Syntax {
		for _, d := range f.Decls {
			if fd, ok := d.(*ast.FuncDecl); ok && fd.Recv != nil && fd.Name.Name == "String" && recvTypeName(fd) == "Segment" {
				segFn = fd
			}
		}
	}
	if segFn == nil {
		return false
	}
	tokSet := func(tokType string) (Re, error) {
		for _, st := range lt.Order {
			for _, r := range lt.States[st] {
				if r.Name == tokType && r.plus {
					return rePlus{bc.setOf(r.set)}, nil
				}
			}
		}
		return nil, fmt.Errorf("token type %s has no class+ rule", tokType)
	}
	pe := &printerExtractor{p: p, tg: tg, bc: bc, tokSet: tokSet}
	segRe, err := pe.funcBody(segFn, nil)
	if err != nil {
		return false
	}
	m := newNFAMachine(compileRe(segRe))
	start := m.startKey()
	if m.accepting(start) {
		return false // the empty string can be printed
	}
	// the class of b must hold b alone, and be the only class with a live successor
	for x := 0; x < 256; x++ {
		if x != int(b) && bc.classOf[x] == bc.classOf[b] {
			return false
		}
	}
	for cls := 0; cls < bc.n; cls++ {
		if cls != bc.classOf[b] && m.step(start, cls) != "" {
			return false
		}
	}
	return m.step(start, bc.classOf[b]) != ""
}

func segmentStringStartsWithSlashShape(p *Prog) bool {
	m := p.Meth("route", "Segment", "String")
	if m == nil {
		return false
	}
	// the function (String itself or a literal below it) that writes the text
	var fns []*ssa.Function
	var walk func(f *ssa.Function)
	walk = func(f *ssa.Function) {
		fns = append(fns, f)
		for _, a := range f.AnonFuncs {
			walk(a)
		}
	}
	walk(m)
	isWrite := func(n string) bool {
		return strings.HasPrefix(n, "(*bytes.Buffer).Write") || strings.HasPrefix(n, "(*strings.Builder).Write")
	}
	for _, f := range fns {
		var first ssa.CallInstruction
		if len(f.Blocks) == 0 {
			continue
		}
		for _, in := range f.Blocks[0].Instrs {
			if ci, ok := in.(ssa.CallInstruction); ok && isWrite(callName(ci.Common())) {
				first = ci
				break
			}
		}
		if first == nil {
			// writes elsewhere in this function but not in its entry block: unknown first byte
			has := false
			allInstrs(f, func(in ssa.Instruction) {
				if ci, ok := in.(ssa.CallInstruction); ok && isWrite(callName(ci.Common())) {
					has = true
				}
			})
			if has {
				return false
			}
			continue
		}
		n := callName(first.Common())
		arg := first.Common().Args[1]
		slash := (strings.HasSuffix(n, ".WriteString") && vConstStr("/")(arg)) || ((strings.HasSuffix(n, ".WriteByte") || strings.HasSuffix(n, ".WriteRune")) && vConstInt('/')(arg))
		if !slash {
			return false
		}
		buf := first.Common().Args[0]
		text := vOr(vCall("(*bytes.Buffer).String", vIs(buf)), vCall("(*strings.Builder).String", vIs(buf)))
		okSink := false
		allInstrs(f, func(in ssa.Instruction) {
			switch x := in.(type) {
			case *ssa.Store:
				if fv := fieldOf(strip(x.Addr)); fv != nil && text(x.Val) {
					okSink = true
				}
			case *ssa.Return:
				if len(x.Results) == 1 && text(x.Results[0]) {
					okSink = true
				}
			}
		})
		// the first write instruction in the entry block dominates all others
		return okSink
	}
	return false
}

// dischargeRegexIndex handles the two index operations of the regex matchers.
func dischargeRegexIndex(c *Check, fn *ssa.Function, x *ssa.IndexAddr) (discharge, bool) {
	p := c.P
	recv := vParam(fn, 0)
	if fn.Signature.Recv() == nil {
		return discharge{}, false
	}
	tn := namedName(derefT(fn.Signature.Recv().Type()))
	if tn != "regexTree" && tn != "regexLeaf" {
		return discharge{}, false
	}
	binds := vField(recv, "binds")
	groups := vField(recv, "groups")
	sub := vCall("(*regexp.Regexp).FindStringSubmatch", vField(recv, "regexp"))
	rangeIdx := func(v ssa.Value) bool { return ascendingIndex(v) }
	inv := regexConstructorInvariant(p)
	switch {
	case groups(x.X):
		// groups[i], i ranging over binds, under groups != nil
		g := edgesWhere(fn, cCmp(token.NEQ, groups, vNil), true)
		ok, _ := guardedBy(fn, g, isInstr(x))
		if rangeIdx(x.Index) && ok && len(g) > 0 && inv == "" {
			return discharge{"regex-table", "groups[i]: i ranges over binds; the constructor appends to binds and groups in lockstep (len equal when non-nil)"}, true
		}
		if rangeIdx(x.Index) && inv == "" && regexTableAlwaysKept(p) {
			return discharge{"regex-table", "groups[i]: i ranges over binds; the constructor appends to binds and groups in lockstep and never drops the table (len equal)"}, true
		}
		return discharge{"regex-table", "groups[i] not justified: " + inv}, false
	case sub(x.X):
		// submatches[group], group = φ(i+1, groups[i]) under submatches != nil
		g := union(edgesWhere(fn, cCmp(token.EQL, sub, vNil), false), edgesWhere(fn, cCmp(token.GTR, vLen(sub), vConstInt(0)), true))
		ok, _ := guardedBy(fn, g, isInstr(x))
		okIdx := true
		phiLeaves(x.Index, func(l ssa.Value) {
			if b, isB := l.(*ssa.BinOp); isB && b.Op == token.ADD && vConstInt(1)(b.Y) && rangeIdx(b.X) {
				return
			}
			if _, isI := elemIndex(l, groups); isI {
				return
			}
			okIdx = false
		})
		if ok && len(g) > 0 && okIdx && inv == "" {
			return discharge{"regex-table", "submatches[g], g ∈ {i+1, groups[i]}: non-nil sub-matches have NumSubexp()+1 entries and the constructor rejects patterns whose group count differs from its own table"}, true
		}
		return discharge{"regex-table", "submatches index not justified (guard " + fmt.Sprint(ok) + ", index form " + fmt.Sprint(okIdx) + ") " + inv}, false
	case binds(x.X):
		return discharge{"range", "range over binds"}, true
	}
	return discharge{}, false
}

// regexConstructorInvariant checks the constructor side of the sub-match
// table argument; returns "" when it holds, else what is missing.
func regexConstructorInvariant(p *Prog) string {
	fn := p.Fn("route", "constructMatchStyleRegex")
	if fn == nil {
		return "constructMatchStyleRegex not found"
	}
	// lockstep appends: per block, #append(binds) == #append(groups)
	type cnt struct{ b, g int }
	per := map[*ssa.BasicBlock]*cnt{}
	elemIs := func(v ssa.Value, t func(types.Type) bool) bool {
		s, ok := v.Type().Underlying().(*types.Slice)
		return ok && t(s.Elem())
	}
	total := cnt{}
	allInstrs(fn, func(in ssa.Instruction) {
		cl, ok := in.(*ssa.Call)
		if !ok || callName(&cl.Call) != "builtin.append" {
			return
		}
		if per[in.Block()] == nil {
			per[in.Block()] = &cnt{}
		}
		if elemIs(cl, isStringT) {
			per[in.Block()].b++
			total.b++
		} else if elemIs(cl, isIntT) {
			per[in.Block()].g++
			total.g++
		}
	})
	if total.b == 0 || total.g == 0 {
		return "constructor does not build both binds and groups"
	}
	for _, c := range per {
		if c.b != c.g {
			return "binds and groups are not appended in lockstep"
		}
	}
	// NumSubexp check: an error return is forced when NumSubexp() != nextGroup-1
	hasCheck := false
	for _, b := range fn.Blocks {
		if ifi, ok := b.Instrs[len(b.Instrs)-1].(*ssa.If); ok {
			inner, _ := unNot(ifi.Cond)
			if bo, ok := inner.(*ssa.BinOp); ok && (bo.Op == token.NEQ || bo.Op == token.EQL) {
				// NumSubexp() compared with the group count, in any arrangement of the ±1
				d := linOf(bo.X).plus(linOf(bo.Y), -1)
				for v := range d.t {
					if vCall("(*regexp.Regexp).NumSubexp")(v) {
						hasCheck = true
					}
				}
			}
		}
	}
	if !hasCheck {
		return "constructor does not compare the compiled pattern's NumSubexp() with its own group count"
	}
	// the table may be dropped (groups = nil ⇒ positional pairing) only if NO expression has groups of its own:
	// the deciding flag is set — and never cleared again — where some index deviates from position+1 or some
	// expression's NumSubexp() is positive
	why := ""
	allInstrs(fn, func(in ssa.Instruction) {
		r, ok := in.(*ssa.Return)
		if !ok || len(r.Results) < 3 || why != "" {
			return
		}
		var gi int = -1
		for i, res := range r.Results {
			if s, isS := res.Type().Underlying().(*types.Slice); isS && isIntT(s.Elem()) {
				gi = i
			}
		}
		if gi < 0 {
			return
		}
		ph, isPhi := strip(r.Results[gi]).(*ssa.Phi)
		if !isPhi {
			if vNil(r.Results[gi]) {
				return // an error return
			}
			return // the table is always kept: fine
		}
		nilEdge := -1
		for i, e := range ph.Edges {
			if vNil(e) {
				nilEdge = i
			}
		}
		if nilEdge < 0 {
			return
		}
		// the condition that selects the nil edge
		var cond ssa.Value
		var takenWhen bool
		pred := ph.Block().Preds[nilEdge]
		for b := pred; b != nil; b = b.Idom() {
			if iff, isIf := b.Instrs[len(b.Instrs)-1].(*ssa.If); isIf && len(b.Succs) == 2 {
				t0, t1 := b.Succs[0], b.Succs[1]
				reach := func(from *ssa.BasicBlock) bool { return from == pred || from.Dominates(pred) }
				if reach(t0) != reach(t1) {
					cond, takenWhen = iff.Cond, reach(t0)
					break
				}
			}
			if b == fn.Blocks[0] {
				break
			}
		}
		if cond == nil {
			why = "the condition under which the group table is dropped was not found"
			return
		}
		inner, pos := unNot(cond)
		dropWhenFlagFalse := (pos && !takenWhen) || (!pos && takenWhen)
		flag, isFlag := inner.(*ssa.Phi)
		if !isFlag || !dropWhenFlagFalse {
			// e.g. nextGroup-1 == len(binds): the same fact as a count
			if b, isB := inner.(*ssa.BinOp); isB && (b.Op == token.EQL || b.Op == token.NEQ) {
				d := linOf(b.X).plus(linOf(b.Y), -1)
				hasLen := false
				for v := range d.t {
					if vCall("builtin.len", vAny)(v) {
						hasLen = true
					}
				}
				if hasLen {
					return
				}
			}
			why = "the group table is dropped on a condition that is not an accumulated `some expression has groups of its own` flag"
			return
		}
		// monotone: every value the flag can take is a constant, or the short-circuit form φ(true, cond)
		deviates := func(v ssa.Value) bool {
			b, isB := strip(v).(*ssa.BinOp)
			if !isB {
				return false
			}
			for _, side := range []ssa.Value{b.X, b.Y} {
				if vCall("(*regexp.Regexp).NumSubexp")(side) {
					return true
				}
			}
			return b.Op == token.NEQ || b.Op == token.GTR || b.Op == token.LSS
		}
		seen := map[*ssa.Phi]bool{}
		var mono func(p2 *ssa.Phi) bool
		mono = func(p2 *ssa.Phi) bool {
			if seen[p2] {
				return true
			}
			seen[p2] = true
			for i, e := range p2.Edges {
				e = strip(e)
				switch x := e.(type) {
				case *ssa.Const:
				case *ssa.Phi:
					if !mono(x) {
						return false
					}
				default:
					// flag = flag || cond: the other edge is the constant true, taken where the flag already held
					okOr := false
					if len(p2.Edges) == 2 && deviates(e) {
						o := strip(p2.Edges[1-i])
						if vConstBool(true)(o) {
							okOr = true
						}
					}
					if !okOr {
						return false
					}
				}
			}
			return true
		}
		if !mono(flag) {
			why = "the flag that decides whether the group table is dropped is overwritten per expression instead of accumulated: an expression with groups of its own followed by one without drops the table, and later binds take the wrong sub-match"
		}
	})
	return why
}

func checkRoutingAssertions(c *Check) {
	p := c.P
	kAll, _ := p.constVal("route", "matchStyleAll")
	fns := routingFuncs(p)
	nTA := 0
	for _, fn := range fns {
		allInstrs(fn, func(in ssa.Instruction) {
			switch x := in.(type) {
			case *ssa.TypeAssert:
				if x.CommaOk {
					return
				}
				nTA++
				key := p.FuncKey(fn) + ":assert:" + shortName(x.AssertedType.String())
				tn := namedName(derefT(x.AssertedType))
				if tn == "matchAllTree" || tn == "matchAllLeaf" {
					meth := "(route.Tree).getMatchStyle"
					if tn == "matchAllLeaf" {
						meth = "(route.Leaf).getMatchStyle"
					}
					g := edgesWhere(fn, cCmp(token.EQL, vCall(meth, vIs(x.X)), vConstInt(kAll)), true)
					// or the node's verified predicate on the owner of the list whose last element is asserted
					for nm, field := range hasMatchAllList {
						if (nm == "hasMatchAllLeaf") != (tn == "matchAllLeaf") {
							continue
						}
						if root, ok := lastElemOwner(x.X, field); ok {
							g = union(g, p.lemmaEdges(fn, vIs(root), nm, true))
						}
					}
					ok, path := guardedBy(fn, g, isInstr(in))
					if ok && len(g) > 0 {
						c.OK(key, p.Pos(x.Pos()), "assertion to "+tn+" guarded by getMatchStyle() == all on the same value", numInstrs(fn))
					} else {
						c.Bad(key, p.Pos(x.Pos()), "unchecked type assertion to "+tn+" is not guarded by the style test on the same value: a request can panic the router", path)
					}
				} else {
					c.Bad(key, p.Pos(x.Pos()), "unchecked type assertion in the routing path")
				}
			case *ssa.Panic:
				key := p.FuncKey(fn) + ":explicit-panic"
				// allowed: baseTree.match, provided no *baseTree ever enters a subtrees list
				if fn.Name() == "match" && namedName(derefT(fn.Signature.Recv().Type())) == "baseTree" {
					if why := baseTreeNeverSibling(p); why == "" {
						c.OK(key, p.Pos(x.Pos()), "unreachable: match is invoked only on elements of subtrees, and the only producer of siblings (the node constructor) never returns a *baseTree", 1)
					} else {
						c.Bad(key, p.Pos(x.Pos()), "baseTree.match panics and "+why)
					}
				} else {
					c.Bad(key, p.Pos(x.Pos()), "explicit panic in the routing path")
				}
			case *ssa.MapUpdate:
				// params map writes: the map value must not be a nil constant
				if vNil(x.Map) {
					c.Bad(p.FuncKey(fn)+":nil-map-write", p.Pos(x.Pos()), "write to a nil map")
				}
			}
		})
	}
	// exactly one Tree / Leaf type reports style all
	for _, ifn := range []string{"Tree", "Leaf"} {
		n := p.Named("route", ifn)
		if n == nil {
			continue
		}
		var who []string
		for _, f := range p.Implementations(n.Underlying().(*types.Interface), "getMatchStyle") {
			allInstrs(f, func(in ssa.Instruction) {
				if r, ok := in.(*ssa.Return); ok && vConstInt(kAll)(r.Results[0]) {
					who = append(who, namedName(derefT(f.Signature.Recv().Type())))
				}
			})
		}
		want := "matchAll" + ifn
		c.Cond(len(who) == 1 && who[0] == want, "route."+ifn+":style-all-unique", "internal/route", "only "+want+" reports style all", fmt.Sprintf("types reporting style all: %v; the assertion to %s can fail", who, want))
	}
	// params map is made in Match
	if m := p.Meth("route", "baseTree", "Match"); m != nil {
		ok := false
		for _, ci := range callsIn(m, func(n string, cm *ssa.CallCommon) bool { return strings.HasSuffix(n, ".matchNextSegment") }) {
			as := callArgs(ci.Common())
			if _, isMM := strip(as[3]).(*ssa.MakeMap); isMM {
				ok = true
			}
		}
		c.Cond(ok, p.FuncKey(m)+":params-made", p.FuncPos(m), "params is a map made per call", "the params map handed to the matcher is not a freshly made map (nil map write or shared state)")
	}
}

// baseTreeNeverSibling: stores into sibling lists come from newTree, which
// never allocates a baseTree.
func baseTreeNeverSibling(p *Prog) string {
	nt := p.Fn("route", "newTree")
	if nt == nil {
		return "newTree not found"
	}
	bad := ""
	allInstrs(nt, func(in ssa.Instruction) {
		if r, ok := in.(*ssa.Return); ok && len(r.Results) > 0 {
			phiLeaves(r.Results[0], func(l ssa.Value) {
				if al, ok := l.(*ssa.Alloc); ok && namedName(derefT(al.Type())) == "baseTree" {
					bad = "newTree can return a *baseTree"
				}
			})
		}
	})
	if bad != "" {
		return bad
	}
	// setSubtrees callers insert only newTree results (checked by C01.R2 form) — here: every value
	// appended as a subtree in the route package traces to newTree
	for _, fn := range p.Funcs() {
		if fn.Pkg != p.SSA["route"] {
			continue
		}
		for _, s := range callsNamed(fn, "(route.Tree).setSubtrees") {
			okAll := true
			phiLeaves(s.Common().Args[0], func(l ssa.Value) {
				a := asCall(l)
				if a == nil || callName(&a.Call) != "builtin.append" {
					okAll = false
				}
			})
			if !okAll {
				return "a sibling list is stored that is not an append of constructor results"
			}
		}
	}
	return ""
}

func debugCursor(p *Prog) {
	fns := routingFuncs(p)
	ca := newCursorAnalysis(p, fns)
	for fn, cp := range ca.pairs {
		fmt.Println("pair", p.FuncKey(fn), cp.Path, cp.Cur)
	}
	n, bad := ca.inferParamFacts(fns)
	fmt.Println(n, bad)
	for fn := range ca.pairs {
		fmt.Println("fact", p.FuncKey(fn), cfact{k: ca.fact[fn]})
	}
}

func debugCursor2(p *Prog) {
	fns := routingFuncs(p)
	ca := newCursorAnalysis(p, fns)
	fn := p.Meth("route", "baseTree", "matchNextSegment")
	allInstrs(fn, func(in ssa.Instruction) {
		if b, ok := in.(*ssa.BinOp); ok {
			fmt.Println(b.Name(), vstr(b), ca.eval(fn, fn.Params[1], b))
		}
	})
}

// orderDependentMapLoops reports range-over-map loops of fn that write state
// in their body and can be left before the iterator is exhausted.
func orderDependentMapLoops(fn *ssa.Function) []string {
	var out []string
	allInstrs(fn, func(in ssa.Instruction) {
		next, ok := in.(*ssa.Next)
		if !ok || next.IsString {
			return
		}
		rg, ok := next.Iter.(*ssa.Range)
		if !ok {
			return
		}
		if _, isMap := rg.X.Type().Underlying().(*types.Map); !isMap {
			return
		}
		exh := edgesWhere(fn, cBool(vExtract(0, vIs(next))), false)
		more := edgesWhere(fn, cBool(vExtract(0, vIs(next))), true)
		// effects in the body: reachable from the "more" edge without passing next again
		effect := func(x ssa.Instruction) bool {
			switch y := x.(type) {
			case *ssa.MapUpdate, *ssa.Store:
				return true
			case ssa.CallInstruction:
				return callName(y.Common()) == "builtin.delete"
			}
			return false
		}
		// re-keying: entries copied into another map under a key computed from the range key (canonicalised,
		// trimmed, lower-cased): two entries can collide, and which one survives depends on the iteration order
		rk := vExtract(1, vIs(next))
		for e := range more {
			(Query{Fn: fn, Avoid: isInstr(next)}).Reach(e.B.Succs[e.S], 0, func(x ssa.Instruction) bool {
				mu, isMU := x.(*ssa.MapUpdate)
				if !isMU || strip(mu.Map) == strip(rg.X) {
					return false
				}
				if rk(mu.Key) || !derivesFrom(mu.Key, rk, nil) {
					return false
				}
				if _, isC := strip(mu.Value).(*ssa.Const); isC {
					return false
				}
				out = append(out, "entries of a map are copied into another map under a key computed from the original key ("+vstr(mu.Key)+"): two entries whose computed keys collide overwrite each other in map iteration order, so identically configured applications decide differently")
				return false
			})
		}
		hasEffect := false
		for e := range more {
			if x, _ := (Query{Fn: fn, Avoid: isInstr(next)}).Reach(e.B.Succs[e.S], 0, effect); x != nil {
				hasEffect = true
			}
		}
		if !hasEffect {
			return
		}
		// can the loop be left other than through exhaustion? from the body, reach a return or any
		// block after the loop without taking the exhausted edge and without re-entering next
		for e := range more {
			x, _ := (Query{Fn: fn, Cut: exh, Avoid: isInstr(next)}).Reach(e.B.Succs[e.S], 0, func(x ssa.Instruction) bool {
				if isReturn(x) {
					return true
				}
				// an instruction that is only reachable after the loop: in a block the exhausted edge leads to
				for ee := range exh {
					if x.Block() == ee.B.Succs[ee.S] {
						return true
					}
				}
				return false
			})
			if x != nil {
				out = append(out, "a range over a map that stores results in its body can be left early ("+blockPath([]*ssa.BasicBlock{x.Block()})+"): since map iteration order is random, repeating the same request gives different outcomes")
			}
		}
	})
	return out
}

// dischargeSearchSlice: a slice of s bounded by i (or i+1) where i is the result of
// strings.Index*(s, …) on the edge where something was found: 0 <= i < len(s).
func dischargeSearchSlice(fn *ssa.Function, x *ssa.Slice) (discharge, bool) {
	if x.Max != nil {
		return discharge{}, false
	}
	var idx ssa.Value
	okBound := func(b ssa.Value, allowPlusOne bool) bool {
		if b == nil {
			return true
		}
		l := linOf(b)
		if len(l.t) != 1 || (l.k != 0 && !(allowPlusOne && l.k == 1)) {
			return false
		}
		for v, c := range l.t {
			if c != 1 || !isSearchResult(v) {
				return false
			}
			cl := asCall(v)
			if strip(cl.Call.Args[0]) != strip(x.X) {
				return false
			}
			if idx != nil && idx != v {
				return false
			}
			idx = v
		}
		return true
	}
	if (x.Low == nil && x.High == nil) || !okBound(x.Low, true) || !okBound(x.High, true) || idx == nil {
		return discharge{}, false
	}
	if x.Low != nil && x.High != nil {
		return discharge{}, false
	}
	g := notMinusOne(fn, idx)
	if ok, _ := guardedBy(fn, g, isInstr(x)); !ok || len(g) == 0 {
		return discharge{}, false
	}
	return discharge{"search-result", "slice of s at the offset strings.Index*(s, …) returned, only on the edge where the offset is >= 0 (so it is < len(s))"}, true
}

// dischargeLenGuardedSlice: s[:n] or s[n:] reachable only when len(s) >= n, n a length or constant >= 0.
func dischargeLenGuardedSlice(fn *ssa.Function, x *ssa.Slice) (discharge, bool) {
	if x.Max != nil || (x.Low != nil) == (x.High != nil) {
		return discharge{}, false
	}
	n := x.Low
	if n == nil {
		n = x.High
	}
	nonneg := vLen(vAny)(n)
	if k, ok := constInt(n); ok && k >= 0 {
		nonneg = true
	}
	if !nonneg {
		return discharge{}, false
	}
	ln := linOf(n)
	short := cLinLess(func(d lin) bool {
		// len(s) − n < 0
		want := lin{t: map[ssa.Value]int64{}}
		var lenV ssa.Value
		for v, c := range d.t {
			if c == 1 && vLen(vIs(x.X))(v) {
				lenV = v
			}
		}
		_ = canonAtom
		if lenV == nil {
			return false
		}
		want.t[lenV] = 1
		return d.equal(want.plus(ln, -1))
	})
	g := edgesWhere(fn, short, false)
	if ok, _ := guardedBy(fn, g, isInstr(x)); !ok || len(g) == 0 {
		return discharge{}, false
	}
	return discharge{"length-guard", "slice at n only on the edge where len(s) >= n, n non-negative"}, true
}

// dischargeLoopBoundedIndex: x[i] with i = 0,1,2,… reachable only on the edge i < len(x'),
// where x' is x itself or the same field path read again and nothing in the function stores
// to a field of that name.
func dischargeLoopBoundedIndex(fn *ssa.Function, x *ssa.IndexAddr) (discharge, bool) {
	if !ascendingIndex(x.Index) {
		return discharge{}, false
	}
	if _, isSlice := x.X.Type().Underlying().(*types.Slice); !isSlice {
		return discharge{}, false
	}
	same := func(v ssa.Value) bool {
		if strip(v) == strip(x.X) {
			return true
		}
		r1, n1, ok1 := fieldPath(v)
		r2, n2, ok2 := fieldPath(x.X)
		if !ok1 || !ok2 || len(n1) != len(n2) {
			return false
		}
		for i := range n1 {
			if n1[i] != n2[i] {
				return false
			}
		}
		// the roots must be the same value (or loads of the same cell)
		if strip(r1) != strip(r2) {
			c1, c2 := cellOf(r1), cellOf(r2)
			if c1 == nil || c1 != c2 {
				return false
			}
		}
		// no store to a field of that name anywhere in the function
		last := n2[len(n2)-1]
		stored := false
		allInstrs(fn, func(in ssa.Instruction) {
			if st, ok := in.(*ssa.Store); ok {
				if f := fieldOf(strip(st.Addr)); f != nil && f.Name() == last {
					stored = true
				}
			}
		})
		return !stored
	}
	g := edgesWhere(fn, cCmp(token.LSS, vIs(x.Index), vLen(same)), true)
	if ok, _ := guardedBy(fn, g, isInstr(x)); !ok || len(g) == 0 {
		return discharge{}, false
	}
	return discharge{"loop-bound", "x[i] with i = 0,1,… only on the edge i < len(x)"}, true
}

// nilSensitiveUses lists the instructions that panic when v is nil: dereference, field or
// element address, call through it, invoke on it, and sync/atomic operations on it.
func nilSensitiveUses(v ssa.Value) []ssa.Instruction {
	var out []ssa.Instruction
	seen := map[ssa.Value]bool{}
	var walk func(x ssa.Value)
	walk = func(x ssa.Value) {
		if seen[x] {
			return
		}
		seen[x] = true
		for _, r := range referrers(x) {
			switch u := r.(type) {
			case *ssa.ChangeType:
				walk(u)
			case *ssa.UnOp:
				if u.Op == token.MUL && u.X == x {
					out = append(out, u)
				}
			case *ssa.FieldAddr:
				if u.X == x {
					out = append(out, u)
				}
			case *ssa.IndexAddr:
				if u.X == x {
					out = append(out, u)
				}
			case *ssa.Store:
				if u.Addr == x {
					out = append(out, u)
				}
			case ssa.CallInstruction:
				cm := u.Common()
				if cm.Value == x {
					out = append(out, u)
					continue
				}
				if strings.HasPrefix(callName(cm), "sync/atomic.") && len(cm.Args) > 0 && cm.Args[0] == x {
					out = append(out, u)
				}
			}
		}
	}
	walk(v)
	return out
}

// sameValue: the same SSA value, or two loads of the same field path from the same root.
func sameValue(a, b ssa.Value) bool {
	a, b = strip(a), strip(b)
	if a == b {
		return true
	}
	ra, na, ok1 := fieldPath(a)
	rb, nb, ok2 := fieldPath(b)
	if !ok1 || !ok2 || ra != rb || len(na) != len(nb) {
		return false
	}
	for i := range na {
		if na[i] != nb[i] {
			return false
		}
	}
	return true
}

// coPopulated: every block of the module that adds an entry to the map in field a adds one under
// the same key to the map in field b (the two tables have the same key set).
func coPopulated(p *Prog, a, b *types.Var) bool {
	n := 0
	ok := true
	for _, fn := range p.Funcs() {
		allInstrs(fn, func(in ssa.Instruction) {
			mu, isMU := in.(*ssa.MapUpdate)
			if !isMU || fieldOf(addrOfLoad(strip(mu.Map))) != b {
				return
			}
			n++
			found := false
			for _, o := range mu.Block().Instrs {
				if mu2, isMU2 := o.(*ssa.MapUpdate); isMU2 && fieldOf(addrOfLoad(strip(mu2.Map))) == a && sameValue(mu2.Key, mu.Key) {
					found = true
				}
			}
			if !found {
				ok = false
			}
		})
	}
	return ok && n > 0
}

// lastElemAddrOwner: ia is &root.field[len(root.field)-1]; returns root.
func lastElemAddrOwner(ia *ssa.IndexAddr, field string) (ssa.Value, bool) {
	root, names, ok := fieldPath(ia.X)
	if !ok || len(names) == 0 || names[len(names)-1] != field {
		return nil, false
	}
	names = names[:len(names)-1]
	if len(names) != 0 {
		// embedded baseTree: t.baseTree.leaves read through the outer node is still the node's list
		for _, n := range names {
			if n != "baseTree" {
				return nil, false
			}
		}
	}
	list := vField(vIs(root), field)
	if !vBin(token.SUB, vLen(list), vConstInt(1))(ia.Index) {
		return nil, false
	}
	return root, true
}

// lastElemOwner: v is the value root.field[len(root.field)-1].
func lastElemOwner(v ssa.Value, field string) (ssa.Value, bool) {
	u, ok := strip(v).(*ssa.UnOp)
	if !ok || u.Op != token.MUL {
		return nil, false
	}
	ia, ok := u.X.(*ssa.IndexAddr)
	if !ok {
		return nil, false
	}
	return lastElemAddrOwner(ia, field)
}


// regexTableAlwaysKept: no successful return of the regex constructor hands out a nil group table (then
// len(groups) == len(binds) holds unconditionally, given the lockstep appends).
func regexTableAlwaysKept(p *Prog) bool {
	fn := p.Fn("route", "constructMatchStyleRegex")
	if fn == nil {
		return false
	}
	ok, n := true, 0
	seen := map[ssa.Value]bool{}
	var nonNil func(v ssa.Value, d int) bool
	nonNil = func(v ssa.Value, d int) bool {
		v = strip(v)
		if vNil(v) {
			return false
		}
		if ph, isPhi := v.(*ssa.Phi); isPhi {
			if seen[ph] {
				return true
			}
			seen[ph] = true
			for _, e := range ph.Edges {
				if !nonNil(e, d+1) {
					return false
				}
			}
		}
		return true
	}
	allInstrs(fn, func(in ssa.Instruction) {
		r, isR := in.(*ssa.Return)
		if !isR || len(r.Results) < 3 {
			return
		}
		// an error return: the last result is not the nil error
		if last := r.Results[len(r.Results)-1]; !vNil(last) {
			return
		}
		for _, res := range r.Results {
			if s, isS := res.Type().Underlying().(*types.Slice); isS && isIntT(s.Elem()) {
				n++
				if !nonNil(res, 0) {
					ok = false
				}
			}
		}
	})
	return ok && n > 0
}
