package main

// C15 Recovery contains every panic and leaves the application serving.

import (
	"fmt"
	"go/constant"
	"go/token"
	"go/types"
	"strings"

	"golang.org/x/tools/go/ssa"
)

func init() { register("C15", checkC15) }

// bannedCalls lists call sites in fns whose callee name has one of the prefixes.
func bannedCalls(p *Prog, fns []*ssa.Function, prefixes []string) []ssa.CallInstruction {
	var out []ssa.CallInstruction
	for _, fn := range fns {
		allInstrs(fn, func(in ssa.Instruction) {
			if ci, ok := in.(ssa.CallInstruction); ok {
				n := callName(ci.Common())
				for _, pre := range prefixes {
					if strings.HasPrefix(n, pre) {
						out = append(out, ci)
					}
				}
			}
		})
	}
	return out
}

func (p *Prog) stringConst(pkg, name string) (string, bool) {
	pk := p.Pkgs[pkg]
	if pk == nil {
		return "", false
	}
	c, ok := pk.Types.Scope().Lookup(name).(*types.Const)
	if !ok || c.Val().Kind() != constant.String {
		return "", false
	}
	return constant.StringVal(c.Val()), true
}

func checkC15(c *Check) {
	p := c.P
	c.Explain = "defer/recover structure of the Recovery handler, guard-cut of the 500 response on the recovered edge, edge-sensitive taint from recover()/stack to response sinks guarded by Env() == development, injection failure as a panic inside the chain, and a process-exit ban over the request phase"
	c.NotDec = []string{
		"panics raised inside Recovery's own deferred code by third-party logger formatting",
		"http.ErrAbortHandler policy",
		"that outer middleware unwinds normally (follows from recover() stopping the panic at Recovery's frame)",
	}
	c.Trusted = []string{"Go defer/recover semantics: a deferred function that calls recover() directly stops the panic"}

	rec := p.Fn("flamego", "Recovery")
	if rec == nil {
		c.Rule("R1", "E2", "anchors", 1)
		c.Anchor("flamego.Recovery")
		return
	}
	// H: the literal that calls Context.Next
	var H *ssa.Function
	var nextCall ssa.CallInstruction
	for _, l := range withLits(rec)[1:] {
		for _, ci := range callsNamed(l, "(flamego.Context).Next") {
			if l.Parent() == rec {
				H, nextCall = l, ci
			}
		}
	}
	c.Rule("R1", "E2 order", "the handler defers a literal that calls recover() directly, before calling Next(); the deferred literal never re-panics", 3)
	if H == nil {
		c.Bad(p.FuncKey(rec)+":handler", p.FuncPos(rec), "Recovery's handler does not call Next(): the rest of the chain does not run inside it")
		return
	}
	key := p.FuncKey(H)
	var D *ssa.Function
	var deferI ssa.Instruction
	allInstrs(H, func(in ssa.Instruction) {
		if d, ok := in.(*ssa.Defer); ok {
			var f *ssa.Function
			if mc, ok := strip(d.Call.Value).(*ssa.MakeClosure); ok {
				f = mc.Fn.(*ssa.Function)
			} else if sc := d.Call.StaticCallee(); sc != nil && p.inModule(sc) {
				f = sc
			}
			if f != nil {
				hasRecover := false
				allInstrs(f, func(x ssa.Instruction) {
					if ci, ok := x.(ssa.CallInstruction); ok && callName(ci.Common()) == "builtin.recover" {
						hasRecover = true
					}
				})
				if hasRecover {
					D, deferI = f, in
				}
			}
		}
	})
	if D == nil {
		c.Bad(key+":deferred-recover", p.FuncPos(H), "no deferred literal calling recover() directly: a panic in a later handler escapes ServeHTTP")
		return
	}
	ok, path := mustPrecede(H, isInstr(deferI), nextCall)
	if ok {
		c.OK(key+":defer-before-next", p.Pos(nextCall.Pos()), "the recovering defer is registered on every path before Next()", numInstrs(H))
	} else {
		c.Bad(key+":defer-before-next", p.Pos(nextCall.Pos()), "Next() can run before the recovering defer is registered", path)
	}
	c.OK(key+":deferred-recover", p.Pos(deferI.Pos()), "deferred literal "+p.FuncKey(D)+" calls recover() in its own body", 1)
	rep := false
	for _, f := range withLits(D) {
		allInstrs(f, func(in ssa.Instruction) {
			if _, ok := in.(*ssa.Panic); ok {
				rep = true
				c.Bad(p.FuncKey(D)+":re-panic", p.Pos(in.Pos()), "the recovering literal panics again: the panic escapes ServeHTTP")
			}
		})
	}
	if !rep {
		c.OK(p.FuncKey(D)+":no-re-panic", p.FuncPos(D), "no panic statement in the recovering literal", numInstrs(D))
	}

	// ---- R2 500 on the recovered edge
	c.Rule("R2", "E1 guard-cut", "on the recovered != nil edge every path reaches WriteHeader(500) and then Write on the writer resolved through the injector", 1)
	dk := p.FuncKey(D)
	var recV ssa.Value
	allInstrs(D, func(in ssa.Instruction) {
		if cl, ok := in.(*ssa.Call); ok && callName(&cl.Call) == "builtin.recover" {
			recV = cl
		}
	})
	isW := func(v ssa.Value) bool {
		ta, ok := strip(v).(*ssa.TypeAssert)
		if !ok || namedName(ta.AssertedType) != "ResponseWriter" {
			return false
		}
		return vCall("(reflect.Value).Interface", vCall("(inject.TypeMapper).Value", vAny, vCall("inject.InterfaceOf")))(ta.X)
	}
	isWH500 := func(in ssa.Instruction) bool {
		ci, ok := in.(ssa.CallInstruction)
		return ok && ci.Common().IsInvoke() && ci.Common().Method.Name() == "WriteHeader" && isW(ci.Common().Value) && vConstInt(500)(ci.Common().Args[0])
	}
	isWrite := func(in ssa.Instruction) bool {
		ci, ok := in.(ssa.CallInstruction)
		return ok && ci.Common().IsInvoke() && ci.Common().Method.Name() == "Write" && isW(ci.Common().Value)
	}
	caught := edgesWhere(D, cCmp(token.NEQ, vIs(recV), vNil), true)
	bad := len(caught) == 0
	why := "the recovered value is never tested"
	for e := range caught {
		tgt := e.B.Succs[e.S]
		if in, pth := (Query{Fn: D, Avoid: isWH500}).Reach(tgt, 0, isReturn); in != nil {
			bad, why = true, "a recovered panic can return without WriteHeader(500): "+blockPath(pth)
		}
		if in, pth := (Query{Fn: D, Avoid: isWrite}).Reach(tgt, 0, isReturn); in != nil {
			bad, why = true, "a recovered panic can return without writing a body: "+blockPath(pth)
		}
	}
	// order: status before body
	allInstrs(D, func(in ssa.Instruction) {
		if isWrite(in) {
			if ok, _ := mustPrecede(D, isWH500, in); !ok {
				bad, why = true, "the body can be written before the 500 status"
			}
		}
	})
	c.Cond(!bad, dk+":responds-500", p.FuncPos(D), "recovered ⇒ WriteHeader(500) then Write, on the injector's http.ResponseWriter", why)
	// any other status written by Recovery?
	allInstrs(D, func(in ssa.Instruction) {
		if ci, ok := in.(ssa.CallInstruction); ok && ci.Common().IsInvoke() && ci.Common().Method.Name() == "WriteHeader" && !vConstInt(500)(ci.Common().Args[0]) {
			c.Bad(dk+":other-status", p.Pos(in.Pos()), "Recovery sends a status other than 500")
		}
	})

	// ---- R3 detail only in development
	c.Rule("R3", "E4 edge-sensitive taint", "the recovered value and the stack reach the response (body, headers) only on the Env() == development edge", 1)
	devName, okDev := p.stringConst("flamego", "EnvTypeDev")
	if !okDev {
		c.Anchor("flamego.EnvTypeDev")
	} else {
		dev := edgesWhere(D, cCmp(token.EQL, vCall("flamego.Env"), vConstStr(devName)), true)
		isLocalBuf := func(v ssa.Value) bool {
			v = strip(v)
			t := namedName(derefT(v.Type()))
			if t != "Buffer" && t != "Builder" {
				return false
			}
			switch strip(v).(type) {
			case *ssa.Alloc:
				return true
			}
			return false
		}
		var isSource func(v ssa.Value) bool
		isSource = func(v ssa.Value) bool {
			cl, ok := v.(*ssa.Call)
			if !ok {
				return false
			}
			n := callName(&cl.Call)
			// the contents of a local buffer: whatever was written into it
			if (n == "(*bytes.Buffer).Bytes" || n == "(*bytes.Buffer).String" || n == "(*strings.Builder).String") && len(cl.Call.Args) > 0 && isLocalBuf(cl.Call.Args[0]) {
				buf := strip(cl.Call.Args[0])
				for _, r := range referrers(buf) {
					wc, isCall := r.(ssa.CallInstruction)
					if !isCall || wc == ssa.CallInstruction(cl) {
						continue
					}
					for i, a := range callArgs(wc.Common()) {
						if strip(a) == buf && i == 0 {
							continue
						}
						if derivesFrom(a, isSource, nil) {
							return true
						}
					}
				}
				return false
			}
			if n == "builtin.recover" || strings.HasPrefix(n, "runtime.") || strings.HasPrefix(n, "runtime/debug.") {
				return true
			}
			if n == "dynamic" {
				// a function value captured from Recovery (stack, function, source helpers)
				if cell := cellOf(cl.Call.Value); cell != nil && cell.Parent() == rec {
					return true
				}
			}
			if f := cl.Call.StaticCallee(); f != nil && f.Parent() == rec {
				return true
			}
			return false
		}
		nSinks, leaks := 0, 0
		allInstrs(D, func(in ssa.Instruction) {
			ci, ok := in.(ssa.CallInstruction)
			if !ok {
				return
			}
			n := callName(ci.Common())
			var sinkArgs []ssa.Value
			switch {
			case ci.Common().IsInvoke() && ci.Common().Method.Name() == "Write" && isW(ci.Common().Value):
				sinkArgs = ci.Common().Args
			case n == "(net/http.Header).Set" || n == "(net/http.Header).Add":
				sinkArgs = ci.Common().Args[1:]
			case n == "net/http.Error" || n == "io.WriteString" || strings.HasPrefix(n, "fmt.Fprint"):
				if len(ci.Common().Args) > 0 && isLocalBuf(ci.Common().Args[0]) {
					return // assembling text in a local buffer; its contents are a source where they are read
				}
				sinkArgs = ci.Common().Args[1:]
			default:
				return
			}
			nSinks++
			for _, a := range sinkArgs {
				if ph, isPhi := strip(a).(*ssa.Phi); isPhi {
					for i, e := range ph.Edges {
						if derivesFrom(e, isSource, nil) && !edgeGuarded(D, dev, ph.Block().Preds[i], ph.Block()) {
							leaks++
							c.Bad(dk+":panic-detail-leak", p.Pos(in.Pos()), "panic detail ("+vstr(e)+") reaches the response on an edge that is not guarded by Env() == "+devName)
						}
					}
				} else if derivesFrom(a, isSource, nil) {
					if ok, _ := guardedBy(D, dev, isInstr(in)); !ok || len(dev) == 0 {
						leaks++
						c.Bad(dk+":panic-detail-leak", p.Pos(in.Pos()), "panic detail reaches the response outside development mode")
					}
				}
			}
		})
		if leaks == 0 {
			if nSinks == 0 || len(dev) == 0 {
				c.Bad(dk+":panic-detail", p.FuncPos(D), "no response sink / no development-mode test found (anchor drift)")
			} else {
				c.OK(dk+":panic-detail", p.FuncPos(D), "every response sink argument deriving from recover()/stack arrives through the Env() == development edge", nSinks)
			}
		}
	}

	// ---- R6 the recovering code itself is total

	// ---- R7 what Recovery itself calls does not panic again
	c.Rule("R7", "shared with C13 (R2, R3)", "Recovery answers through ResponseWriter.WriteHeader: the before-functions run under the writer's once-guard (a hook that panicked is not run a second time by Recovery's own WriteHeader(500))", 4)
	c.Share("C13", []string{"R2", "R3"}, 4)
	c.Rule("R8", "shared with C13 (R6) and C03 (R3, R4)", "Recovery decides between answering and keeping quiet by Written(), and the run loop stops on the same writer's Written(): Written() is true exactly when a status line went out (not marked by operations that send none), and the loop asks the context's own writer, not a fresh wrapper", 4)
	c.Share("C13", []string{"R6"}, 1)
	c.Share("C03", []string{"R3", "R4"}, 3)
	// the attempt is consumed before the hooks run: a `!Written()` test alone (accepted by C13 for the single
	// status line) lets Recovery's own WriteHeader(500) run a hook again that has just panicked
	checkHooksOnce(c)
	c.Rule("R6", "E8 prove-pass oracle", "every index/slice operation in Recovery's handler, its deferred literal and its helper closures is proven by the compiler or is x[i+1:] with i = Index/LastIndex(x, …) on the i >= 0 edge: a panic raised after recover() would escape ServeHTTP", 1)
	{
		fns := withLits(rec)
		// and the module functions they call statically (a helper that formats the panic value)
		{
			seen := map[*ssa.Function]bool{}
			for _, f := range fns {
				seen[f] = true
			}
			for i := 0; i < len(fns) && len(fns) < 200; i++ {
				allInstrs(fns[i], func(in ssa.Instruction) {
					if ci, ok := in.(ssa.CallInstruction); ok {
						if cal := ci.Common().StaticCallee(); cal != nil && cal.Pkg != nil && !seen[cal] {
							if _, isMod := pkgShort[cal.Pkg.Pkg.Path()]; isMod && len(cal.Blocks) > 0 {
								seen[cal] = true
								fns = append(fns, cal)
							}
						}
					}
				})
			}
		}
		sites, err := p.IndexSites(fns)
		if err != nil {
			c.Bad(p.FuncKey(rec)+":prove-pass", "?", err.Error())
		}
		nun, bad := 0, 0
		for _, st := range sites {
			if !st.Unproven {
				continue
			}
			nun++
			ok := false
			if sl, isSl := st.Instr.(*ssa.Slice); isSl && sl.High == nil && sl.Low != nil {
				if b, isB := strip(sl.Low).(*ssa.BinOp); isB && b.Op == token.ADD && vConstInt(1)(b.Y) {
					if cl := asCall(b.X); cl != nil {
						n := callName(&cl.Call)
						if (n == "bytes.LastIndex" || n == "bytes.Index" || n == "strings.Index" || n == "strings.LastIndex" || n == "bytes.IndexByte" || n == "strings.IndexByte") && strip(cl.Call.Args[0]) == strip(sl.X) {
							g := union(edgesWhere(st.Fn, cCmp(token.GEQ, vIs(cl), vConstInt(0)), true), edgesWhere(st.Fn, cCmp(token.EQL, vIs(cl), vConstInt(-1)), false))
							if okG, _ := guardedBy(st.Fn, g, isInstr(st.Instr)); okG && len(g) > 0 {
								ok = true
							}
						}
					}
				}
			}
			if !ok {
				bad++
				c.Bad(p.FuncKey(st.Fn)+":index", p.Pos(st.Instr.Pos()), "an index/slice operation in the recovering code is not provably in bounds: a panic here happens after recover() and escapes ServeHTTP")
			}
		}
		for _, f := range fns {
			allInstrs(f, func(in ssa.Instruction) {
				ci, ok := in.(ssa.CallInstruction)
				if !ok || !ci.Common().IsInvoke() {
					return
				}
				if n := ci.Common().Method.Name(); n == "Error" || n == "String" || n == "GoString" || n == "Format" {
					bad++
					c.Bad(p.FuncKey(f)+":calls-method-of-panic-value", p.Pos(in.Pos()), "the recovering code calls "+n+"() on a value itself (fmt guards such calls, a direct call does not): a panic value whose method panics — e.g. a typed nil pointer in an error — makes Recovery panic after recover()")
				}
			})
		}
		// operations that panic for some dynamic types: a value of interface type (the recovered value is
		// `any` non-nil value) used as a map key (unhashable → "hash of unhashable type") or compared with
		// == against another non-nil interface (uncomparable → "comparing uncomparable type")
		for _, f := range fns {
			dynamic := func(v ssa.Value) bool {
				if _, isIface := v.Type().Underlying().(*types.Interface); !isIface {
					return false
				}
				switch x := v.(type) {
				case *ssa.Parameter, *ssa.FreeVar:
					return true
				case *ssa.Call:
					return callName(&x.Call) == "builtin.recover"
				case *ssa.UnOp:
					_, isFV := x.X.(*ssa.FreeVar)
					return isFV
				}
				return false
			}
			allInstrs(f, func(in ssa.Instruction) {
				var key ssa.Value
				switch x := in.(type) {
				case *ssa.MapUpdate:
					key = x.Key
				case *ssa.Lookup:
					if _, isMap := x.X.Type().Underlying().(*types.Map); isMap {
						key = x.Index
					}
				case *ssa.BinOp:
					if x.Op == token.EQL || x.Op == token.NEQ {
						_, i1 := x.X.Type().Underlying().(*types.Interface)
						_, i2 := x.Y.Type().Underlying().(*types.Interface)
						if i1 && i2 && !vNil(x.X) && !vNil(x.Y) && (derivesFrom(x.X, dynamic, nil) || derivesFrom(x.Y, dynamic, nil)) {
							bad++
							c.Bad(p.FuncKey(f)+":compares-panic-value", p.Pos(in.Pos()), "the recovering code compares the recovered value with == : a panic value of an uncomparable dynamic type (slice, map, struct holding one) makes Recovery panic after recover()")
						}
					}
				}
				if key == nil {
					return
				}
				if _, isIface := key.Type().Underlying().(*types.Interface); isIface && derivesFrom(key, dynamic, nil) {
					bad++
					c.Bad(p.FuncKey(f)+":hashes-panic-value", p.Pos(in.Pos()), "the recovering code uses a value of interface type as a map key: a panic value of an unhashable dynamic type (slice, map, func, struct holding one) raises \"hash of unhashable type\" after recover() and escapes ServeHTTP")
				}
			})
		}
		if bad == 0 {
			c.OK(p.FuncKey(rec)+":total", p.FuncPos(rec), fmt.Sprintf("%d index sites in %d functions: all compiler-proven except %d of the form x[Index(x,…)+1:] on the found edge", len(sites), len(fns), nun), len(sites))
		}
	}

	// ---- R4 failed injection is a panic inside the chain
	c.Rule("R4", "E1 (shared with C03.R6)", "a failed dependency resolution panics inside the run loop, i.e. inside Recovery's Next()", 1)
	if a := resolveChain(c); a != nil {
		c.curRule = "C15.R4"
		run := a.run
		I := a.invoke.(*ssa.Call)
		noErr := edgesWhere(run, cCmp(token.NEQ, vExtract(1, vIs(I)), vNil), false)
		pn, _ := Query{Fn: run, Cut: noErr}.After(I, func(in ssa.Instruction) bool { _, ok := in.(*ssa.Panic); return ok })
		esc, _ := Query{Fn: run, Cut: noErr}.After(I, isReturn)
		c.Cond(len(noErr) > 0 && pn != nil && esc == nil, p.FuncKey(run)+":inject-error-panics", p.Pos(I.Pos()), "err != nil ⇒ panic (caught by Recovery's deferred recover)", "an injection failure no longer panics inside the chain")
	}

	// ---- R5 keeps serving
	c.Rule("R5", "E5 who-may-call ban", "nothing reachable while serving exits the process or the goroutine", 2)
	reqList := p.REQList()
	ban := []string{"os.Exit", "log.Fatal", "(*log.Logger).Fatal", "(*github.com/charmbracelet/log.Logger).Fatal", "github.com/charmbracelet/log.Fatal", "runtime.Goexit", "syscall.Exit", "syscall.Kill"}
	ctlName := firstCallName(reqList)
	ctl := bannedCalls(p, reqList, []string{ctlName})
	c.Cond(len(ctl) > 0 && ctlName != "", "E5:ban-control", "checker", "positive control: the ban matcher finds the existing call "+ctlName+" in the request phase", "positive control failed: the ban matcher matches nothing")
	if len(ctl) > 0 {
		c.Controls = append(c.Controls, "ban-matcher:"+ctlName)
	}
	hits := bannedCalls(p, reqList, ban)
	for _, h := range hits {
		c.Bad(p.FuncKey(h.Parent())+":process-exit", p.Pos(h.Pos()), "the request phase calls "+callName(h.Common())+": one request can take the whole application down")
	}
	if len(hits) == 0 {
		c.OK("REQ:no-process-exit", "request phase", "no os.Exit / Fatal / Goexit among the calls of the request-phase functions", len(reqList))
	}
}

// checkHooksOnce: the attempt to send the first status is consumed before the hooks run (sync.Once), so a hook
// runs at most once also when one of them panics (C13.R3, C15.R8).
func checkHooksOnce(c *Check) {
	p := c.P

	n, bad := 0, 0
	for _, fn := range p.Funcs() {
		for _, ci := range callsIn(fn, func(nm string, cm *ssa.CallCommon) bool { return strings.HasSuffix(nm, "responseWriter).callBefore") }) {
			n++
			if _, isOnce := onceLiteral(fn); !isOnce {
				bad++
				c.Bad(p.FuncKey(fn)+":hooks-once", p.Pos(ci.Pos()), "the before-functions are not run under a sync.Once: when one of them panics no status has been recorded yet, so Recovery's WriteHeader(500) runs it again inside the deferred function and the second panic escapes ServeHTTP")
			}
		}
	}
	if n > 0 && bad == 0 {
		c.OK("flamego.responseWriter:hooks-once", "response_writer.go", "the before-functions run inside a sync.Once.Do literal: a panicking hook is not retried", n)
	}

}
