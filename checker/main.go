package main

import (
	"encoding/json"
	"flag"
	"fmt"
	"os"
	"path/filepath"
	"sort"
	"strconv"
	"strings"
	"time"
)

type propFunc func(c *Check)

var verboseObs bool

var properties = map[string]propFunc{}

func register(id string, f propFunc) { properties[id] = f }

func main() {
	var (
		prop    = flag.String("property", "", "property id (C01…C18) or 'all'")
		tier    = flag.String("tier", "quick", "quick | thorough")
		repo    = flag.String("repo", "/repo", "repository root")
		verif   = flag.String("verif", "", "verif dir (default: parent of the binary's dir)")
		replay  = flag.String("replay", "", "replay file: re-evaluate its rule on the current tree")
		dump    = flag.String("dump", "", "dump SSA of the function with this key (debug)")
		overlay = flag.String("overlay", "", "JSON file {file: contents} applied in memory (audit only)")
		noEv    = flag.Bool("no-evidence", false, "do not write evidence/replay files")
		audit   = flag.Bool("audit", false, "run the rule-liveness audit for -property (or all)")
		listF   = flag.Bool("list-funcs", false, "list function keys")
		goarch  = flag.String("goarch", "", "GOARCH for file selection")
		verbose = flag.Bool("v", false, "print every obligation")
		patchF  = flag.String("patch", "", "unified diff applied in memory before analysis (debug / audit)")
		dumpSrc = flag.String("dump-src", "", "print the normalised source of this file (relative path) and exit")
		audAll  = flag.Bool("audit-all", false, "with -audit: include stored benign patches that are not armed (open false alarms)")
		noNorm  = flag.Bool("no-normalize", false, "analyse the tree as it is (debug)")
		genCan  = flag.Bool("gen-canon", false, "print the canonical name table of the current tree (maintenance)")
	)
	flag.Parse()
	verboseObs = *verbose
	auditIncludeUnarmed = *audAll
	NoNormalize = *noNorm
	started := time.Now()
	if *verif == "" {
		exe, _ := os.Executable()
		*verif = filepath.Dir(filepath.Dir(exe))
		if _, err := os.Stat(filepath.Join(*verif, "properties.jsonl")); err != nil {
			*verif = "/verif"
		}
	}
	seed := int64(0)
	if s := os.Getenv("VERIF_SEED"); s != "" {
		if n, err := strconv.ParseInt(s, 10, 64); err == nil {
			seed = n
		}
	}
	if t := os.Getenv("VERIF_TIER"); t != "" && *tier == "" {
		*tier = t
	}

	var ov map[string][]byte
	if *overlay != "" {
		b, err := os.ReadFile(*overlay)
		if err != nil {
			fmt.Println("ERROR", err)
			os.Exit(2)
		}
		var m map[string]string
		if err := json.Unmarshal(b, &m); err != nil {
			fmt.Println("ERROR", err)
			os.Exit(2)
		}
		ov = map[string][]byte{}
		for k, v := range m {
			if !filepath.IsAbs(k) {
				k = filepath.Join(*repo, k)
			}
			ov[k] = []byte(v)
		}
	}

	if *patchF != "" {
		b, err := os.ReadFile(*patchF)
		if err != nil {
			fmt.Println("ERROR", err)
			os.Exit(2)
		}
		po, err := applyUnified(*repo, string(b))
		if err != nil {
			fmt.Println("ERROR", err)
			os.Exit(2)
		}
		if ov == nil {
			ov = map[string][]byte{}
		}
		for k, v := range po {
			ov[k] = v
		}
	}
	if *dumpSrc != "" {
		p, err := LoadRepo(*repo, false, "", ov)
		if err != nil {
			fmt.Println("ERROR", err)
			os.Exit(2)
		}
		for _, n := range p.NormNotes {
			fmt.Println("// note:", n)
		}
		if b, ok := p.Overlay[filepath.Join(*repo, *dumpSrc)]; ok {
			fmt.Print(string(b))
		} else {
			fmt.Println("// file not changed by patch or normalisation")
		}
		return
	}
	if *audit {
		os.Exit(runAudit(*repo, *verif, *prop, seed))
	}

	if *genCan {
		p, err := LoadRepo(*repo, false, "", nil)
		if err != nil {
			fmt.Println("ERROR", err)
			os.Exit(2)
		}
		fmt.Print(genCanon(p))
		return
	}
	if *dump == "cursor" {
		p, _ := LoadRepo(*repo, false, "", nil)
		debugCursor2(p)
		debugCursor(p)
		return
	}
	if *dump != "" || *listF {
		p, err := LoadRepo(*repo, false, *goarch, ov)
		if err != nil {
			fmt.Println("ERROR", err)
			os.Exit(2)
		}
		for _, f := range p.Funcs() {
			k := p.FuncKey(f)
			if *listF {
				fmt.Println(k)
				continue
			}
			if k == *dump || strings.HasPrefix(k, *dump+"$") {
				fmt.Printf("### %s\n", k)
				f.WriteTo(os.Stdout)
			}
		}
		return
	}

	if *replay != "" {
		b, err := os.ReadFile(*replay)
		if err != nil {
			fmt.Println("ERROR", err)
			os.Exit(2)
		}
		var r struct {
			Property   string      `json:"property"`
			Obligation *Obligation `json:"obligation"`
		}
		if err := json.Unmarshal(b, &r); err != nil || r.Obligation == nil {
			fmt.Println("ERROR malformed replay file")
			os.Exit(2)
		}
		*prop = r.Property
		*noEv = true
		code := runProperty(*repo, *verif, *prop, *tier, seed, ov, *goarch, true, started, func(o *Obligation) bool {
			return o.Rule == r.Obligation.Rule && o.Construct == r.Obligation.Construct
		})
		os.Exit(code)
	}

	if *prop == "" {
		fmt.Println("usage: flamecheck -property Cxx [-tier quick|thorough]")
		os.Exit(2)
	}
	if *prop == "all" {
		ids := []string{}
		for id := range properties {
			ids = append(ids, id)
		}
		sort.Strings(ids)
		rc := 0
		for _, id := range ids {
			if c := runProperty(*repo, *verif, id, *tier, seed, ov, *goarch, *noEv, time.Now(), nil); c > rc {
				rc = c
			}
		}
		os.Exit(rc)
	}
	os.Exit(runProperty(*repo, *verif, *prop, *tier, seed, ov, *goarch, *noEv, started, nil))
}

func runProperty(repo, verif, prop, tier string, seed int64, ov map[string][]byte, goarch string, noEv bool, started time.Time, filter func(*Obligation) bool) (code int) {
	f, ok := properties[prop]
	if !ok {
		fmt.Printf("ERROR unknown property %q\n", prop)
		return 2
	}
	whole := tier == "thorough"
	p, err := LoadRepo(repo, whole, goarch, ov)
	if err != nil {
		fmt.Printf("ERROR cannot analyse %s: %v\n", repo, err)
		return 2
	}
	c := NewCheck(p, prop, tier, seed)
	func() {
		defer func() {
			if r := recover(); r != nil {
				c.curRule = prop + ".internal"
				c.Rules[c.curRule] = &RuleInfo{ID: c.curRule, Engine: "-", Text: "checker must not crash"}
				c.order = append(c.order, c.curRule)
				c.Bad("checker-panic", "?", fmt.Sprintf("checker panicked: %v", r))
			}
		}()
		f(c)
		if whole {
			thoroughExtras(c)
		}
	}()
	if whole && filter == nil {
		thoroughArch(c, f, repo, ov)
		if len(ov) == 0 {
			thoroughAudit(c, repo, verif)
		}
	}
	if filter != nil {
		var keep []*Obligation
		for _, o := range c.Obs {
			if filter(o) {
				keep = append(keep, o)
			}
		}
		c.Obs = keep
		for _, r := range c.Rules {
			r.Min = 0
		}
		if len(keep) == 0 {
			fmt.Printf("replay: the construct no longer exists in the tree\n")
		}
		for _, o := range keep {
			fmt.Printf("replay: %s %s at %s: %s — %s\n", o.Rule, o.Construct, o.Pos, o.Status, o.How)
		}
	}
	if verboseObs {
		for _, o := range c.Obs {
			fmt.Printf("  [%s] %s %s at %s: %s\n", o.Status, o.Rule, o.Construct, o.Pos, o.How)
		}
	}
	return c.Finish(verif, started, !noEv)
}
