package main

// C03 Handler chain: ordered, at-most-once, onion nesting, stops on write or cancel.
// The rules are the premises P1–P3 of the cursor induction in DESIGN.md §3 C03.

import (
	"fmt"
	"go/token"
	"go/types"
	"strings"

	"golang.org/x/tools/go/ssa"
)

func init() { register("C03", checkC03) }

// chainAnchors resolves the per-request context type's chain machinery.
type chainAnchors struct {
	ctx            *types.Named
	fIndex         *types.Var
	fHandlers      *types.Var
	fAction        *types.Var
	run, next      *ssa.Function
	invoke         ssa.CallInstruction // the Invoke(h) call in run
	indexStores    []FieldUse
	isIndexStoreIn func(fn *ssa.Function) func(ssa.Instruction) bool
}

func resolveChain(c *Check) *chainAnchors {
	p := c.P
	a := &chainAnchors{}
	a.ctx = p.Named("flamego", "context")
	a.fIndex = p.Field("flamego", "context", "index")
	a.fHandlers = p.Field("flamego", "context", "handlers")
	a.fAction = p.Field("flamego", "context", "action")
	a.next = p.Meth("flamego", "context", "Next")
	if a.ctx == nil || a.fIndex == nil || a.fHandlers == nil || a.fAction == nil || a.next == nil {
		c.Anchor("flamego.context{index,handlers,action} and Next")
		return nil
	}
	// run = the method of context that invokes handlers through the injector.
	var cands []*ssa.Function
	for _, fn := range p.Funcs() {
		if r := fn.Signature.Recv(); r == nil || namedName(derefT(r.Type())) != "context" || fn.Parent() != nil {
			continue
		}
		if len(callsNamed(fn, "(inject.Invoker).Invoke")) > 0 {
			cands = append(cands, fn)
		}
	}
	if len(cands) == 1 {
		a.run = cands[0]
	} else {
		a.run = p.Meth("flamego", "context", "run")
	}
	if a.run == nil {
		c.Anchor("the context method that invokes handlers (run loop)")
		return nil
	}
	inv := callsNamed(a.run, "(inject.Invoker).Invoke")
	if len(inv) != 1 {
		c.Undecided(p.FuncKey(a.run)+":invoke", p.FuncPos(a.run), "expected exactly one Invoke call in the run loop")
		return nil
	}
	a.invoke = inv[0]
	for _, u := range p.FieldUses(a.fIndex) {
		if u.Kind == "store" && !u.Fresh {
			a.indexStores = append(a.indexStores, u)
		} else if u.Kind != "load" && u.Kind != "store" {
			c.Rule("R1", "E5 effects", "cursor writers", 3)
			c.Bad(p.FuncKey(u.Fn)+":index."+u.Kind, p.Pos(u.Instr.Pos()), "the chain cursor's address is taken / used as "+u.Kind+" "+u.Call)
		}
	}
	a.isIndexStoreIn = func(fn *ssa.Function) func(ssa.Instruction) bool {
		m := map[ssa.Instruction]bool{}
		for _, u := range a.indexStores {
			if u.Fn == fn {
				m[u.Instr] = true
			}
		}
		return func(in ssa.Instruction) bool { return m[in] }
	}
	return a
}

func checkC03(c *Check) {
	p := c.P
	c.Explain = "effect analysis of the chain cursor, cut-reachability ordering inside the run loop and provenance of the handler slice; the rules are the premises of the cursor induction written in DESIGN.md (C03)"
	c.NotDec = []string{
		"behaviour of arbitrary handler programs (the induction's conclusion is on paper, not re-checked by execution)",
		"panics inside handlers",
		"handlers that retain the Context and call Next() from another goroutine",
	}
	a := resolveChain(c)
	if a == nil {
		return
	}
	run, next := a.run, a.next
	recv := vParam(run, 0)
	idx := vField(recv, "index")
	hlen := vLen(vField(recv, "handlers"))
	I := a.invoke.(ssa.Instruction)
	isI := isInstr(I)
	isStore := a.isIndexStoreIn(run)

	// ---- R1 cursor writers
	c.Rule("R1", "E5 effects + E3", "stores to the chain cursor occur only in Next and in the run loop, each storing cursor+1", 2)
	for _, u := range a.indexStores {
		key := p.FuncKey(u.Fn) + ":index.store"
		pos := p.Pos(u.Instr.Pos())
		if u.Fn != run && u.Fn != next {
			c.Bad(key, pos, "the chain cursor is written outside Next() and the run loop")
			continue
		}
		st := u.Instr.(*ssa.Store)
		r := vParam(u.Fn, 0)
		ok := vBin(token.ADD, vField(r, "index"), vConstInt(1))(st.Val)
		c.Cond(ok, key, pos, "index = index + 1", "cursor is set to "+vstr(st.Val)+" rather than advanced by one")
	}

	// ---- R2 Next = increment, then run
	c.Rule("R2", "E2 order", "Next() advances the cursor exactly once and then re-enters the run loop on every path", 2)
	{
		runCalls := callsIn(next, func(n string, cc *ssa.CallCommon) bool {
			return cc.StaticCallee() == run
		})
		isNextStore := a.isIndexStoreIn(next)
		key := p.FuncKey(next)
		if len(runCalls) == 0 {
			c.Bad(key+":runs", p.FuncPos(next), "Next() does not re-enter the run loop")
		}
		for _, rc := range runCalls {
			ok, path := mustPrecede(next, isNextStore, rc)
			if ok {
				c.OK(key+":advance-before-run", p.Pos(rc.Pos()), "cursor store precedes run() on every path", numInstrs(next))
			} else {
				c.Bad(key+":advance-before-run", p.Pos(rc.Pos()), "Next() re-enters the loop without advancing the cursor: the current handler runs again", path)
			}
			// no second store after the first one
			for _, u := range a.indexStores {
				if u.Fn != next {
					continue
				}
				if in, pth := (Query{Fn: next}).After(u.Instr, isNextStore); in != nil {
					c.Bad(key+":advance-once", p.Pos(in.Pos()), "Next() advances the cursor twice: a handler is skipped", blockPath(pth))
				}
			}
		}
		// every path through Next calls run
		if len(runCalls) > 0 {
			var rcs []ssa.Instruction
			for _, rc := range runCalls {
				rcs = append(rcs, rc)
			}
			// the one sound shortcut: the cursor is already past the action (index > len(handlers)), where the
			// run loop's own condition fails at once
			isIdx := func(v ssa.Value) bool { return fieldOf(addrOfLoad(strip(v))) == a.fIndex }
			isHs := func(v ssa.Value) bool { return fieldOf(addrOfLoad(strip(v))) == a.fHandlers }
			exhausted := union(edgesWhere(next, cCmp(token.GTR, isIdx, vLen(isHs)), true), edgesWhere(next, cCmp(token.LEQ, isIdx, vLen(isHs)), false))
			in, path := Query{Fn: next, Avoid: inSet(rcs), Cut: exhausted}.FromEntry(isReturn)
			if in == nil {
				c.OK(key+":always-runs", p.FuncPos(next), "every path through Next() re-enters the run loop", numInstrs(next))
			} else {
				c.Bad(key+":always-runs", p.Pos(in.Pos()), "a path through Next() returns without running the remainder of the chain", blockPath(path))
			}
		}
	}

	// ---- R3 loop body order
	c.Rule("R3", "E2 order (cut-reachability)", "per iteration: cancel test → select handler → Invoke → advance once → render returns → Written() test → back edge", 4)
	key := p.FuncKey(run)
	posI := p.Pos(I.Pos())
	// (a) cancel test before every Invoke
	{
		selIdx := func(v ssa.Value) bool {
			e, ok := strip(v).(*ssa.Extract)
			if !ok || e.Index != 0 {
				return false
			}
			s, ok := e.Tuple.(*ssa.Select)
			if !ok || s.Blocking || len(s.States) != 1 || s.States[0].Dir != types.RecvOnly {
				return false
			}
			return vCall("(context.Context).Done")(s.States[0].Chan)
		}
		notCancelled := union(
			edgesWhere(run, cCmp(token.EQL, selIdx, vConstInt(0)), false),
			edgesWhere(run, cCmp(token.EQL, vCall("(context.Context).Err"), vNil), true),
		)
		in1, path1 := Query{Fn: run, Cut: notCancelled}.FromEntry(isI)
		in2, path2 := Query{Fn: run, Cut: notCancelled}.After(I, isI)
		// the context that is tested is the request's CURRENT context: (*http.Request).Context() is called
		// again before every invocation (a handler may have replaced the request's context)
		isCtxCall := func(in ssa.Instruction) bool {
			ci, ok := in.(ssa.CallInstruction)
			return ok && callName(ci.Common()) == "(*net/http.Request).Context"
		}
		in3, path3 := Query{Fn: run, Avoid: isCtxCall}.FromEntry(isI)
		in4, path4 := Query{Fn: run, Avoid: isCtxCall}.After(I, isI)
		if in3 == nil && in4 != nil {
			in3, path3 = in4, path4
		}
		if len(notCancelled) > 0 && in1 == nil && in2 == nil && in3 != nil {
			c.Bad(key+":cancel-test", posI, "the cancellation test looks at a context obtained before the loop (Request.Context() is not re-read before every handler): a handler that replaces the request's context is not noticed", blockPath(path3))
		} else if len(notCancelled) == 0 {
			c.Bad(key+":cancel-test", posI, "no cancellation test of the request context guards the handler invocation")
		} else if in1 != nil {
			c.Bad(key+":cancel-test", posI, "a handler can be invoked without testing the request context for cancellation", blockPath(path1))
		} else if in2 != nil {
			c.Bad(key+":cancel-test", posI, "the cancellation test is not repeated before the next handler", blockPath(path2))
		} else {
			c.OK(key+":cancel-test", posI, "every path (first and subsequent iterations) to Invoke passes the not-cancelled edge of a non-blocking receive on Request.Context().Done()", numInstrs(run))
		}
	}
	// (b) no cursor store between loop entry/back edge and Invoke; exactly one after
	written := vCall("(flamego.ResponseWriter).Written", vOr(vCall("(*flamego.context).ResponseWriter", recv), vField(recv, "responseWriter")))
	isWrittenCall := func(in ssa.Instruction) bool {
		v, ok := in.(ssa.Value)
		return ok && written(v)
	}
	{
		for _, u := range a.indexStores {
			if u.Fn != run {
				continue
			}
			S := u.Instr
			pre, _ := mustPrecede(run, isI, S)
			reI, _ := Query{Fn: run}.After(S, isI)
			pos := p.Pos(S.Pos())
			if pre {
				// post-invoke advance: must not be followed by another store before the next Invoke
				if in, pth := (Query{Fn: run, Avoid: func(in ssa.Instruction) bool { return in == I || isWrittenCall(in) }}).After(S, isStore); in != nil {
					c.Bad(key+":advance-once", pos, "the cursor is advanced twice after one invocation: the next handler is skipped", blockPath(pth))
				} else {
					c.OK(key+":advance-once", pos, "post-invoke advance, single store per iteration", numInstrs(run))
				}
			} else if reI == nil {
				c.OK(key+":advance-at-exit", pos, "cursor store on a path that leaves the loop without invoking (nil handler)", 1)
			} else {
				_, pth := Query{Fn: run, Avoid: isI}.FromEntry(isInstr(S))
				c.Bad(key+":advance-before-invoke", pos, "the cursor is advanced before the handler is invoked: a Next() inside the handler then skips a handler", blockPath(pth))
			}
		}
		in, path := Query{Fn: run, Avoid: isStore}.After(I, func(in ssa.Instruction) bool { return isReturn(in) || in == I })
		if in == nil {
			c.OK(key+":advance-after-invoke", posI, "every non-panicking path from Invoke to return or to the next Invoke advances the cursor", numInstrs(run))
		} else {
			c.Bad(key+":advance-after-invoke", posI, "a path continues after Invoke without advancing the cursor: the handler can run twice", blockPath(path))
		}
	}
	// (c) Written() test before the back edge
	{
		notWritten := edgesWhere(run, cBool(written), false)
		in, path := Query{Fn: run, Cut: notWritten}.After(I, isI)
		if len(notWritten) == 0 {
			c.Bad(key+":written-test", posI, "the loop never tests whether the response has been written")
		} else if in != nil {
			c.Bad(key+":written-test", posI, "the chain advances to the next handler although the response may have been written", blockPath(path))
		} else {
			c.OK(key+":written-test", posI, "the back edge to the next Invoke is taken only on the !Written() edge of the request's own writer", numInstrs(run))
		}
	}

	// ---- R4 selection
	c.Rule("R4", "E3 provenance + E1", "the invoked handler is handlers[index] when index != len(handlers) and the action when equal; the loop runs while index <= len(handlers)", 3)
	{
		h := a.invoke.Common().Args[0]
		nAct, nIdx, bad := 0, 0, ""
		isAction := vField(recv, "action")
		isIndexed := func(v ssa.Value) bool {
			u, ok := strip(v).(*ssa.UnOp)
			if !ok || u.Op != token.MUL {
				return false
			}
			ia, ok := u.X.(*ssa.IndexAddr)
			return ok && vField(recv, "handlers")(ia.X) && idx(ia.Index)
		}
		phiLeaves(h, func(l ssa.Value) {
			switch {
			case isAction(l):
				nAct++
			case isIndexed(l):
				nIdx++
			default:
				bad = vstr(l)
			}
		})
		hphi, isPhi := strip(h).(*ssa.Phi)
		if bad != "" || nAct != 1 || nIdx != 1 || !isPhi || len(hphi.Edges) != 2 {
			c.Bad(key+":selection", posI, "invoked handler is not φ(action, handlers[index]): "+vstr(h))
		} else {
			c.OK(key+":selection", posI, "h = φ(action, handlers[index])", 1)
			eq := edgesWhere(run, cCmp(token.EQL, idx, hlen), true)
			ne := edgesWhere(run, cCmp(token.EQL, idx, hlen), false)
			// inside the loop (index <= len(handlers)) the test `index < len(handlers)` separates the same two cases
			if leG := edgesWhere(run, cCmp(token.LEQ, idx, hlen), true); len(leG) > 0 {
				if inLoop, _ := guardedBy(run, leG, func(x ssa.Instruction) bool { return x == ssa.Instruction(hphi) }); inLoop {
					eq = union(eq, edgesWhere(run, cCmp(token.LSS, idx, hlen), false))
					ne = union(ne, edgesWhere(run, cCmp(token.LSS, idx, hlen), true))
				}
			}
			okAct, okIdx := false, false
			for i, e := range hphi.Edges {
				pred := hphi.Block().Preds[i]
				if isAction(e) {
					okAct = edgeGuarded(run, eq, pred, hphi.Block())
				} else {
					okIdx = edgeGuarded(run, ne, pred, hphi.Block())
				}
			}
			if okAct && okIdx && len(eq) > 0 {
				c.OK(key+":action-when-exhausted", posI, "the action is selected exactly on the index == len(handlers) edge, handlers[index] on the other", numInstrs(run))
			} else {
				c.Bad(key+":action-when-exhausted", posI, "the action can be selected while handlers remain, or handlers[index] when index == len")
			}
		}
		le := edgesWhere(run, cCmp(token.LEQ, idx, hlen), true)
		ok, path := guardedBy(run, le, isI)
		ok2, _ := Query{Fn: run, Cut: le}.After(I, isI)
		if len(le) > 0 && ok && ok2 == nil {
			c.OK(key+":loop-guard", posI, "Invoke reachable only while index <= len(handlers)", numInstrs(run))
		} else {
			c.Bad(key+":loop-guard", posI, "the loop guard is not `index <= len(handlers)`: the action is never run or the cursor overruns", path)
		}
	}

	// ---- R6 injection failure is a panic before anything else
	c.Rule("R6", "E1 guard-cut", "on the err != nil edge of Invoke the only exit is a panic", 1)
	{
		errV := vExtract(1, vIs(a.invoke.(*ssa.Call)))
		noErr := edgesWhere(run, cCmp(token.NEQ, errV, vNil), false)
		in, path := Query{Fn: run, Cut: noErr}.After(I, func(in ssa.Instruction) bool {
			return isReturn(in) || in == I || isStore(in)
		})
		// and there must be a panic on that edge
		pn, _ := Query{Fn: run, Cut: noErr}.After(I, func(in ssa.Instruction) bool { _, ok := in.(*ssa.Panic); return ok })
		if len(noErr) > 0 && in == nil && pn != nil {
			c.OK(key+":inject-error-panics", posI, "err != nil ⇒ panic; no return, no advance, no further handler on that edge", numInstrs(run))
		} else {
			c.Bad(key+":inject-error-panics", posI, "an injection failure does not end in a panic: the chain silently continues or returns", blockPath(path))
		}
	}

	// ---- R8 Routes hands its handlers on
	c.Rule("R8", "shared with C11 (R6)", "Routes passes the handlers that remain after the leading method names to Route unchanged: a route registered through it runs the same chain as one registered through Get/Post", 1)
	c.Share("C11", []string{"R6"}, 1)

	// ---- R9 the stop test is sound: Written() knows about every byte that reached the client
	c.Rule("R9", "shared with C13 (R1, R4, R6)", "the chain stops on ResponseWriter.Written(): every way of sending body bytes or a status through the wrapper commits through the wrapper's own WriteHeader first (no sibling of Write that lets the underlying writer send its implicit 200 behind the wrapper's back), and Written() is Status() != 0", 6)
	c.Share("C13", []string{"R1", "R4", "R6"}, 6)

	// ---- R7 chain assembly
	c.Rule("R7", "E3 provenance", "the per-request handler slice is fresh: make, then app middleware, then the route's handlers; the action comes from the application", 3)
	checkChainAssembly(c)
}

func checkChainAssembly(c *Check) {
	p := c.P
	cc := p.Meth("flamego", "Flame", "createContext")
	if cc == nil {
		c.Anchor("Flame.createContext")
		return
	}
	key := p.FuncKey(cc)
	f := vParam(cc, 0)
	calls := callsNamed(cc, "flamego.newContext")
	if len(calls) != 1 {
		c.Undecided(key+":newContext", p.FuncPos(cc), "expected one newContext call")
		return
	}
	nc := calls[0]
	hs := nc.Common().Args[3]
	pos := p.Pos(nc.Pos())
	// hs = append(append(fresh, f.handlers...), handlers...)
	ok := false
	why := vstr(hs)
	if a2 := asCall(hs); a2 != nil && callName(&a2.Call) == "builtin.append" && vParam(cc, 4)(a2.Call.Args[1]) {
		if a1 := asCall(a2.Call.Args[0]); a1 != nil && callName(&a1.Call) == "builtin.append" && vField(f, "handlers")(a1.Call.Args[1]) {
			if ms, isMS := strip(a1.Call.Args[0]).(*ssa.MakeSlice); isMS {
				if n, isC := constInt(ms.Len); isC && n == 0 {
					ok = true
				} else {
					why = "slice made with non-zero length"
				}
			} else {
				why = "base of the chain is not a fresh make: " + vstr(a1.Call.Args[0])
			}
		}
	}
	c.Cond(ok, key+":chain", pos, "handlers = append(append(make(0), f.handlers...), routeHandlers...)", "the per-request chain is not fresh-make + app middleware + route handlers in that order: "+why)
	// action
	// the method is called on the new context: through the interface the constructor returns, on the
	// concrete *context, or on an interface embedded in it (c.SetParent → c.Injector.SetParent)
	onNew := func(cm *ssa.CallCommon) (bool, []ssa.Value) {
		isNC := vIs(nc.(*ssa.Call))
		if cm.IsInvoke() {
			if isNC(cm.Value) {
				return true, cm.Args
			}
			if r, _, ok := fieldPath(cm.Value); ok && r != nil && isNC(r) {
				return true, cm.Args
			}
			return false, nil
		}
		if len(cm.Args) > 0 && isNC(cm.Args[0]) {
			return true, cm.Args[1:]
		}
		return false, nil
	}
	sa := callsIn(cc, func(n string, cm *ssa.CallCommon) bool {
		return n == "(flamego.internalContext).setAction" || n == "(*flamego.context).setAction"
	})
	okA := false
	for _, s := range sa {
		if on, args := onNew(s.Common()); on && len(args) == 1 && vField(f, "action")(args[0]) {
			okA = true
		}
	}
	c.Cond(okA, key+":action", p.FuncPos(cc), "the context's action is the application's action", "the application's action is not installed on the per-request context")
	// parent scope
	sp := callsIn(cc, func(n string, cm *ssa.CallCommon) bool { return strings.HasSuffix(n, ").SetParent") })
	okP := false
	for _, s := range sp {
		if on, args := onNew(s.Common()); on && len(args) == 1 && f(args[0]) {
			okP = true
		}
	}
	c.Cond(okP, key+":parent", p.FuncPos(cc), "request scope's parent is the application injector", "the request scope is not parented to the application injector")

	// Use keeps registration order: f.handlers = append(f.handlers, handlers...)
	if use := p.Meth("flamego", "Flame", "Use"); use != nil {
		okUse := false
		for _, u := range p.FieldUses(p.Field("flamego", "Flame", "handlers")) {
			if u.Kind != "store" || u.Fn != use {
				continue
			}
			a := asCall(u.Instr.(*ssa.Store).Val)
			okUse = a != nil && callName(&a.Call) == "builtin.append" && vField(vParam(use, 0), "handlers")(a.Call.Args[0]) && (vParam(use, 1)(a.Call.Args[1]) || copyOf(use, a.Call.Args[1], vParam(use, 1), a))
			if !okUse {
				c.Bad(p.FuncKey(use)+":order", p.Pos(u.Instr.Pos()), "Use does not append the new middleware after the existing ones: "+vstr(u.Instr.(*ssa.Store).Val))
			}
		}
		if okUse {
			c.OK(p.FuncKey(use)+":order", p.FuncPos(use), "handlers = append(handlers, new...): middleware runs in registration order", 1)
		}
	} else {
		c.Anchor("Flame.Use")
	}

	// the application middleware stack owns its backing array: every value stored into Flame.handlers is
	// made here or grown from the field itself, never a slice a caller still holds (Use appends in place)
	if fld := p.Field("flamego", "Flame", "handlers"); fld != nil {
		var owned func(v ssa.Value, d int) bool
		owned = func(v ssa.Value, d int) bool {
			if d > 8 {
				return false
			}
			v = strip(v)
			if fieldOf(addrOfLoad(v)) == fld {
				return true
			}
			switch x := v.(type) {
			case *ssa.MakeSlice:
				return true
			case *ssa.Const:
				return x.IsNil()
			case *ssa.Slice:
				return owned(x.X, d+1)
			case *ssa.Phi:
				for _, e := range x.Edges {
					if !owned(e, d+1) {
						return false
					}
				}
				return true
			case *ssa.Call:
				return callName(&x.Call) == "builtin.append" && owned(x.Call.Args[0], d+1)
			}
			return false
		}
		n, bad := 0, 0
		for _, u := range p.FieldUses(fld) {
			if u.Kind != "store" {
				continue
			}
			n++
			if !owned(u.Instr.(*ssa.Store).Val, 0) {
				bad++
				c.Bad(p.FuncKey(u.Fn)+":handlers-owned", p.Pos(u.Instr.Pos()), "Flame.handlers is set to a slice the caller still holds ("+vstr(u.Instr.(*ssa.Store).Val)+"): a later Use() appends into the caller's backing array, so the middleware list of this (or another) instance changes behind its back")
			}
		}
		if bad == 0 {
			c.OK("flamego.Flame.handlers:owned", "flame.go", fmt.Sprintf("%d stores to Flame.handlers: each is made here or grown from the field itself", n), n)
		}
	}

	// the route closure and the not-found closure hand their handler list to the creator and run it
	for _, site := range []struct{ typ, meth string }{{"router", "Route"}, {"router", "NotFound"}} {
		m := p.Meth("flamego", site.typ, site.meth)
		if m == nil {
			c.Anchor("router." + site.meth)
			continue
		}
		found := false
		for _, lit := range m.AnonFuncs {
			for _, ci := range callsIn(lit, func(n string, cm *ssa.CallCommon) bool { return n == "dynamic" }) {
				if !vField(vAny, "contextCreator")(ci.Common().Value) {
					continue
				}
				found = true
				k := p.FuncKey(lit) + ":creates-context"
				hv := ci.Common().Args[3]
				okH := vParam(m, handlersParamIndex(m))(hv) || isAppendOntoFreshThenParam(hv, m) || isHandlersCell(hv, m)
				c.Cond(okH, k, p.Pos(ci.Pos()), "chain closure passes the registration's handler list to the context creator", "chain closure passes "+vstr(hv)+" instead of the registered handler list")
				// the bind values handed to the context are this request's own: the closure's params parameter, or nil
				pv := strip(ci.Common().Args[2])
				okP := vNil(pv)
				if prm, isP := pv.(*ssa.Parameter); isP && prm.Parent() == lit {
					okP = true
				}
				if cv, isCv := pv.(*ssa.ChangeType); isCv {
					if prm, isP := strip(cv.X).(*ssa.Parameter); isP && prm.Parent() == lit {
						okP = true
					}
				}
				if isFresh(pv) {
					if in, isI := pv.(ssa.Instruction); isI && in.Parent() == lit {
						okP = true // made inside the closure: one per request
					}
				}
				c.Cond(okP, p.FuncKey(lit)+":params-per-request", p.Pos(ci.Pos()), "the Params handed to the context are the request's own (the closure's parameter, nil, or made in the closure)", "the chain closure hands every request the same Params object ("+vstr(pv)+", made when the route was registered): what one request stores in it is visible to the next and concurrent requests race on it")
				// .run() on the result
				ran := false
				for _, r := range referrers(ci.(*ssa.Call)) {
					if rc, ok := r.(ssa.CallInstruction); ok && rc.Common().IsInvoke() && p.methodAliasName(rc.Common().Method.Name()) == "run" {
						ran = true
					}
				}
				c.Cond(ran, k+":run", p.Pos(ci.Pos()), "the created context is run", "the created context is never run")
			}
		}
		if !found {
			c.Bad(p.FuncKey(m)+":creates-context", p.FuncPos(m), "no closure calling the context creator found")
		}
	}
}

func handlersParamIndex(m *ssa.Function) int {
	for i, prm := range m.Params {
		if prm.Name() == "handlers" {
			return i
		}
	}
	// fall back: last parameter of slice type
	for i := len(m.Params) - 1; i >= 0; i-- {
		if _, ok := m.Params[i].Type().Underlying().(*types.Slice); ok {
			return i
		}
	}
	return -1
}

// isAppendOntoFreshThenParam recognises φ(param, append(fresh…, param...)) as
// produced by router.Route's group concatenation.
func isAppendOntoFreshThenParam(v ssa.Value, m *ssa.Function) bool {
	hp := handlersParamIndex(m)
	ok := true
	n := 0
	phiLeaves(v, func(l ssa.Value) {
		n++
		if vParam(m, hp)(l) {
			return
		}
		if a := asCall(l); a != nil && callName(&a.Call) == "builtin.append" && vParam(m, hp)(a.Call.Args[1]) && isFresh(a.Call.Args[0]) {
			return
		}
		ok = false
	})
	return ok && n > 0
}

// isHandlersCell: v loads the captured variable that holds the method's
// handlers parameter, every store to which is the parameter itself or
// append(fresh…, <the variable>...) (group concatenation, checked by C11.R2).
func isHandlersCell(v ssa.Value, m *ssa.Function) bool {
	cell := cellOf(v)
	if cell == nil || cell.Parent() != m {
		return false
	}
	hp := vParam(m, handlersParamIndex(m))
	stores := cellStores(cell, 0)
	if len(stores) == 0 {
		return false
	}
	sawParam := false
	ok := true
	for _, st := range stores {
		// a store may merge "unchanged" with the extended list: φ(handlers, append(fresh…, handlers...))
		phiLeaves(st.Val, func(l ssa.Value) {
			if hp(l) {
				sawParam = true
				return
			}
			if u, isU := l.(*ssa.UnOp); isU && u.Op == token.MUL && u.X == ssa.Value(cell) {
				return // the variable's own current value
			}
			a := asCall(l)
			if a == nil || callName(&a.Call) != "builtin.append" {
				ok = false
				return
			}
			if !(cellOf(a.Call.Args[1]) == cell || hp(a.Call.Args[1])) || !isFresh(a.Call.Args[0]) {
				ok = false
			}
		})
	}
	return ok && sawParam
}
