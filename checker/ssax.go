package main

// SSA helper library shared by all rules: callee naming, value matchers,
// condition normalisation, instruction-level reachability with cut edges
// (engines E1/E2), value provenance (E3) and boolean value implication.

import (
	"sync"
	"fmt"
	"go/constant"
	"go/token"
	"go/types"
	"strings"

	"golang.org/x/tools/go/ssa"
)

// ---------------------------------------------------------------- values

// strip removes representation-only wrappers.
func strip(v ssa.Value) ssa.Value {
	for {
		switch x := v.(type) {
		case *ssa.ChangeType:
			v = x.X
		case *ssa.MakeInterface:
			v = x.X
		case *ssa.ChangeInterface:
			v = x.X
		case *ssa.Convert:
			// keep numeric / string conversions that change the value's meaning only
			// when the underlying kinds differ in a meaningful way.
			if sameKindClass(x.X.Type(), x.Type()) {
				v = x.X
			} else {
				return v
			}
		case *ssa.UnOp:
			if x.Op != token.MUL {
				return v
			}
			r := resolveLoad(x)
			if r == nil {
				return v
			}
			v = r
		default:
			return v
		}
	}
}

// resolveLoad sees through loads of spilled locals and captured variables
// that have exactly one store in the whole function nest (parameters spilled
// because a closure captures them, single-assignment locals).
func resolveLoad(u *ssa.UnOp) ssa.Value {
	var cell ssa.Value
	switch a := u.X.(type) {
	case *ssa.Alloc:
		cell = a
	case *ssa.FreeVar:
		cell = freeVarBinding(a)
	}
	for {
		fv, ok := cell.(*ssa.FreeVar)
		if !ok {
			break
		}
		cell = freeVarBinding(fv)
	}
	al, ok := cell.(*ssa.Alloc)
	if !ok {
		return nil
	}
	if _, isStruct := derefT(al.Type()).Underlying().(*types.Struct); isStruct {
		return nil
	}
	if _, isArr := derefT(al.Type()).Underlying().(*types.Array); isArr {
		return nil
	}
	stores := cellStores(al, 0)
	if len(stores) != 1 {
		return nil
	}
	return stores[0].Val
}

func freeVarBinding(fv *ssa.FreeVar) ssa.Value {
	cl := fv.Parent()
	idx := -1
	for i, x := range cl.FreeVars {
		if x == fv {
			idx = i
		}
	}
	if idx < 0 || cl.Parent() == nil {
		return nil
	}
	var out ssa.Value
	n := 0
	allInstrs(cl.Parent(), func(in ssa.Instruction) {
		if mc, ok := in.(*ssa.MakeClosure); ok && mc.Fn == cl {
			out = mc.Bindings[idx]
			n++
		}
	})
	if n != 1 {
		return nil
	}
	return out
}

// cellStores lists stores to a variable cell, including stores made by
// closures capturing it.
func cellStores(cell ssa.Value, depth int) []*ssa.Store {
	var out []*ssa.Store
	if depth > 4 {
		return nil
	}
	for _, r := range referrers(cell) {
		switch x := r.(type) {
		case *ssa.Store:
			if x.Addr == cell {
				out = append(out, x)
			}
		case *ssa.MakeClosure:
			for i, b := range x.Bindings {
				if b == cell {
					out = append(out, cellStores(x.Fn.(*ssa.Function).FreeVars[i], depth+1)...)
				}
			}
		}
	}
	return out
}

func sameKindClass(a, b types.Type) bool {
	ab, ok1 := a.Underlying().(*types.Basic)
	bb, ok2 := b.Underlying().(*types.Basic)
	if !ok1 || !ok2 {
		return types.Identical(a.Underlying(), b.Underlying())
	}
	ai := ab.Info()&types.IsInteger != 0
	bi := bb.Info()&types.IsInteger != 0
	if ai && bi {
		return true
	}
	as := ab.Info()&types.IsString != 0
	bs := bb.Info()&types.IsString != 0
	return as && bs
}

// shortPkg rewrites module package paths in a qualified name to short names.
func shortName(s string) string {
	s = strings.ReplaceAll(s, modPath+"/internal/route", "route")
	s = strings.ReplaceAll(s, modPath+"/inject", "inject")
	s = strings.ReplaceAll(s, modPath, "flamego")
	return s
}

// callName names the callee of a call: "(*regexp.Regexp).FindStringSubmatch",
// "net/url.PathUnescape", "(route.Leaf).match" (interface invoke),
// "builtin.append", or "dynamic" for calls of function values.
func callName(c *ssa.CallCommon) string {
	if c.IsInvoke() {
		return shortName(c.Method.FullName())
	}
	switch f := c.Value.(type) {
	case *ssa.Function:
		if a, ok := funcAlias.Load(f); ok {
			return a.(string)
		}
		if f.Object() != nil {
			if fo, ok := f.Object().(*types.Func); ok {
				return shortName(fo.FullName())
			}
		}
		if f.Parent() != nil {
			return "literal"
		}
		return shortName(f.String())
	case *ssa.Builtin:
		return "builtin." + f.Name()
	case *ssa.MakeClosure:
		return "literal"
	}
	return "dynamic"
}

// callArgs returns receiver (for invoke and methods) followed by arguments.
func callArgs(c *ssa.CallCommon) []ssa.Value {
	if c.IsInvoke() {
		return append([]ssa.Value{c.Value}, c.Args...)
	}
	return c.Args
}

// asCall returns the call instruction producing v (through Extract), or nil.
func asCall(v ssa.Value) *ssa.Call {
	v = strip(v)
	if e, ok := v.(*ssa.Extract); ok {
		v = e.Tuple
	}
	c, _ := v.(*ssa.Call)
	return c
}

// allInstrs calls f for every instruction of fn (not of nested literals).
func allInstrs(fn *ssa.Function, f func(ssa.Instruction)) {
	for _, b := range fn.Blocks {
		for _, in := range b.Instrs {
			f(in)
		}
	}
}

// withLits returns fn and all function literals nested in it.
func withLits(fn *ssa.Function) []*ssa.Function {
	out := []*ssa.Function{fn}
	for _, a := range fn.AnonFuncs {
		out = append(out, withLits(a)...)
	}
	return out
}

// callsIn lists call-like instructions (call, defer, go) of fn whose callee
// name satisfies pred.
func callsIn(fn *ssa.Function, pred func(name string, c *ssa.CallCommon) bool) []ssa.CallInstruction {
	var out []ssa.CallInstruction
	allInstrs(fn, func(in ssa.Instruction) {
		if ci, ok := in.(ssa.CallInstruction); ok {
			if pred(callName(ci.Common()), ci.Common()) {
				out = append(out, ci)
			}
		}
	})
	return out
}

func callsNamed(fn *ssa.Function, names ...string) []ssa.CallInstruction {
	return callsIn(fn, func(n string, _ *ssa.CallCommon) bool {
		for _, x := range names {
			if n == x {
				return true
			}
		}
		return false
	})
}

func numInstrs(fn *ssa.Function) int {
	n := 0
	for _, b := range fn.Blocks {
		n += len(b.Instrs)
	}
	return n
}

// fieldPath decomposes a field read/address into root value and field names
// (embedded hops removed). It accepts *(&root.f.g), root.f.g on struct values,
// and bare addresses &root.f.g.
func fieldPath(v ssa.Value) (root ssa.Value, names []string, ok bool) {
	v = strip(v)
	if u, isU := v.(*ssa.UnOp); isU && u.Op == token.MUL {
		v = u.X
	}
	cur := v
	for {
		cur = strip(cur)
		switch x := cur.(type) {
		case *ssa.FieldAddr:
			st := derefT(x.X.Type()).Underlying().(*types.Struct)
			f := st.Field(x.Field)
			if !f.Embedded() || len(names) == 0 {
				names = append([]string{aliasedFieldName(f)}, names...)
			}
			cur = x.X
			continue
		case *ssa.Field:
			st := x.X.Type().Underlying().(*types.Struct)
			f := st.Field(x.Field)
			if !f.Embedded() || len(names) == 0 {
				names = append([]string{aliasedFieldName(f)}, names...)
			}
			cur = x.X
			continue
		case *ssa.UnOp:
			// load of an embedded pointer field or of a spilled struct
			if x.Op == token.MUL {
				if _, isFA := x.X.(*ssa.FieldAddr); isFA {
					cur = x.X
					continue
				}
			}
		case *ssa.Call:
			// a trivial getter of the module (func (x *T) getF() F { return x.f }) reads the field
			if g := trivialGetter(x.Call.StaticCallee()); g != "" && len(x.Call.Args) == 1 {
				names = append([]string{g}, names...)
				cur = x.Call.Args[0]
				continue
			}
		}
		break
	}
	if len(names) == 0 {
		return nil, nil, false
	}
	return cur, names, true
}

var getterCache sync.Map // *ssa.Function -> string

// trivialGetter returns the field name when f only returns one field of its receiver.
func trivialGetter(f *ssa.Function) string {
	if f == nil || f.Pkg == nil || len(f.Blocks) != 1 || len(f.Params) != 1 || f.Signature.Recv() == nil {
		return ""
	}
	if _, isMod := pkgShort[f.Pkg.Pkg.Path()]; !isMod {
		return ""
	}
	if v, ok := getterCache.Load(f); ok {
		return v.(string)
	}
	name := ""
	var ret *ssa.Return
	simple := true
	for _, in := range f.Blocks[0].Instrs {
		switch x := in.(type) {
		case *ssa.FieldAddr, *ssa.Field, *ssa.DebugRef:
		case *ssa.UnOp:
			if x.Op != token.MUL {
				simple = false
			}
		case *ssa.Return:
			ret = x
		default:
			simple = false
		}
	}
	if simple && ret != nil && len(ret.Results) == 1 {
		getterCache.Store(f, "") // guard against recursion
		if r, ns, ok := fieldPath(ret.Results[0]); ok && len(ns) == 1 && r == ssa.Value(f.Params[0]) {
			name = ns[0]
		}
	}
	getterCache.Store(f, name)
	return name
}

// ---------------------------------------------------------------- matchers

type VM func(v ssa.Value) bool

func vAny(ssa.Value) bool { return true }

func vIs(x ssa.Value) VM { return func(v ssa.Value) bool { return strip(v) == strip(x) } }

func vParam(fn *ssa.Function, i int) VM {
	return func(v ssa.Value) bool {
		return i < len(fn.Params) && strip(v) == ssa.Value(fn.Params[i])
	}
}

func vConstInt(n int64) VM {
	return func(v ssa.Value) bool {
		c, ok := strip(v).(*ssa.Const)
		if !ok || c.Value == nil || c.Value.Kind() != constant.Int {
			return false
		}
		x, exact := constant.Int64Val(c.Value)
		return exact && x == n
	}
}

func vConstStr(s string) VM {
	return func(v ssa.Value) bool {
		c, ok := strip(v).(*ssa.Const)
		if !ok || c.Value == nil || c.Value.Kind() != constant.String {
			return false
		}
		return constant.StringVal(c.Value) == s
	}
}

func vConstBool(b bool) VM {
	return func(v ssa.Value) bool {
		c, ok := strip(v).(*ssa.Const)
		if !ok || c.Value == nil || c.Value.Kind() != constant.Bool {
			return false
		}
		return constant.BoolVal(c.Value) == b
	}
}

func vNil(v ssa.Value) bool {
	c, ok := strip(v).(*ssa.Const)
	return ok && c.Value == nil
}

func constInt(v ssa.Value) (int64, bool) {
	c, ok := strip(v).(*ssa.Const)
	if !ok || c.Value == nil || c.Value.Kind() != constant.Int {
		return 0, false
	}
	return constant.Int64Val(c.Value)
}

func constStr(v ssa.Value) (string, bool) {
	c, ok := strip(v).(*ssa.Const)
	if !ok || c.Value == nil || c.Value.Kind() != constant.String {
		return "", false
	}
	return constant.StringVal(c.Value), true
}

// vCall matches the result of a call to name whose (receiver+)arguments match.
// Fewer matchers than arguments means the rest are unconstrained.
func vCall(name string, args ...VM) VM {
	return func(v ssa.Value) bool {
		c := asCall(v)
		if c == nil || callName(&c.Call) != name {
			return false
		}
		as := callArgs(&c.Call)
		for i, m := range args {
			if i >= len(as) || !m(as[i]) {
				return false
			}
		}
		return true
	}
}

// vExtract matches element idx of a tuple matched by inner.
func vExtract(idx int, inner VM) VM {
	return func(v ssa.Value) bool {
		e, ok := strip(v).(*ssa.Extract)
		return ok && e.Index == idx && inner(e.Tuple)
	}
}

// vField matches a read of root.f1.f2… (embedded hops ignored).
func vField(root VM, names ...string) VM {
	return func(v ssa.Value) bool {
		r, ns, ok := fieldPath(v)
		if !ok || len(ns) != len(names) {
			return false
		}
		for i := range ns {
			if ns[i] != names[i] {
				return false
			}
		}
		return root(r)
	}
}

func vBin(op token.Token, x, y VM) VM {
	return func(v ssa.Value) bool {
		b, ok := strip(v).(*ssa.BinOp)
		if !ok || b.Op != op {
			return false
		}
		if x(b.X) && y(b.Y) {
			return true
		}
		if op == token.ADD || op == token.MUL || op == token.EQL || op == token.NEQ {
			if _, isStr := b.X.Type().Underlying().(*types.Basic); isStr && b.X.Type().Underlying().(*types.Basic).Info()&types.IsString != 0 && op == token.ADD {
				return false // string concatenation is not commutative
			}
			return x(b.Y) && y(b.X)
		}
		return false
	}
}

func vLen(x VM) VM { return vCall("builtin.len", x) }

func vOr(ms ...VM) VM {
	return func(v ssa.Value) bool {
		for _, m := range ms {
			if m(v) {
				return true
			}
		}
		return false
	}
}

// vPhiAll matches a value all of whose phi-leaves match m (a non-phi value is
// its own single leaf).
func vPhiAll(m VM) VM {
	return func(v ssa.Value) bool {
		ok := true
		phiLeaves(v, func(l ssa.Value) {
			if !m(l) {
				ok = false
			}
		})
		return ok
	}
}

func phiLeaves(v ssa.Value, f func(ssa.Value)) {
	seen := map[ssa.Value]bool{}
	var walk func(ssa.Value)
	walk = func(x ssa.Value) {
		x = strip(x)
		if seen[x] {
			return
		}
		seen[x] = true
		if p, ok := x.(*ssa.Phi); ok {
			for _, e := range p.Edges {
				walk(e)
			}
			return
		}
		f(x)
	}
	walk(v)
}

// vstr renders a value as a short normal form for diagnostics.
func vstr(v ssa.Value) string { return vstrD(v, 0) }

func vstrD(v ssa.Value, d int) string {
	if v == nil {
		return "<nil>"
	}
	if d > 6 {
		return "…"
	}
	v = strip(v)
	switch x := v.(type) {
	case *ssa.Const:
		if x.Value == nil {
			return "nil"
		}
		return x.Value.String()
	case *ssa.Parameter:
		return "param:" + x.Name()
	case *ssa.FreeVar:
		return "free:" + x.Name()
	case *ssa.Global:
		return "global:" + x.Name()
	case *ssa.BinOp:
		return "(" + vstrD(x.X, d+1) + " " + x.Op.String() + " " + vstrD(x.Y, d+1) + ")"
	case *ssa.UnOp:
		if x.Op == token.MUL {
			if r, ns, ok := fieldPath(x); ok {
				return vstrD(r, d+1) + "." + strings.Join(ns, ".")
			}
			return "*" + vstrD(x.X, d+1)
		}
		return x.Op.String() + vstrD(x.X, d+1)
	case *ssa.FieldAddr, *ssa.Field:
		if r, ns, ok := fieldPath(x); ok {
			return "&" + vstrD(r, d+1) + "." + strings.Join(ns, ".")
		}
	case *ssa.Call:
		as := []string{}
		for _, a := range callArgs(&x.Call) {
			as = append(as, vstrD(a, d+1))
		}
		return callName(&x.Call) + "(" + strings.Join(as, ", ") + ")"
	case *ssa.Extract:
		return vstrD(x.Tuple, d+1) + fmt.Sprintf("#%d", x.Index)
	case *ssa.Phi:
		es := []string{}
		for _, e := range x.Edges {
			es = append(es, vstrD(e, d+2))
		}
		return "φ(" + strings.Join(es, " | ") + ")"
	case *ssa.IndexAddr:
		return "&" + vstrD(x.X, d+1) + "[" + vstrD(x.Index, d+1) + "]"
	case *ssa.Index:
		return vstrD(x.X, d+1) + "[" + vstrD(x.Index, d+1) + "]"
	case *ssa.Lookup:
		return vstrD(x.X, d+1) + "[" + vstrD(x.Index, d+1) + "]"
	case *ssa.Slice:
		lo, hi := "", ""
		if x.Low != nil {
			lo = vstrD(x.Low, d+1)
		}
		if x.High != nil {
			hi = vstrD(x.High, d+1)
		}
		return vstrD(x.X, d+1) + "[" + lo + ":" + hi + "]"
	case *ssa.Alloc:
		return "alloc:" + x.Comment
	case *ssa.MakeMap:
		return "makemap"
	case *ssa.MakeSlice:
		return "makeslice"
	case *ssa.MakeClosure:
		return "closure:" + x.Fn.Name()
	case *ssa.Function:
		return "func:" + x.Name()
	case *ssa.TypeAssert:
		return vstrD(x.X, d+1) + ".(" + shortName(x.AssertedType.String()) + ")"
	}
	return v.Name()
}

// ---------------------------------------------------------------- conditions

// CondM recognises a boolean value as predicate P (pos=true) or ¬P (pos=false).
type CondM func(v ssa.Value) (match, pos bool)

func negOp(op token.Token) token.Token {
	switch op {
	case token.EQL:
		return token.NEQ
	case token.NEQ:
		return token.EQL
	case token.LSS:
		return token.GEQ
	case token.GEQ:
		return token.LSS
	case token.GTR:
		return token.LEQ
	case token.LEQ:
		return token.GTR
	}
	return token.ILLEGAL
}

func swapOp(op token.Token) token.Token {
	switch op {
	case token.LSS:
		return token.GTR
	case token.GTR:
		return token.LSS
	case token.LEQ:
		return token.GEQ
	case token.GEQ:
		return token.LEQ
	}
	return op
}

// unNot strips boolean negations, returning the inner value and polarity.
func unNot(v ssa.Value) (ssa.Value, bool) {
	pos := true
	for {
		v = strip(v)
		u, ok := v.(*ssa.UnOp)
		if !ok || u.Op != token.NOT {
			return v, pos
		}
		v = u.X
		pos = !pos
	}
}

// cCmp recognises "x op y" in any spelling (swapped operands, negated
// operator, leading !).
func cCmp(op token.Token, x, y VM) CondM {
	return func(v ssa.Value) (bool, bool) {
		inner, pos := unNot(v)
		type form struct {
			op   token.Token
			l, r ssa.Value
		}
		var forms []form
		if c, k, _, isCut := cutPart(inner); isCut && k == 2 {
			// found of strings.Cut(s, sep) is Index(s, sep) >= 0, with len(before) standing for the index
			at := cutLenOf(c)
			if at == nil {
				return false, false
			}
			forms = []form{{token.GEQ, at, ssa.NewConst(constant.MakeInt64(0), types.Typ[types.Int])}, {token.LEQ, ssa.NewConst(constant.MakeInt64(0), types.Typ[types.Int]), at}}
		} else {
			b, ok := inner.(*ssa.BinOp)
			if !ok {
				return false, false
			}
			forms = []form{{b.Op, b.X, b.Y}, {swapOp(b.Op), b.Y, b.X}}
		}
		// x < e+1 is x <= e, x >= e+1 is x > e (integers); e+1 <= y is e < y, e+1 > y is e >= y
		for _, f := range forms[:2] {
			if e, ok := plusOne(f.r); ok {
				switch f.op {
				case token.LSS:
					forms = append(forms, form{token.LEQ, f.l, e})
				case token.GEQ:
					forms = append(forms, form{token.GTR, f.l, e})
				}
			}
			if e, ok := plusOne(f.l); ok {
				switch f.op {
				case token.LEQ:
					forms = append(forms, form{token.LSS, e, f.r})
				case token.GTR:
					forms = append(forms, form{token.GEQ, e, f.r})
				}
			}
		}
		for _, f := range forms {
			if !x(f.l) || !y(f.r) {
				continue
			}
			if f.op == op {
				return true, pos
			}
			if f.op == negOp(op) {
				return true, !pos
			}
		}
		// comparisons with an integer constant in another spelling: len(x) != 0 for len(x) > 0,
		// i <= 0 for i < 1, …
		for _, f := range forms[:2] {
			cst, isC := strip(f.r).(*ssa.Const)
			if !isC || cst.Value == nil || !isIntT(cst.Type()) || !x(f.l) {
				continue
			}
			c2 := cst.Int64()
			var lb *int64
			if _, _, isCutIdx := cutIndexValue(f.l); isCutIdx {
				// stands for the result of Index: -1 where the separator is absent
				z := int64(-1)
				lb = &z
			} else if vCall("builtin.len", vAny)(f.l) || vCall("builtin.cap", vAny)(f.l) {
				z := int64(0)
				lb = &z
			} else if isSearchResult(f.l) {
				z := int64(-1)
				lb = &z
			}
			nonneg := lb
			k2, n2, p2, ok2 := normCmp(f.op, c2, nonneg)
			if !ok2 {
				continue
			}
			for _, k := range []int64{c2 - 1, c2, c2 + 1} {
				if !y(ssa.NewConst(constant.MakeInt64(k), cst.Type())) {
					continue
				}
				k1, n1, p1, ok1 := normCmp(op, k, nonneg)
				if ok1 && k1 == k2 && n1 == n2 {
					return true, pos == (p1 == p2)
				}
			}
		}
		return false, false
	}
}

// plusOne matches e + 1 / 1 + e and returns e.
func plusOne(v ssa.Value) (ssa.Value, bool) {
	b, ok := strip(v).(*ssa.BinOp)
	if !ok || b.Op != token.ADD {
		return nil, false
	}
	if vConstInt(1)(b.Y) {
		return b.X, true
	}
	if vConstInt(1)(b.X) {
		return b.Y, true
	}
	return nil, false
}

// normCmp brings "l op c" (integers) to one of the forms l < n / l == n, with a polarity.
func normCmp(op token.Token, c int64, lb *int64) (kind string, n int64, pos bool, ok bool) {
	switch op {
	case token.LSS:
		return "lt", c, true, true
	case token.GEQ:
		return "lt", c, false, true
	case token.LEQ:
		return "lt", c + 1, true, true
	case token.GTR:
		return "lt", c + 1, false, true
	case token.EQL:
		if lb != nil && c == *lb {
			return "lt", c + 1, true, true
		}
		return "eq", c, true, true
	case token.NEQ:
		if lb != nil && c == *lb {
			return "lt", c + 1, false, true
		}
		return "eq", c, false, true
	}
	return "", 0, false, false
}

// cBool recognises a boolean value matched by m (possibly negated).
func cBool(m VM) CondM {
	return func(v ssa.Value) (bool, bool) {
		inner, pos := unNot(v)
		if m(inner) {
			return true, pos
		}
		// x == true / x != false spellings
		if b, ok := inner.(*ssa.BinOp); ok && (b.Op == token.EQL || b.Op == token.NEQ) {
			for _, pr := range [][2]ssa.Value{{b.X, b.Y}, {b.Y, b.X}} {
				if m(pr[0]) {
					if vConstBool(true)(pr[1]) {
						return true, pos == (b.Op == token.EQL)
					}
					if vConstBool(false)(pr[1]) {
						return true, pos != (b.Op == token.EQL)
					}
				}
			}
		}
		return false, false
	}
}

func cNot(m CondM) CondM {
	return func(v ssa.Value) (bool, bool) {
		ok, pos := m(v)
		return ok, !pos
	}
}

type Edge struct {
	B *ssa.BasicBlock
	S int
}

type EdgeSet map[Edge]bool

func (e EdgeSet) addAll(o EdgeSet) EdgeSet {
	for k := range o {
		e[k] = true
	}
	return e
}

func union(sets ...EdgeSet) EdgeSet {
	out := EdgeSet{}
	for _, s := range sets {
		out.addAll(s)
	}
	return out
}

// edgesWhere returns the CFG edges of fn taken exactly when predicate m
// holds (holds=true) or fails (holds=false).
func edgesWhere(fn *ssa.Function, m CondM, holds bool) EdgeSet {
	out := edgesWhereDirect(fn, m, holds)
	// a branch on a boolean that is a φ of constants and of values of the predicate (the shape
	// `ok := a && b` / `flag := cond; …; if flag` takes): its true side implies the predicate too
	// when every way of making the φ true passes an edge found above or is the predicate itself.
	isGuard := func(v ssa.Value) bool {
		match, pos := m(v)
		return match && pos == holds
	}
	for _, b := range fn.Blocks {
		if len(b.Instrs) == 0 {
			continue
		}
		ifi, ok := b.Instrs[len(b.Instrs)-1].(*ssa.If)
		if !ok {
			continue
		}
		inner, pos := unNot(ifi.Cond)
		ph, isPhi := inner.(*ssa.Phi)
		if !isPhi {
			continue
		}
		if match, _ := m(ifi.Cond); match {
			continue
		}
		if ok2, _ := boolImplies(fn, ph, b, isGuard, out); ok2 && phiHasNonConst(ph) {
			if pos {
				out[Edge{b, 0}] = true
			} else {
				out[Edge{b, 1}] = true
			}
		}
	}
	return out
}

// phiHasNonConst: the φ is not a pure constant flag (those are handled by flagTrueEdges).
func phiHasNonConst(ph *ssa.Phi) bool {
	seen := map[*ssa.Phi]bool{}
	var walk func(p *ssa.Phi) bool
	walk = func(p *ssa.Phi) bool {
		if seen[p] {
			return false
		}
		seen[p] = true
		for _, e := range p.Edges {
			switch x := e.(type) {
			case *ssa.Const:
			case *ssa.Phi:
				if walk(x) {
					return true
				}
			default:
				return true
			}
		}
		return false
	}
	return walk(ph)
}

func edgesWhereDirect(fn *ssa.Function, m CondM, holds bool) EdgeSet {
	out := EdgeSet{}
	for _, b := range fn.Blocks {
		if len(b.Instrs) == 0 {
			continue
		}
		ifi, ok := b.Instrs[len(b.Instrs)-1].(*ssa.If)
		if !ok {
			continue
		}
		match, pos := m(ifi.Cond)
		if !match {
			continue
		}
		if pos == holds {
			out[Edge{b, 0}] = true
		} else {
			out[Edge{b, 1}] = true
		}
	}
	return out
}

// ---------------------------------------------------------------- reachability

type Query struct {
	Fn    *ssa.Function
	Cut   EdgeSet
	Avoid func(ssa.Instruction) bool
}

func instrIndex(in ssa.Instruction) int {
	for i, x := range in.Block().Instrs {
		if x == in {
			return i
		}
	}
	return -1
}

// Reach searches forward from (b, i) for an instruction satisfying target,
// never passing an instruction for which Avoid holds and never taking a cut
// edge. It returns the instruction found and the block path to it.
func (q Query) Reach(b *ssa.BasicBlock, i int, target func(ssa.Instruction) bool) (ssa.Instruction, []*ssa.BasicBlock) {
	type item struct {
		b    *ssa.BasicBlock
		i    int
		prev *item
	}
	visited := map[*ssa.BasicBlock]bool{}
	queue := []*item{{b, i, nil}}
	if i == 0 {
		visited[b] = true
	}
	pathOf := func(it *item) []*ssa.BasicBlock {
		var p []*ssa.BasicBlock
		for x := it; x != nil; x = x.prev {
			p = append([]*ssa.BasicBlock{x.b}, p...)
		}
		return p
	}
	for len(queue) > 0 {
		it := queue[0]
		queue = queue[1:]
		blocked := false
		for k := it.i; k < len(it.b.Instrs); k++ {
			in := it.b.Instrs[k]
			if q.Avoid != nil && q.Avoid(in) {
				blocked = true
				break
			}
			if target(in) {
				return in, pathOf(it)
			}
		}
		if blocked {
			continue
		}
		for s, nb := range it.b.Succs {
			if q.Cut[Edge{it.b, s}] {
				continue
			}
			if visited[nb] {
				continue
			}
			visited[nb] = true
			queue = append(queue, &item{nb, 0, it})
		}
	}
	return nil, nil
}

// FromEntry searches from the function entry.
func (q Query) FromEntry(target func(ssa.Instruction) bool) (ssa.Instruction, []*ssa.BasicBlock) {
	if len(q.Fn.Blocks) == 0 {
		return nil, nil
	}
	return q.Reach(q.Fn.Blocks[0], 0, target)
}

// After searches from just after instruction in.
func (q Query) After(in ssa.Instruction, target func(ssa.Instruction) bool) (ssa.Instruction, []*ssa.BasicBlock) {
	return q.Reach(in.Block(), instrIndex(in)+1, target)
}

func isInstr(x ssa.Instruction) func(ssa.Instruction) bool {
	return func(in ssa.Instruction) bool { return in == x }
}

func inSet(xs []ssa.Instruction) func(ssa.Instruction) bool {
	m := map[ssa.Instruction]bool{}
	for _, x := range xs {
		m[x] = true
	}
	return func(in ssa.Instruction) bool { return m[in] }
}

func isReturn(in ssa.Instruction) bool { _, ok := in.(*ssa.Return); return ok }

func blockPath(bs []*ssa.BasicBlock) string {
	var s []string
	for _, b := range bs {
		c := b.Comment
		if c == "" {
			c = "b"
		}
		s = append(s, fmt.Sprintf("%d:%s", b.Index, c))
	}
	return strings.Join(s, " → ")
}

// mustPrecede: every path from entry to b executes some instruction of A first.
func mustPrecede(fn *ssa.Function, A func(ssa.Instruction) bool, b ssa.Instruction) (bool, string) {
	in, path := Query{Fn: fn, Avoid: A}.FromEntry(isInstr(b))
	if in != nil {
		return false, blockPath(path)
	}
	return true, ""
}

// mustFollow: every path from a to a normal return executes some instruction of B.
func mustFollow(fn *ssa.Function, a ssa.Instruction, B func(ssa.Instruction) bool) (bool, string) {
	in, path := Query{Fn: fn, Avoid: B}.After(a, isReturn)
	if in != nil {
		return false, blockPath(path)
	}
	return true, ""
}

// guardedBy: target unreachable from entry once the edges in cut are removed.
func guardedBy(fn *ssa.Function, cut EdgeSet, target func(ssa.Instruction) bool) (bool, string) {
	in, path := Query{Fn: fn, Cut: cut}.FromEntry(target)
	if in == nil {
		return true, ""
	}
	// a boolean flag that is set only after a cut edge was passed stands for that edge
	// (found := false; …; if c { found = true }; …; if found { target })
	if len(cut) > 0 {
		ext := union(cut)
		for i := 0; i < 3; i++ {
			more := flagTrueEdges(fn, ext)
			n := len(ext)
			ext.addAll(more)
			if len(ext) == n {
				break
			}
		}
		if len(ext) > len(cut) {
			if in2, _ := (Query{Fn: fn, Cut: ext}).FromEntry(target); in2 == nil {
				return true, ""
			}
		}
	}
	return false, blockPath(path)
}

// ---------------------------------------------------------------- bool implication

// boolImplies reports whether boolean value v being true implies that some
// guard edge in g (edges on which the guard predicate holds) was taken, or
// that v is the guard value itself (isGuard). useBlock is the block in which v
// is consumed (for constants).
func boolImplies(fn *ssa.Function, v ssa.Value, useBlock *ssa.BasicBlock, isGuard VM, g EdgeSet) (bool, string) {
	return boolImpliesX(fn, v, useBlock, true, isGuard, nil, g)
}

// boolImpliesX: v having the truth value `when` implies that a guard edge in g was taken, or that v is a
// value whose being true (guardIfTrue) / false (guardIfFalse) is the guard itself.
func boolImpliesX(fn *ssa.Function, v ssa.Value, useBlock *ssa.BasicBlock, when bool, guardIfTrue, guardIfFalse VM, g EdgeSet) (bool, string) {
	isGuard := guardIfTrue
	seen := map[ssa.Value]bool{}
	var rec func(v ssa.Value, blk *ssa.BasicBlock) (bool, string)
	var recFalse func(v ssa.Value, blk *ssa.BasicBlock, depth int) (bool, string)
	blockGuarded := func(blk *ssa.BasicBlock) bool {
		if len(fn.Blocks) == 0 {
			return false
		}
		if blk == fn.Blocks[0] {
			return false
		}
		in, _ := Query{Fn: fn, Cut: g}.FromEntry(func(in ssa.Instruction) bool { return in.Block() == blk })
		return in == nil
	}
	rec = func(v ssa.Value, blk *ssa.BasicBlock) (bool, string) {
		v = strip(v)
		if vConstBool(false)(v) {
			return true, ""
		}
		if isGuard != nil && isGuard(v) {
			return true, ""
		}
		if vConstBool(true)(v) {
			if blockGuarded(blk) {
				return true, ""
			}
			return false, fmt.Sprintf("constant true reaches block %d without passing the guard", blk.Index)
		}
		switch x := v.(type) {
		case *ssa.Phi:
			if seen[x] {
				return true, ""
			}
			seen[x] = true
			for i, e := range x.Edges {
				pred := x.Block().Preds[i]
				// the value e flows along edge pred→phi block; if that edge itself is
				// only reachable through the guard, any value is fine.
				if edgeGuarded(fn, g, pred, x.Block()) {
					continue
				}
				if ok, why := rec(e, pred); !ok {
					return false, why
				}
			}
			return true, ""
		case *ssa.BinOp:
			if x.Op == token.AND || x.Op == token.LAND {
				if ok, _ := rec(x.X, blk); ok {
					return true, ""
				}
				return rec(x.Y, blk)
			}
		}
		// !x is true when x is false: every way for x to be false must pass the guard
		if u, ok := v.(*ssa.UnOp); ok && u.Op == token.NOT {
			if ok, _ := recFalse(u.X, blk, 0); ok {
				return true, ""
			}
		}
		if blockGuarded(blk) {
			return true, ""
		}
		return false, fmt.Sprintf("value %s can be true without the guard", vstr(v))
	}
	// recFalse: v being false implies the guard.
	recFalse = func(v ssa.Value, blk *ssa.BasicBlock, depth int) (bool, string) {
		v = strip(v)
		if depth > 8 {
			return false, "too deep"
		}
		if vConstBool(true)(v) {
			return true, ""
		}
		if vConstBool(false)(v) {
			if blockGuarded(blk) {
				return true, ""
			}
			return false, fmt.Sprintf("constant false reaches block %d without passing the guard", blk.Index)
		}
		if guardIfFalse != nil && guardIfFalse(v) {
			return true, ""
		}
		switch x := v.(type) {
		case *ssa.UnOp:
			if x.Op == token.NOT {
				return rec(x.X, blk)
			}
		case *ssa.Phi:
			for i, e := range x.Edges {
				pred := x.Block().Preds[i]
				if edgeGuarded(fn, g, pred, x.Block()) {
					continue
				}
				if ok, why := recFalse(e, pred, depth+1); !ok {
					return false, why
				}
			}
			return true, ""
		}
		if blockGuarded(blk) {
			return true, ""
		}
		return false, fmt.Sprintf("value %s can be false without the guard", vstr(v))
	}
	if !when {
		return recFalse(v, useBlock, 0)
	}
	return rec(v, useBlock)
}

// edgeGuarded: the CFG edge from→to cannot be taken once the guard edges are cut.
func edgeGuarded(fn *ssa.Function, g EdgeSet, from, to *ssa.BasicBlock) bool {
	// is `from` reachable at all?
	reachableFrom := from == fn.Blocks[0]
	if !reachableFrom {
		in, _ := Query{Fn: fn, Cut: g}.FromEntry(func(in ssa.Instruction) bool { return in.Block() == from })
		reachableFrom = in != nil
	}
	if !reachableFrom {
		return true
	}
	for s, nb := range from.Succs {
		if nb == to && !g[Edge{from, s}] {
			return false
		}
	}
	return true
}

// ---------------------------------------------------------------- stores / effects

// addrRoot walks an address expression to its root object.
// path holds field names / "[]" for index steps / "*" for pointer loads.
func addrRoot(a ssa.Value) (root ssa.Value, path []string) {
	cur := a
	for i := 0; i < 64; i++ {
		cur = strip(cur)
		switch x := cur.(type) {
		case *ssa.FieldAddr:
			st := derefT(x.X.Type()).Underlying().(*types.Struct)
			path = append([]string{st.Field(x.Field).Name()}, path...)
			cur = x.X
		case *ssa.Field:
			st := x.X.Type().Underlying().(*types.Struct)
			path = append([]string{st.Field(x.Field).Name()}, path...)
			cur = x.X
		case *ssa.IndexAddr:
			path = append([]string{"[]"}, path...)
			cur = x.X
		case *ssa.Index:
			path = append([]string{"[]"}, path...)
			cur = x.X
		case *ssa.Slice:
			cur = x.X
		case *ssa.UnOp:
			if x.Op == token.MUL {
				path = append([]string{"*"}, path...)
				cur = x.X
			} else {
				return cur, path
			}
		default:
			return cur, path
		}
	}
	return cur, path
}

// ownerType returns the named struct type that directly contains the stored
// location (the innermost named struct on the address path), or nil.
func ownerNamed(a ssa.Value) *types.Named {
	cur := strip(a)
	for i := 0; i < 64; i++ {
		switch x := cur.(type) {
		case *ssa.FieldAddr:
			if n, ok := derefT(x.X.Type()).(*types.Named); ok {
				return n
			}
			cur = strip(x.X)
		case *ssa.IndexAddr:
			cur = strip(x.X)
		case *ssa.UnOp:
			cur = strip(x.X)
		case *ssa.Slice:
			cur = strip(x.X)
		default:
			return nil
		}
	}
	return nil
}

// isFresh reports whether v is an allocation of the current activation on
// every phi path (Alloc, MakeMap, MakeSlice, MakeChan, composite literal,
// append onto such). Cycles through loop phis are treated optimistically.
func isFresh(v ssa.Value) bool {
	seen := map[ssa.Value]bool{}
	var rec func(v ssa.Value) bool
	rec = func(v ssa.Value) bool {
		v = strip(v)
		if seen[v] {
			return true
		}
		seen[v] = true
		switch x := v.(type) {
		case *ssa.Alloc, *ssa.MakeMap, *ssa.MakeSlice, *ssa.MakeChan, *ssa.MakeClosure:
			return true
		case *ssa.Slice:
			return rec(x.X)
		case *ssa.Phi:
			for _, e := range x.Edges {
				if !rec(e) {
					return false
				}
			}
			return len(x.Edges) > 0
		case *ssa.Call:
			if callName(&x.Call) == "builtin.append" {
				return rec(x.Call.Args[0])
			}
		}
		return false
	}
	return rec(v)
}

// cellOf returns the variable cell (Alloc) that v is a load of, looking
// through closure captures; nil if v is not a load of a local variable.
func cellOf(v ssa.Value) *ssa.Alloc {
	for {
		switch x := v.(type) {
		case *ssa.ChangeType:
			v = x.X
			continue
		case *ssa.MakeInterface:
			v = x.X
			continue
		case *ssa.ChangeInterface:
			v = x.X
			continue
		}
		break
	}
	u, ok := v.(*ssa.UnOp)
	if !ok || u.Op != token.MUL {
		return nil
	}
	cell := u.X
	for {
		fv, ok := cell.(*ssa.FreeVar)
		if !ok {
			break
		}
		cell = freeVarBinding(fv)
	}
	al, _ := cell.(*ssa.Alloc)
	return al
}

// referrers returns instructions that use v (nil-safe).
func referrers(v ssa.Value) []ssa.Instruction {
	r := v.Referrers()
	if r == nil {
		return nil
	}
	return *r
}

// ---------------------------------------------------------------- field uses

type FieldUse struct {
	Fn    *ssa.Function
	Sel   ssa.Value       // the FieldAddr / Field instruction
	Instr ssa.Instruction // the using instruction
	Kind  string          // load | store | callarg | addr-escape | other
	Call  string          // callee name when Kind == callarg
	Fresh bool            // the object is allocated in Fn (initialisation)
}

// fieldOf returns the field object selected by a FieldAddr/Field.
func fieldOf(v ssa.Value) *types.Var {
	switch x := v.(type) {
	case *ssa.FieldAddr:
		return derefT(x.X.Type()).Underlying().(*types.Struct).Field(x.Field)
	case *ssa.Field:
		return x.X.Type().Underlying().(*types.Struct).Field(x.Field)
	}
	return nil
}

// FieldUses enumerates every use of field fld in the module.
func (p *Prog) FieldUses(fld *types.Var) []FieldUse {
	var out []FieldUse
	if fld == nil {
		return nil // an unresolved field anchor has no uses (the rule's instance minimum reports it)
	}
	for _, fn := range p.Funcs() {
		allInstrs(fn, func(in ssa.Instruction) {
			v, ok := in.(ssa.Value)
			if !ok || fieldOf(v) != fld {
				return
			}
			fresh := false
			switch x := v.(type) {
			case *ssa.FieldAddr:
				r, _ := addrRoot(x.X)
				_, fresh = r.(*ssa.Alloc)
			case *ssa.Field:
				out = append(out, FieldUse{Fn: fn, Sel: v, Instr: in, Kind: "load"})
				return
			}
			for _, r := range referrers(v) {
				u := FieldUse{Fn: fn, Sel: v, Instr: r, Fresh: fresh}
				switch y := r.(type) {
				case *ssa.UnOp:
					u.Kind = "load"
				case *ssa.Store:
					if y.Addr == v {
						u.Kind = "store"
					} else {
						u.Kind = "addr-escape"
					}
				case ssa.CallInstruction:
					u.Kind = "callarg"
					u.Call = callName(y.Common())
				case *ssa.FieldAddr, *ssa.IndexAddr:
					u.Kind = "subaddr"
				case *ssa.DebugRef:
					continue
				default:
					u.Kind = "other"
				}
				out = append(out, u)
			}
		})
	}
	return out
}

// flagTrueEdges: edges of If instructions on a boolean flag (a φ-web of constants)
// that are taken only if the flag was set to true after passing an edge of E
// ("loop with break" written as "loop with flag": found := false; for … { if c { found = true } }; if found { … }).
func flagTrueEdges(fn *ssa.Function, E EdgeSet) EdgeSet {
	out := EdgeSet{}
	for _, b := range fn.Blocks {
		if len(b.Instrs) == 0 {
			continue
		}
		ifi, ok := b.Instrs[len(b.Instrs)-1].(*ssa.If)
		if !ok {
			continue
		}
		inner, pos := unNot(ifi.Cond)
		root, ok := inner.(*ssa.Phi)
		if !ok {
			continue
		}
		seen := map[*ssa.Phi]bool{}
		good := true
		nTrue := 0
		var walk func(ph *ssa.Phi)
		walk = func(ph *ssa.Phi) {
			if seen[ph] {
				return
			}
			seen[ph] = true
			for i, e := range ph.Edges {
				switch x := e.(type) {
				case *ssa.Phi:
					walk(x)
				case *ssa.Const:
					if x.Value == nil || x.Value.Kind() != constant.Bool {
						good = false
						return
					}
					if constant.BoolVal(x.Value) {
						nTrue++
						pred := ph.Block().Preds[i]
						// the predecessor must be reachable only through E
						if in, _ := (Query{Fn: fn, Cut: E}).FromEntry(func(in ssa.Instruction) bool { return in.Block() == pred }); in != nil {
							good = false
						}
					}
				default:
					good = false
				}
			}
		}
		walk(root)
		if !good || nTrue == 0 {
			continue
		}
		if pos {
			out[Edge{b, 0}] = true
		} else {
			out[Edge{b, 1}] = true
		}
	}
	return out
}

// vMember matches a boolean that is true exactly when key is in the set-like map:
// the ok of `_, ok := m[key]`, or m[key] itself for a map[K]bool into which the
// module only ever stores the constant true.
func (p *Prog) vMember(set VM, key VM) VM {
	return func(v ssa.Value) bool {
		v = strip(v)
		if e, ok := v.(*ssa.Extract); ok && e.Index == 1 {
			lk, ok := e.Tuple.(*ssa.Lookup)
			return ok && lk.CommaOk && set(lk.X) && key(lk.Index)
		}
		lk, ok := v.(*ssa.Lookup)
		if !ok || lk.CommaOk || !set(lk.X) || !key(lk.Index) {
			return false
		}
		mt, ok := lk.X.Type().Underlying().(*types.Map)
		if !ok {
			return false
		}
		if b, isB := mt.Elem().Underlying().(*types.Basic); !isB || b.Kind() != types.Bool {
			return false
		}
		return p.onlyTrueStored(mt)
	}
}

// onlyTrueStored: every store into a map of this type in the module stores the constant true.
func (p *Prog) onlyTrueStored(mt *types.Map) bool {
	ok := true
	n := 0
	for _, f := range p.funcs {
		allInstrs(f, func(in ssa.Instruction) {
			mu, isMU := in.(*ssa.MapUpdate)
			if !isMU || !types.Identical(mu.Map.Type().Underlying(), mt) {
				return
			}
			n++
			if !vConstBool(true)(mu.Value) {
				ok = false
			}
		})
	}
	return ok && n > 0
}

// ---------------------------------------------------------------- path-sensitive evaluation

// resolveOnPath resolves v along a block path: a φ is replaced by its incoming value for
// the predecessor that precedes its block on the path (innermost occurrence), repeatedly.
func resolveOnPath(path []*ssa.BasicBlock, v ssa.Value) ssa.Value {
	v = strip(v)
	for depth := 0; depth < 32; depth++ {
		ph, ok := v.(*ssa.Phi)
		if !ok {
			return v
		}
		at := -1
		for i := len(path) - 1; i >= 1; i-- {
			if path[i] == ph.Block() {
				at = i
				break
			}
		}
		if at < 1 {
			return v
		}
		sel := -1
		for i, pr := range ph.Block().Preds {
			if pr == path[at-1] {
				sel = i
			}
		}
		if sel < 0 {
			return v
		}
		v = strip(ph.Edges[sel])
		path = path[:at]
	}
	return v
}

// boolOnPath evaluates a boolean along a path: constants, φ (resolved), negation.
// known=false when the value is not determined by the path.
func boolOnPath(path []*ssa.BasicBlock, v ssa.Value) (val, known bool) {
	v = resolveOnPath(path, v)
	if c, ok := v.(*ssa.Const); ok && c.Value != nil && c.Value.Kind() == constant.Bool {
		return constant.BoolVal(c.Value), true
	}
	if u, ok := v.(*ssa.UnOp); ok && u.Op == token.NOT {
		x, k := boolOnPath(path, u.X)
		return !x, k
	}
	return false, false
}

// eachPathToReturn enumerates the acyclic block paths from an edge to the returns of fn,
// following only the feasible side of branches whose condition is determined by the path
// (flags). f is called with the path and the return; enumeration stops when f returns false.
func eachPathToReturn(fn *ssa.Function, e Edge, f func(path []*ssa.BasicBlock, r *ssa.Return) bool) {
	stop := false
	n := 0
	var walk func(b *ssa.BasicBlock, path []*ssa.BasicBlock, on map[*ssa.BasicBlock]bool)
	walk = func(b *ssa.BasicBlock, path []*ssa.BasicBlock, on map[*ssa.BasicBlock]bool) {
		if stop || n > 20000 {
			return
		}
		n++
		path = append(path, b)
		if len(b.Instrs) > 0 {
			switch x := b.Instrs[len(b.Instrs)-1].(type) {
			case *ssa.Return:
				if !f(path, x) {
					stop = true
				}
				return
			case *ssa.If:
				if val, known := boolOnPath(path, x.Cond); known {
					idx := 1
					if val {
						idx = 0
					}
					nb := b.Succs[idx]
					if !on[nb] {
						on[nb] = true
						walk(nb, path, on)
						delete(on, nb)
					}
					return
				}
			}
		}
		for _, nb := range b.Succs {
			if on[nb] {
				continue
			}
			on[nb] = true
			walk(nb, path, on)
			delete(on, nb)
		}
	}
	if e.B == nil {
		// from the function entry
		if len(fn.Blocks) > 0 {
			walk(fn.Blocks[0], nil, map[*ssa.BasicBlock]bool{fn.Blocks[0]: true})
		}
		return
	}
	start := e.B.Succs[e.S]
	walk(start, []*ssa.BasicBlock{e.B}, map[*ssa.BasicBlock]bool{start: true})
}

// eachEntryPathToReturn enumerates the feasible acyclic paths from the entry of fn to its returns.
func eachEntryPathToReturn(fn *ssa.Function, f func(path []*ssa.BasicBlock, r *ssa.Return) bool) {
	eachPathToReturn(fn, Edge{}, f)
}

// condOnPath classifies the branches taken along a path against a condition: it reports whether the
// path takes some branch on which c is known true, and some on which it is known false (φ-flags
// resolved along the path).
func condOnPath(path []*ssa.BasicBlock, c CondM) (sawTrue, sawFalse bool) {
	for i := 0; i+1 < len(path); i++ {
		b := path[i]
		if len(b.Instrs) == 0 {
			continue
		}
		iff, isIf := b.Instrs[len(b.Instrs)-1].(*ssa.If)
		if !isIf {
			continue
		}
		if m, pos := c(resolveOnPath(path[:i+1], iff.Cond)); m {
			takenTrue := b.Succs[0] == path[i+1]
			if takenTrue == pos {
				sawTrue = true
			} else {
				sawFalse = true
			}
		}
	}
	return
}

// vLocalCopyOf: v is inner itself, or a local variable (not escaping) every store to which is a value
// matching inner (a struct element copied into a local: e := s.Elements[0]; the range variable of a loop).
func vLocalCopyOf(inner VM) VM {
	var m VM
	m = func(v ssa.Value) bool {
		v = strip(v)
		if al, ok := v.(*ssa.Alloc); ok && !al.Heap {
			sts := cellStores(al, 0)
			for _, st := range sts {
				if _, isAl := strip(st.Val).(*ssa.Alloc); isAl || !m(st.Val) {
					return false
				}
			}
			return len(sts) > 0
		}
		return inner(v)
	}
	return m
}
