package main

// C12 URL building substitutes binds exactly and inverts matching.

import (
	"go/token"
	"strings"

	"golang.org/x/tools/go/ssa"
)

func init() { register("C12", checkC12) }

func checkC12(c *Check) {
	p := c.P
	c.Explain = "agreement of bind traversal between the URL skeleton and the regex constructor, taint from annotations to the skeleton, recognition of the simultaneous-substitution idiom, guard-cut of the optional segment, and the router front end (unknown/empty/duplicate names panic, pairs → map, withOptional handling)"
	c.NotDec = []string{"the inverse relation to matching for all paths (needs C01/C02 behaviourally)", "strings.Replacer's documented single-pass semantics"}
	c.Trusted = []string{"strings.NewReplacer(...).Replace performs replacements in one pass without rescanning"}

	up := p.Meth("route", "baseLeaf", "URLPath")
	if up == nil {
		c.Rule("R1", "E6", "anchors", 1)
		c.Anchor("route.baseLeaf.URLPath")
		return
	}
	key := p.FuncKey(up)
	// the skeleton buffer = receiver of the String() call fed to Replace / returned
	var buf ssa.Value
	allInstrs(up, func(in ssa.Instruction) {
		if cl, ok := in.(*ssa.Call); ok && (callName(&cl.Call) == "(*bytes.Buffer).String" || callName(&cl.Call) == "(*strings.Builder).String") {
			buf = strip(cl.Call.Args[0])
		}
	})
	if buf == nil {
		c.Rule("R1", "E6", "anchors", 1)
		c.Undecided(key+":skeleton", p.FuncPos(up), "no skeleton buffer found")
		return
	}
	// one entry per piece of text written: "{" + name + "}" in one call counts as three
	var writes []skelWrite
	allInstrs(up, func(in ssa.Instruction) {
		if ci, ok := in.(ssa.CallInstruction); ok && (strings.HasPrefix(callName(ci.Common()), "(*bytes.Buffer).Write") || strings.HasPrefix(callName(ci.Common()), "(*strings.Builder).Write")) && strip(ci.Common().Args[0]) == buf {
			for _, part := range concatParts(ci.Common().Args[1]) {
				writes = append(writes, skelWrite{ci, part})
			}
		}
	})

	// ---- R1 every bind of a parameter list is emitted
	c.Rule("R1", "E6 sibling agreement", "the URL skeleton emits a {name} for every parameter the regex constructor binds: all parameters of a regex list, the first one only for a match-all element", 2)
	{
		// constructor side: binds = every Parameters element (range over the full list)
		consAll := false
		if cons := p.Fn("route", "constructMatchStyleRegex"); cons != nil {
			allInstrs(cons, func(in ssa.Instruction) {
				if st, ok := in.(*ssa.Store); ok {
					if i, ok := elemIndex(st.Val, vFieldNamed("Parameters")); ok && ascendingIndex(i) {
						consAll = true
					}
				}
			})
		}
		c.Cond(consAll, "route.constructMatchStyleRegex:binds-all-parameters", "internal/route/leaf.go", "the matcher binds every parameter of a regex list", "constructor no longer iterates over all parameters (anchor drift)")
		// skeleton side
		found := false
		for _, w := range writes {
			arg := w.arg
			r, ns, ok := fieldPath(arg)
			if !ok || ns[len(ns)-1] != "Ident" {
				continue
			}
			// BindParameter.Ident (string field), not SegmentElement.Ident (*string)
			if namedName(derefT(r.Type())) != "BindParameter" && !(len(ns) >= 2) {
				continue
			}
			if namedName(derefT(r.Type())) != "BindParameter" {
				// direct Parameters[k].Ident
				found = true
				c.Bad(key+":bind-list", p.Pos(w.ci.Pos()), "only a fixed parameter of the list is emitted ("+vstr(arg)+"): for \"/{a: /x/, b: /y/}\" the bind b is lost and URLPath no longer inverts matching")
				continue
			}
			found = true
			// r is the loop copy; find its source list
			var list ssa.Value
			for _, st := range cellStores(r, 0) {
				if i, ok := elemIndex(st.Val, vAny); ok && ascendingIndex(i) {
					list = strip(st.Val).(*ssa.UnOp).X.(*ssa.IndexAddr).X
				}
			}
			if list == nil {
				c.Bad(key+":bind-list", p.Pos(w.ci.Pos()), "the emitted parameter is not an element of a loop over the parameter list")
				continue
			}
			okAll := true
			why := ""
			full := vFieldNamed("Parameters")
			lphi, _ := strip(list).(*ssa.Phi)
			phiLeaves(list, func(l ssa.Value) {
				if full(l) {
					return
				}
				if sl, ok := l.(*ssa.Slice); ok && full(sl.X) && (sl.Low == nil || vConstInt(0)(sl.Low)) {
					if k, isC := constInt(sl.High); isC && k == 1 && lphi != nil {
						// allowed only when the first parameter is not a regex (match-all element)
						first := func(v ssa.Value) bool {
							rr, nn, ok := fieldPath(v)
							if !ok || len(nn) < 2 || nn[len(nn)-1] != "Regex" || nn[len(nn)-2] != "Value" {
								return false
							}
							if ia, ok := rr.(*ssa.IndexAddr); ok {
								return vConstInt(0)(ia.Index)
							}
							// first := parameters[0] (a local copy of the element)
							if al, ok := rr.(*ssa.Alloc); ok {
								sts := cellStores(al, 0)
								if len(sts) == 1 {
									if i, ok := elemIndex(sts[0].Val, vAny); ok && vConstInt(0)(i) {
										return true
									}
								}
							}
							return false
						}
						g := edgesWhere(up, cCmp(token.EQL, first, vNil), true)
						for i, e := range lphi.Edges {
							if strip(e) == l && !edgeGuarded(up, g, lphi.Block().Preds[i], lphi.Block()) {
								okAll, why = false, "the list is truncated to its first parameter although that parameter is a regex bind"
							}
						}
						return
					}
				}
				okAll, why = false, "unexpected parameter list "+vstr(l)
			})
			// no element of the list is skipped inside the loop
			if okAll {
				var elemLoad ssa.Instruction
				for _, st := range cellStores(r, 0) {
					if _, ok := elemIndex(st.Val, vAny); ok {
						elemLoad = st
					}
				}
				if elemLoad != nil {
					in, _ := Query{Fn: up, Avoid: isInstr(w.ci)}.After(elemLoad, func(x ssa.Instruction) bool { return x == elemLoad || isReturn(x) })
					if in != nil {
						okAll, why = false, "an element of the parameter list can be skipped inside the loop (a per-name or per-kind filter decides which parameters are binds)"
					}
				}
			}
			c.Cond(okAll, key+":bind-list", p.Pos(w.ci.Pos()), "{name} emitted for every parameter; truncated to the first only when Parameters[0] is not a regex", "the URL skeleton does not cover the binds of a parameter list: "+why)
		}
		if !found {
			c.Bad(key+":bind-list", p.FuncPos(up), "no {name} is emitted for elements with a parameter list")
		}
	}

	// ---- R2 annotations dropped
	c.Rule("R2", "E4 taint", "neither regex text nor literal annotations (**, capture) flow into the skeleton", 1)
	{
		bad := false
		for _, w := range writes {
			arg := w.arg
			if derivesFrom(arg, vOr(vFieldNamed("Regex"), vFieldNamed("Literal")), nil) {
				bad = true
				c.Bad(key+":annotation", p.Pos(w.ci.Pos()), "annotation text flows into the URL skeleton: "+vstr(arg))
			}
		}
		if !bad {
			c.OK(key+":annotation", p.FuncPos(up), "no write derives from Value.Regex / Value.Literal", len(writes))
		}
	}

	// ---- R3 simultaneous substitution
	c.Rule("R3", "idiom set", "values are substituted in one pass: strings.NewReplacer(\"{k}\", v, …).Replace(skeleton); no sequential Replace inside a loop over the values", 2)
	{
		seq := false
		allInstrs(up, func(in ssa.Instruction) {
			if ci, ok := in.(ssa.CallInstruction); ok {
				n := callName(ci.Common())
				if n == "strings.Replace" || n == "strings.ReplaceAll" || strings.HasPrefix(n, "(*regexp.Regexp).Replace") {
					seq = true
					c.Bad(key+":sequential-substitution", p.Pos(in.Pos()), n+" substitutes one bind at a time: a supplied value containing \"{other}\" is re-scanned and replaced again")
				}
			}
		})
		okRet := false
		var pairs ssa.Value
		allInstrs(up, func(in ssa.Instruction) {
			if r, ok := in.(*ssa.Return); ok && len(r.Results) == 1 {
				if cl := asCall(r.Results[0]); cl != nil && callName(&cl.Call) == "(*strings.Replacer).Replace" {
					if nr := asCall(cl.Call.Args[0]); nr != nil && callName(&nr.Call) == "strings.NewReplacer" && vOr(vCall("(*bytes.Buffer).String", vIs(buf)), vCall("(*strings.Builder).String", vIs(buf)))(cl.Call.Args[1]) {
						okRet = true
						pairs = nr.Call.Args[0]
					}
				}
			}
		})
		if !seq {
			c.Cond(okRet, key+":one-pass", p.FuncPos(up), "return NewReplacer(pairs...).Replace(skeleton)", "the result is not a single Replacer pass over the skeleton")
		}
		// every result is that pass, and what it scans is a skeleton: constants and names taken from
		// the route, never text that already contains supplied values
		{
			okEvery := true
			allInstrs(up, func(in ssa.Instruction) {
				if r, ok := in.(*ssa.Return); ok && len(r.Results) == 1 {
					cl := asCall(r.Results[0])
					if cl == nil || callName(&cl.Call) != "(*strings.Replacer).Replace" {
						// a defensive `if l.route == nil { return "" }`: constant empty result on the edge where a
						// field of the receiver is nil
						if vConstStr("")(r.Results[0]) {
							nilField := edgesWhere(up, cCmp(token.EQL, vField(vParam(up, 0), "route"), vNil), true)
							if g, _ := guardedBy(up, nilField, isInstr(in)); g && len(nilField) > 0 {
								return
							}
						}
						// the skeleton itself where there is nothing to substitute: a Replacer without pairs is the identity
						if vOr(vCall("(*bytes.Buffer).String", vIs(buf)), vCall("(*strings.Builder).String", vIs(buf)))(r.Results[0]) {
							noVals := union(edgesWhere(up, cCmp(token.EQL, vLen(vParam(up, 1)), vConstInt(0)), true), edgesWhere(up, cCmp(token.GTR, vLen(vParam(up, 1)), vConstInt(0)), false))
							if g, _ := guardedBy(up, noVals, isInstr(in)); g && len(noVals) > 0 {
								// … and only once it is complete: behind the loop over the segments, not inside it
								complete := false
								if seg, idx := segLoopValue(up); seg != nil {
									iv := strip(idx)
									if b, isB := iv.(*ssa.BinOp); isB {
										iv = strip(b.X) // range loops count from -1: the element index is φ+1
									}
									if ph, isPhi := iv.(*ssa.Phi); isPhi {
										if okP, _ := mustPrecede(up, func(x ssa.Instruction) bool { return x == ssa.Instruction(ph) }, in); okP {
											complete = true
										}
									}
									if si, isI := seg.(ssa.Instruction); isI && si.Block().Dominates(in.Block()) {
										complete = false // inside an iteration
									}
								}
								if complete {
									return
								}
							}
						}
						okEvery = false
					}
				}
			})
			pure := true
			var badW skelWrite
			for _, w := range writes {
				arg := strip(w.arg)
				if _, isC := arg.(*ssa.Const); isC {
					continue
				}
				x := arg
				for i := 0; i < 2; i++ {
					if u, isU := x.(*ssa.UnOp); isU && u.Op == token.MUL {
						x = u.X
					}
				}
				if fa, isFA := x.(*ssa.FieldAddr); isFA {
					if n := fieldOf(fa).Name(); n == "Ident" || n == "BindIdent" {
						continue
					}
				}
				if f, isF := x.(*ssa.Field); isF {
					if n := fieldOf(f).Name(); n == "Ident" || n == "BindIdent" {
						continue
					}
				}
				pure, badW = false, w
			}
			switch {
			case !okEvery:
				c.Bad(key+":skeleton-only", p.FuncPos(up), "URLPath has a result that is not the single Replacer pass (e.g. text produced by another URLPath call is returned or extended)")
			case !pure:
				c.Bad(key+":skeleton-only", p.Pos(badW.ci.Pos()), "text other than constants and route names is written into the string the Replacer scans ("+vstr(badW.arg)+"): values substituted earlier are scanned again")
			default:
				c.OK(key+":skeleton-only", p.FuncPos(up), "the Replacer scans constants and route names only; every result is its output", len(writes))
			}
		}
		if pairs != nil {
			// pairs = φ(fresh, append(pairs, "{"+k+"}", v)) over range vals
			okPairs := false
			phiLeaves(pairs, func(l ssa.Value) {
				a := asCall(l)
				if a == nil || callName(&a.Call) != "builtin.append" {
					return
				}
				sl, ok := strip(a.Call.Args[1]).(*ssa.Slice)
				if !ok {
					return
				}
				al, ok := sl.X.(*ssa.Alloc)
				if !ok {
					return
				}
				var k0, v1 ssa.Value
				for _, r := range referrers(al) {
					if ia, ok := r.(*ssa.IndexAddr); ok {
						for _, rr := range referrers(ia) {
							if st, ok := rr.(*ssa.Store); ok && st.Addr == ssa.Value(ia) {
								if vConstInt(0)(ia.Index) {
									k0 = st.Val
								} else if vConstInt(1)(ia.Index) {
									v1 = st.Val
								}
							}
						}
					}
				}
				isRangeOfVals := func(idx int) VM {
					return func(v ssa.Value) bool {
						e, ok := strip(v).(*ssa.Extract)
						if !ok || e.Index != idx {
							return false
						}
						n, ok := e.Tuple.(*ssa.Next)
						if !ok {
							return false
						}
						rg, ok := n.Iter.(*ssa.Range)
						return ok && vParam(up, 1)(rg.X)
					}
				}
				brace := vOr(vBin(token.ADD, vBin(token.ADD, vConstStr("{"), isRangeOfVals(1)), vConstStr("}")), vBin(token.ADD, vConstStr("{"), vBin(token.ADD, isRangeOfVals(1), vConstStr("}"))))
				if k0 != nil && v1 != nil && brace(k0) && isRangeOfVals(2)(v1) {
					okPairs = true
				}
			})
			c.Cond(okPairs, key+":pairs", p.FuncPos(up), "pairs = (\"{\"+k+\"}\", v) for every (k, v) of vals", "replacement pairs are not (\"{k}\", v) for every supplied value")
		}
	}

	// ---- R4 optional gating
	c.Rule("R4", "E1 guard-cut", "an optional segment is emitted only when withOptional is set", 1)
	{
		var seg ssa.Value
		allInstrs(up, func(in ssa.Instruction) {
			if v, ok := in.(ssa.Value); ok && seg == nil {
				if i, ok := elemIndex(v, vFieldNamed("Segments")); ok && ascendingIndex(i) {
					seg = v
				}
			}
		})
		if seg == nil {
			c.Undecided(key+":optional", p.FuncPos(up), "no loop over route segments")
		} else {
			g := union(edgesWhere(up, cBool(vField(vIs(seg), "Optional")), false), edgesWhere(up, cBool(vParam(up, 2)), true))
			bad := ""
			for _, w := range writes {
				if ok, path := guardedBy(up, g, isInstr(w.ci)); !ok {
					bad = path
				}
			}
			if bad == "" && len(g) >= 2 {
				c.OK(key+":optional", p.FuncPos(up), "every skeleton write is on the !Optional or withOptional edge", len(writes))
			} else {
				c.Bad(key+":optional", p.FuncPos(up), "an optional segment is emitted although withOptional is false (or never emitted)", bad)
			}
			// … and always when it is set: nothing but Optional && !withOptional ends or skips an iteration
			// before the segment's separator is written
			if from, isI := seg.(ssa.Instruction); isI && len(writes) > 0 {
				var first ssa.Instruction
				for _, w := range writes {
					if w.ci.Block() != nil && from.Block().Dominates(w.ci.Block()) {
						if ok, _ := mustPrecede(up, func(x ssa.Instruction) bool { return x == from }, w.ci); ok {
							if first == nil || w.ci.Block().Dominates(first.Block()) && w.ci.Pos() < first.Pos() {
								first = w.ci
							}
						}
					}
				}
				if first != nil {
					noOpt := edgesWhere(up, cBool(vParam(up, 2)), false)
					fb := from.Block()
					target := func(in ssa.Instruction) bool {
						if _, isRet := in.(*ssa.Return); isRet {
							return true
						}
						b := in.Block()
						return b != fb && b.Dominates(fb) && len(b.Instrs) > 0 && b.Instrs[0] == in
					}
					if in, path := (Query{Fn: up, Cut: noOpt, Avoid: isInstr(first)}).After(from, target); in != nil {
						c.Bad(key+":optional-when-asked", p.Pos(first.Pos()), "a segment can be left out although it is not optional or withOptional is set (e.g. depending on the supplied values): the optional segment is included exactly when asked, binds without a value stay visible as {bind}", blockPath(path))
					} else {
						c.OK(key+":optional-when-asked", p.Pos(first.Pos()), "only Optional && !withOptional ends the skeleton early", numInstrs(up))
					}
				}
			}
		}
	}

	// ---- R6 one value per name
	c.Rule("R6", "shared with C08 (R4)", "a bind name occurs once along a route (every name, no exemptions): values are substituted by name, so two binds of one name cannot both reproduce the request path", 8)
	c.Share("C08", []string{"R4"}, 8)

	// ---- R7 the values a request hands over are paired with the right names
	c.Rule("R7", "shared with C02 (R3)", "building with a request's parameters reproduces the path only if each bind received its own sub-match: the group-aware pairing of the regex matchers (and the rule for dropping the group table) is part of this property", 5)
	c.Share("C02", []string{"R3"}, 5)

	// ---- R5 router front end
	c.Rule("R5", "E1/E3", "router.URLPath panics on an unknown name before use, turns pairs into a map by (i-1, i), honours and removes withOptional; Name() panics on empty/duplicate names before storing; Context.URLPath forwards unchanged", 6)
	if ru := p.Meth("flamego", "router", "URLPath"); ru != nil {
		k := p.FuncKey(ru)
		var lk *ssa.Lookup
		allInstrs(ru, func(in ssa.Instruction) {
			if l, ok := in.(*ssa.Lookup); ok && vField(vParam(ru, 0), "namedRoutes")(l.X) && vParam(ru, 1)(l.Index) && l.CommaOk {
				lk = l
			}
		})
		calls := callsNamed(ru, "(route.Leaf).URLPath")
		// what the leaf built is what the caller gets: every returned value is the result of a Leaf.URLPath call,
		// untouched (joining, trimming or cleaning it changes paths whose first value is empty or starts with '/')
		{
			okRet, nRet := true, 0
			allInstrs(ru, func(in ssa.Instruction) {
				r, isR := in.(*ssa.Return)
				if !isR || len(r.Results) != 1 {
					return
				}
				nRet++
				phiLeaves(r.Results[0], func(l ssa.Value) {
					cl := asCall(l)
					if cl != nil && callName(&cl.Call) == "(route.Leaf).URLPath" {
						return
					}
					// an opt-in prefix: `prefix + leafText`, returned only where the router's prefix field is
					// non-empty (with the default, empty, prefix the leaf's text comes back untouched)
					if b, isB := strip(l).(*ssa.BinOp); isB && b.Op == token.ADD {
						if c2 := asCall(b.Y); c2 != nil && callName(&c2.Call) == "(route.Leaf).URLPath" {
							if root, ns, okF := fieldPath(b.X); okF && len(ns) == 1 && vParam(ru, 0)(root) {
								nonEmpty := edgesWhere(ru, cEmptyStr(vField(vParam(ru, 0), ns[0])), false)
								if g, _ := guardedBy(ru, nonEmpty, isInstr(r)); g && len(nonEmpty) > 0 {
									if _, isPhi := strip(r.Results[0]).(*ssa.Phi); !isPhi {
										return
									}
								}
							}
						}
					}
					okRet = false
				})
			})
			c.Cond(okRet && nRet > 0, k+":returns-leaf-text", p.FuncPos(ru), "router.URLPath returns the leaf's text unchanged", "router.URLPath post-processes the text the leaf built (joined, trimmed or cleaned): a path whose first substituted value is empty or begins with '/' no longer comes back as substituted")
		}
		// `if flag { return leaf.URLPath(vals, true) }; return leaf.URLPath(vals, false)`: one call per
		// value of the flag is the single call with the flag as argument
		if lk != nil && len(calls) == 2 {
			var ct, cf ssa.CallInstruction
			for _, cl := range calls {
				if vConstBool(true)(cl.Common().Args[1]) {
					ct = cl
				} else if vConstBool(false)(cl.Common().Args[1]) {
					cf = cl
				}
			}
			if ct != nil && cf != nil && strip(ct.Common().Args[0]) == strip(cf.Common().Args[0]) {
				if mm, ok := strip(ct.Common().Args[0]).(*ssa.MakeMap); ok {
					isWO := cCmp(token.EQL, func(v ssa.Value) bool {
						v = strip(v)
						if e, isE := v.(*ssa.Extract); isE && e.Index == 0 {
							v = e.Tuple
						}
						l, ok := v.(*ssa.Lookup)
						return ok && strip(l.X) == ssa.Value(mm) && vConstStr("withOptional")(l.Index)
					}, vConstStr("true"))
					on := edgesWhere(ru, isWO, true)
					off := edgesWhere(ru, isWO, false)
					g1, _ := guardedBy(ru, on, isInstr(ct))
					g2, _ := guardedBy(ru, off, isInstr(cf))
					isDel := func(in ssa.Instruction) bool {
						ci, ok := in.(ssa.CallInstruction)
						return ok && callName(ci.Common()) == "builtin.delete" && strip(ci.Common().Args[0]) == ssa.Value(mm) && vConstStr("withOptional")(ci.Common().Args[1])
					}
					okDel, _ := mustPrecede(ru, isDel, ct)
					found := edgesWhere(ru, cBool(vExtract(1, vIs(lk))), true)
					gf1, _ := guardedBy(ru, found, isInstr(ct))
					gf2, _ := guardedBy(ru, found, isInstr(cf))
					okLeaf := vExtract(0, vIs(lk))(ct.Common().Value) && vExtract(0, vIs(lk))(cf.Common().Value)
					c.Cond(gf1 && gf2 && okLeaf && len(found) > 0, k+":unknown-name-panics", p.Pos(ct.Pos()), "the leaf is used only on the found edge", "an unknown route name does not panic (nil leaf used or empty result returned)")
					checkPairsMapPlain(c, ru, mm, k)
					c.Cond(g1 && g2 && len(on) > 0, k+":withOptional-flag", p.Pos(ct.Pos()), "URLPath(vals, true) exactly on the vals[\"withOptional\"] == \"true\" edge, URLPath(vals, false) otherwise", "the optional flag does not follow the \"withOptional\", \"true\" pair")
					c.Cond(okDel, k+":withOptional-removed", p.Pos(ct.Pos()), "the control key is deleted before substitution", "the \"withOptional\" key stays in the values: a bind named withOptional is substituted with \"true\"")
					calls = nil
				}
			}
		}
		if calls == nil {
			// handled above
		} else if lk == nil || len(calls) != 1 {
			c.Bad(k+":lookup", p.FuncPos(ru), "no comma-ok lookup of the name in namedRoutes followed by one Leaf.URLPath call")
		} else {
			call := calls[0]
			found := edgesWhere(ru, cBool(vExtract(1, vIs(lk))), true)
			miss := edgesWhere(ru, cBool(vExtract(1, vIs(lk))), false)
			ok, path := guardedBy(ru, found, isInstr(call))
			bad := false
			for e := range miss {
				if in, _ := (Query{Fn: ru}).Reach(e.B.Succs[e.S], 0, func(in ssa.Instruction) bool { return isReturn(in) || in == ssa.Instruction(call) }); in != nil {
					bad = true
				}
			}
			if ok && !bad && len(found) > 0 && vExtract(0, vIs(lk))(call.Common().Value) {
				c.OK(k+":unknown-name-panics", p.Pos(call.Pos()), "the leaf is used only on the found edge; the miss edge panics", numInstrs(ru))
			} else {
				c.Bad(k+":unknown-name-panics", p.Pos(call.Pos()), "an unknown route name does not panic (nil leaf used or empty result returned)", path)
			}
			// vals map
			vals := call.Common().Args[0]
			if mm, ok := strip(vals).(*ssa.MakeMap); ok {
				checkPairsMapPlain(c, ru, mm, k)
				// withOptional
				flag := call.Common().Args[1]
				isWO := cCmp(token.EQL, func(v ssa.Value) bool {
					v = strip(v)
					if e, isE := v.(*ssa.Extract); isE && e.Index == 0 {
						v = e.Tuple
					}
					l, ok := v.(*ssa.Lookup)
					return ok && strip(l.X) == ssa.Value(mm) && vConstStr("withOptional")(l.Index)
				}, vConstStr("true"))
				on := edgesWhere(ru, isWO, true)
				okFlag := false
				if m, pos := isWO(strip(flag)); m && pos {
					// withOptional := vals["withOptional"] == "true"
					okFlag = true
				} else if ph, ok := strip(flag).(*ssa.Phi); ok && len(on) > 0 {
					okFlag = true
					for i, e := range ph.Edges {
						if vConstBool(true)(e) {
							if !edgeGuarded(ru, on, ph.Block().Preds[i], ph.Block()) {
								okFlag = false
							}
						} else if !vConstBool(false)(e) {
							okFlag = false
						}
					}
				}
				c.Cond(okFlag, k+":withOptional-flag", p.Pos(call.Pos()), "withOptional is true exactly on the vals[\"withOptional\"] == \"true\" edge", "the optional flag does not follow the \"withOptional\", \"true\" pair")
				isDel := func(in ssa.Instruction) bool {
					ci, ok := in.(ssa.CallInstruction)
					return ok && callName(ci.Common()) == "builtin.delete" && strip(ci.Common().Args[0]) == ssa.Value(mm) && vConstStr("withOptional")(ci.Common().Args[1])
				}
				okDel := len(on) > 0
				if len(on) == 0 && okFlag {
					// flag computed directly: the key must be deleted on every path to the call
					if in, _ := (Query{Fn: ru, Avoid: isDel}).FromEntry(isInstr(call)); in == nil {
						okDel = true
					}
				}
				for e := range on {
					if in, _ := (Query{Fn: ru, Avoid: isDel}).Reach(e.B.Succs[e.S], 0, isInstr(call)); in != nil {
						okDel = false
					}
				}
				c.Cond(okDel, k+":withOptional-removed", p.Pos(call.Pos()), "the control key is deleted before substitution", "the \"withOptional\" key stays in the values: a bind named withOptional is substituted with \"true\"")
			} else {
				c.Bad(k+":vals", p.Pos(call.Pos()), "values are not collected into a fresh map")
			}
		}
	} else {
		c.Anchor("router.URLPath")
	}
	if nm := p.Meth("flamego", "Route", "Name"); nm != nil {
		k := p.FuncKey(nm)
		var store *ssa.MapUpdate
		allInstrs(nm, func(in ssa.Instruction) {
			if mu, ok := in.(*ssa.MapUpdate); ok && vFieldNamed("namedRoutes")(mu.Map) {
				store = mu
			}
		})
		if store == nil {
			c.Bad(k+":store", p.FuncPos(nm), "Name() never records the route")
		} else {
			nonEmpty := edgesWhere(nm, cEmptyStr(vParam(nm, 1)), false)
			absent := edgesWhere(nm, cBool(func(v ssa.Value) bool {
				e, ok := strip(v).(*ssa.Extract)
				if !ok || e.Index != 1 {
					return false
				}
				l, ok := e.Tuple.(*ssa.Lookup)
				return ok && vFieldNamed("namedRoutes")(l.X) && vParam(nm, 1)(l.Index)
			}), false)
			ok1, _ := guardedBy(nm, nonEmpty, isInstr(store))
			ok2, _ := guardedBy(nm, absent, isInstr(store))
			c.Cond(ok1 && len(nonEmpty) > 0, k+":empty-name", p.Pos(store.Pos()), "stored only for a non-empty name", "an empty route name can be stored")
			c.Cond(ok2 && len(absent) > 0, k+":duplicate-name", p.Pos(store.Pos()), "stored only when the name is not taken", "a duplicate route name silently replaces the earlier route")
			okKV := vParam(nm, 1)(store.Key)
			if e, ok := strip(store.Value).(*ssa.Extract); !ok || e.Index != 2 {
				okKV = false
			} else if n, ok := e.Tuple.(*ssa.Next); !ok {
				okKV = false
			} else if rg, ok := n.Iter.(*ssa.Range); !ok || !vField(vParam(nm, 0), "leaves")(rg.X) {
				okKV = false
			}
			if okKV {
				// no leaf of the route is passed over: an iteration that is entered records the name (a route
				// whose only leaf is the one skipped would return normally without a name)
				n := strip(store.Value).(*ssa.Extract).Tuple.(*ssa.Next)
				skipped := ""
				for e := range edgesWhere(nm, cBool(vExtract(0, vIs(n))), true) {
					body := e.B.Succs[e.S]
					if x, path := (Query{Fn: nm, Avoid: isInstr(store)}).Reach(body, 0, func(in ssa.Instruction) bool {
						return in == ssa.Instruction(n) || isReturn(in)
					}); x != nil {
						skipped = blockPath(path)
					}
				}
				c.Cond(skipped == "", k+":every-leaf-counts", p.Pos(store.Pos()), "an iteration over the route's leaves that is entered records the name", "Name() can pass over a leaf of the route without recording the name: a route that has only such leaves (e.g. one registered for a single method) returns normally and stays unnamed: "+skipped)
			}
			if !okKV && vParam(nm, 1)(store.Key) {
				// leaf, ok := r.leaves[m] on the ok edge (a fixed order of methods instead of the map's order)
				if e, ok := strip(store.Value).(*ssa.Extract); ok && e.Index == 0 {
					if l, ok := e.Tuple.(*ssa.Lookup); ok && l.CommaOk && vField(vParam(nm, 0), "leaves")(l.X) {
						present := edgesWhere(nm, cBool(vExtract(1, vIs(l))), true)
						if g, _ := guardedBy(nm, present, isInstr(store)); g && len(present) > 0 {
							okKV = true
						}
					}
				}
			}
			if !okKV && vParam(nm, 1)(store.Key) {
				// a leaf the constructor kept in a field of the Route: every store of that field is made where the
				// Route is built, from a leaf that is also recorded in Route.leaves there
				if r0, ns, okF := fieldPath(store.Value); okF && len(ns) == 1 && vParam(nm, 0)(r0) {
					if f := fieldOf(addrOfLoad(strip(store.Value))); f != nil {
						ar := p.Meth("flamego", "router", "addRoute")
						nSt, good := 0, ar != nil
						for _, u := range p.FieldUses(f) {
							if u.Kind != "store" {
								continue
							}
							nSt++
							st, isSt := u.Instr.(*ssa.Store)
							if !isSt || u.Fn != ar {
								good = false
								continue
							}
							phiLeaves(st.Val, func(l ssa.Value) {
								if vNil(l) {
									return
								}
								e, isE := strip(l).(*ssa.Extract)
								if !isE || e.Index != 0 {
									good = false
									return
								}
								cl, isC := e.Tuple.(*ssa.Call)
								if !isC || callName(&cl.Call) != "route.AddRoute" {
									good = false
									return
								}
								recorded := false
								allInstrs(ar, func(in ssa.Instruction) {
									if mu, isMU := in.(*ssa.MapUpdate); isMU && strip(mu.Value) == ssa.Value(e) {
										recorded = true
									}
								})
								if !recorded {
									good = false
								}
							})
						}
						if good && nSt > 0 {
							okKV = true
						}
					}
				}
			}
			c.Cond(okKV, k+":store", p.Pos(store.Pos()), "namedRoutes[name] = a leaf of this route", "Name() stores something other than one of the route's own leaves under the given name")
		}
	} else {
		c.Anchor("Route.Name")
	}
	if cu := p.Meth("flamego", "context", "URLPath"); cu != nil {
		ok, nret := true, 0
		allInstrs(cu, func(in ssa.Instruction) {
			if r, isR := in.(*ssa.Return); isR && len(r.Results) == 1 {
				nret++
				cl := asCall(r.Results[0])
				if cl == nil || callName(&cl.Call) != "dynamic" || !vField(vParam(cu, 0), "urlPath")(cl.Call.Value) || !vParam(cu, 1)(cl.Call.Args[0]) || !vParam(cu, 2)(cl.Call.Args[1]) {
					ok = false
				}
			}
		})
		ok = ok && nret > 0
		c.Cond(ok, p.FuncKey(cu)+":forwards", p.FuncPos(cu), "Context.URLPath = urlPath(name, pairs...)", "Context.URLPath does not forward its arguments unchanged to the router")
	} else {
		c.Anchor("context.URLPath")
	}
}

// checkPairsMapPlain: vals[pairs[i-1]] = pairs[i].
func checkPairsMapPlain(c *Check, fn *ssa.Function, mm *ssa.MakeMap, key string) {
	p := c.P
	pairs := vParam(fn, len(fn.Params)-1)
	n := 0
	for _, r := range referrers(mm) {
		mu, ok := r.(*ssa.MapUpdate)
		if !ok || mu.Map != ssa.Value(mm) {
			continue
		}
		n++
		ki, ok1 := elemIndex(mu.Key, pairs)
		vi, ok2 := elemIndex(mu.Value, pairs)
		good := ok1 && ok2 && (vBin(token.SUB, vIs(vi), vConstInt(1))(ki) || vBin(token.ADD, vIs(ki), vConstInt(1))(vi))
		// loop: i starts at 1 and steps by 2
		if good {
			if ph, ok := strip(vi).(*ssa.Phi); ok {
				i1, s2 := false, false
				for _, e := range ph.Edges {
					if vConstInt(1)(e) {
						i1 = true
					}
					if vBin(token.ADD, vIs(ph), vConstInt(2))(e) {
						s2 = true
					}
				}
				good = i1 && s2
			}
		}
		c.Cond(good, key+":pairs", p.Pos(mu.Pos()), "vals[pairs[i-1]] = pairs[i], i = 1, 3, 5, …", "values are not paired as (name, value) = (pairs[i-1], pairs[i])")
	}
	if n == 0 {
		c.Bad(key+":pairs", p.FuncPos(fn), "the values map is never filled")
	}
}

type skelWrite struct {
	ci  ssa.CallInstruction
	arg ssa.Value
}

// segLoopValue: the element value and the index of the ascending loop over route.Segments in fn, or nil.
func segLoopValue(fn *ssa.Function) (ssa.Value, ssa.Value) {
	var seg, idx ssa.Value
	allInstrs(fn, func(in ssa.Instruction) {
		if v, ok := in.(ssa.Value); ok && seg == nil {
			if i, ok := elemIndex(v, vFieldNamed("Segments")); ok && ascendingIndex(i) {
				seg, idx = v, i
			}
		}
	})
	return seg, idx
}
