package main

// C09 Header constraints gate a route in every form it can be reached.

import (
	"fmt"
	"go/token"
	"go/types"
	"strings"

	"golang.org/x/tools/go/ssa"
)

func init() { register("C09", checkC09) }

func isHTTPHeader(t types.Type) bool {
	n, ok := t.(*types.Named)
	return ok && n.Obj().Name() == "Header" && n.Obj().Pkg() != nil && n.Obj().Pkg().Path() == "net/http"
}

// headerParam returns the index (in fn.Params) of the http.Header parameter.
func headerParam(fn *ssa.Function) int {
	for i, prm := range fn.Params {
		if isHTTPHeader(prm.Type()) {
			return i
		}
	}
	return -1
}

// leafMatchers: every method with an http.Header parameter and a single bool
// result declared on a type that implements route.Leaf.
func leafMatchers(p *Prog) []*ssa.Function {
	leafN := p.Named("route", "Leaf")
	if leafN == nil {
		return nil
	}
	iface := leafN.Underlying().(*types.Interface)
	var out []*ssa.Function
	for _, fn := range p.Funcs() {
		if fn.Parent() != nil || fn.Pkg != p.SSA["route"] || len(fn.Blocks) == 0 {
			continue
		}
		var rt types.Type
		if fn.Signature.Recv() != nil {
			rt = fn.Signature.Recv().Type()
		} else if len(fn.Params) > 0 {
			// a matcher method turned into a function taking the leaf first
			rt = fn.Params[0].Type()
			if _, isPtr := rt.(*types.Pointer); !isPtr {
				continue
			}
		} else {
			continue
		}
		if !types.Implements(rt, iface) && !types.Implements(types.NewPointer(derefT(rt)), iface) {
			continue
		}
		res := fn.Signature.Results()
		if res.Len() != 1 || !types.Identical(res.At(0).Type(), types.Typ[types.Bool]) {
			continue
		}
		if headerParam(fn) < 0 {
			continue
		}
		out = append(out, fn)
	}
	return out
}

func checkC09(c *Check) {
	p := c.P
	c.Explain = "boolean value implication (verdict ⇒ header matcher accepted) over every leaf matcher in go/ssa form, conjunction shape of HeaderMatcher.Match by cut-reachability, coverage and freshness in Route.Headers, linkage of the optional short-form leaf"
	c.NotDec = []string{"regexp matching of header values", "HTTP header name canonicalisation (http.Header.Get)", "that lower-priority routes take over (C01)"}
	c.Trusted = []string{"regexp.Regexp.MatchString", "net/http.Header.Get"}

	fHM := p.Field("route", "baseLeaf", "headerMatcher")
	mMH := p.Meth("route", "baseLeaf", "matchHeader")
	if fHM == nil {
		c.Rule("R1", "E1", "anchors", 1)
		c.Anchor("route.baseLeaf.headerMatcher")
		return
	}

	// ---- R1 every leaf matcher's verdict implies the header matcher
	c.Rule("R1", "E1 value implication + E6 siblings", "every leaf matcher (methods of Leaf implementations taking an http.Header and returning bool) returns true only if the leaf's header matcher accepted the method's own header parameter", 5)
	// gate functions: module functions g(m *HeaderMatcher, h http.Header) bool (any parameter order) whose
	// true verdict implies m == nil or m.Match(h) — the canonical gate in another shape
	type gateFn struct {
		fn     *ssa.Function
		mi, hi int
	}
	var gates []gateFn
	for _, fn := range p.Funcs() {
		if fn.Pkg != p.SSA["route"] || fn.Parent() != nil || fn == mMH || len(fn.Blocks) == 0 {
			continue
		}
		res := fn.Signature.Results()
		if res.Len() != 1 || !types.Identical(res.At(0).Type(), types.Typ[types.Bool]) {
			continue
		}
		mi, hi := -1, headerParam(fn)
		for i, prm := range fn.Params {
			if namedName(derefT(prm.Type())) == "HeaderMatcher" && fn.Signature.Recv() == nil {
				mi = i
			}
		}
		if mi < 0 || hi < 0 {
			continue
		}
		gm := vCall("(*route.HeaderMatcher).Match", vParam(fn, mi), vParam(fn, hi))
		ge := union(edgesWhere(fn, cBool(gm), true), edgesWhere(fn, cCmp(token.EQL, vParam(fn, mi), vNil), true))
		okAll, n := true, 0
		allInstrs(fn, func(in ssa.Instruction) {
			if r, ok := in.(*ssa.Return); ok && len(r.Results) == 1 {
				n++
				if ok2, _ := boolImplies(fn, r.Results[0], r.Block(), gm, ge); !ok2 {
					okAll = false
				}
			}
		})
		if okAll && n > 0 {
			gates = append(gates, gateFn{fn, mi, hi})
			p.roleNotes = append(p.roleNotes, "function "+p.FuncKey(fn)+" is a header gate (true ⇒ matcher == nil or matcher.Match(header))")
		}
	}
	guardFor := func(fn *ssa.Function) (VM, EdgeSet) {
		hp := vParam(fn, headerParam(fn))
		isHMField := func(v ssa.Value) bool { return fieldOf(addrOfLoad(strip(v))) == fHM }
		viaGate := func(v ssa.Value) bool {
			cl := asCall(v)
			if cl == nil {
				return false
			}
			sc := cl.Call.StaticCallee()
			for _, gt := range gates {
				if sc == gt.fn {
					as := cl.Call.Args
					return gt.mi < len(as) && gt.hi < len(as) && isHMField(as[gt.mi]) && hp(as[gt.hi])
				}
			}
			return false
		}
		g := vOr(
			vCall("(*route.baseLeaf).matchHeader", vAny, hp),
			vCall("(*route.HeaderMatcher).Match", isHMField, hp),
			viaGate,
		)
		edges := union(
			edgesWhere(fn, cBool(g), true),
			edgesWhere(fn, cCmp(token.EQL, isHMField, vNil), true),
		)
		return g, edges
	}
	sites := leafMatchers(p)
	if mMH != nil {
		sites = append(sites, mMH)
	} else if len(gates) > 0 {
		// the gate lives in a function of another shape, verified above
		c.OK(p.FuncKey(gates[0].fn)+":verdict", p.FuncPos(gates[0].fn), "true verdict ⇒ matcher == nil or matcher.Match(header) on every return", numInstrs(gates[0].fn))
	}
	for _, fn := range sites {
		g, edges := guardFor(fn)
		key := p.FuncKey(fn) + ":verdict"
		nret := 0
		allOK := true
		allInstrs(fn, func(in ssa.Instruction) {
			r, ok := in.(*ssa.Return)
			if !ok || len(r.Results) != 1 {
				return
			}
			nret++
			ok2, why := boolImplies(fn, r.Results[0], r.Block(), g, edges)
			if !ok2 {
				allOK = false
				c.Bad(key, p.Pos(r.Pos()), "the leaf can report a match without its header constraints having been checked against the request's headers: "+why)
			}
		})
		if allOK && nret > 0 {
			c.OK(key, p.FuncPos(fn), "true verdict ⇒ matchHeader(header) on every return", numInstrs(fn))
		}
	}
	// leaf matchers that take no header (the gate moved to the callers): every call is made behind the same
	// leaf's gate, asked about the caller's own header parameter
	for _, fn := range headerlessLeafMatchers(p) {
		key := p.FuncKey(fn) + ":verdict"
		ncalls, bad := 0, ""
		for _, caller := range p.Funcs() {
			if caller.Pkg != p.SSA["route"] {
				continue
			}
			for _, cs := range callsIn(caller, func(n string, cm *ssa.CallCommon) bool {
				if cm.IsInvoke() {
					return cm.Method.Name() == fn.Name() && namedName(derefT(cm.Value.Type())) == "Leaf"
				}
				return cm.StaticCallee() == fn
			}) {
				ncalls++
				cm := cs.Common()
				recv := cm.Value
				if !cm.IsInvoke() {
					recv = cm.Args[0]
				}
				hi := headerParam(caller)
				if hi < 0 {
					bad = p.Pos(cs.Pos()) + ": the caller has no header to ask the gate about"
					continue
				}
				same := func(v ssa.Value) bool { return leafRoot(v) == leafRoot(recv) }
				gate := func(v ssa.Value) bool {
					cl := asCall(v)
					if cl == nil || len(callArgs(&cl.Call)) < 2 {
						return false
					}
					n := callName(&cl.Call)
					if !strings.HasSuffix(n, ").matchHeader") {
						return false
					}
					as := callArgs(&cl.Call)
					return same(as[0]) && vParam(caller, hi)(as[1])
				}
				passed := edgesWhere(caller, cBool(gate), true)
				if ok, path := guardedBy(caller, passed, isInstr(cs)); !ok || len(passed) == 0 {
					bad = p.Pos(cs.Pos()) + ": the matcher is asked although the leaf's header gate has not accepted this request's headers (" + path + ")"
				}
			}
		}
		switch {
		case ncalls == 0:
			// never called: nothing can be matched through it
			c.OK(key, p.FuncPos(fn), "no call site", 1)
		case bad != "":
			c.Bad(key, p.FuncPos(fn), "the leaf matcher takes no headers and a call site does not check the leaf's header constraints first: "+bad)
		default:
			c.OK(key, p.FuncPos(fn), fmt.Sprintf("takes no headers; each of its %d call sites lies behind matchHeader(header) of the same leaf", ncalls), numInstrs(fn))
		}
	}

	// ---- R2 HeaderMatcher.Match is a conjunction with empty values failing
	c.Rule("R2", "E1 guard-cut", "HeaderMatcher.Match returns true only when the iteration over all constraints is exhausted; continuing past a constraint requires a non-empty header value that its expression matches", 3)
	if m := p.Meth("route", "HeaderMatcher", "Match"); m != nil {
		key := p.FuncKey(m)
		var next ssa.Instruction
		var okEdgesExhausted EdgeSet
		var nameV, reV VM
		canonicalKey := false // the entry's name is stored in canonical form (then header[name] is what header.Get reads)
		allInstrs(m, func(in ssa.Instruction) {
			if n, ok := in.(*ssa.Next); ok {
				if rg, ok := n.Iter.(*ssa.Range); ok && vField(vParam(m, 0), "matches")(rg.X) {
					next = n
					okEdgesExhausted = edgesWhere(m, cBool(vExtract(0, vIs(n))), false)
					nameV = vExtract(1, vIs(n))
					reV = vExtract(2, vIs(n))
				}
			}
		})
		if next == nil {
			// the constraints as a list of (name, expression) records visited in ascending order
			list := vField(vParam(m, 0), "matches")
			var idx ssa.Value
			allInstrs(m, func(in ssa.Instruction) {
				if ia, ok := in.(*ssa.IndexAddr); ok && idx == nil && list(ia.X) && ascendingIndex(ia.Index) {
					idx = ia.Index
				}
			})
			if idx != nil {
				exh := edgesWhere(m, cCmp(token.LSS, vIs(idx), vLen(list)), false)
				for e := range exh {
					next = e.B.Instrs[len(e.B.Instrs)-1]
				}
				okEdgesExhausted = exh
				var elemRoot func(v ssa.Value) bool
				elemRoot = func(v ssa.Value) bool {
					v = strip(v)
					if al, ok := v.(*ssa.Alloc); ok && !al.Heap {
						// the range variable spilled into a local: every store is the current element
						sts := cellStores(al, 0)
						for _, st := range sts {
							if _, isAl := strip(st.Val).(*ssa.Alloc); isAl || !elemRoot(st.Val) {
								return false
							}
						}
						return len(sts) > 0
					}
					if u, ok := v.(*ssa.UnOp); ok && u.Op == token.MUL {
						v = u.X
					}
					ia, ok := v.(*ssa.IndexAddr)
					return ok && list(ia.X) && strip(ia.Index) == strip(idx)
				}
				var nameF, reF *types.Var
				if sl, ok := derefT(idxElemType(m, list)).Underlying().(*types.Struct); ok {
					for i := 0; i < sl.NumFields(); i++ {
						f := sl.Field(i)
						if b, ok := f.Type().Underlying().(*types.Basic); ok && b.Kind() == types.String && nameF == nil {
							nameF = f
						}
						if strings.HasSuffix(f.Type().String(), "regexp.Regexp") && reF == nil {
							reF = f
						}
					}
				}
				if nameF != nil && reF != nil && next != nil {
					nameV = vField(elemRoot, nameF.Name())
					reV = vField(elemRoot, reF.Name())
					// every store of the name field is http.CanonicalHeaderKey(…) or textproto's
					stores, canon := 0, 0
					for _, u := range p.FieldUses(nameF) {
						if st, ok := u.Instr.(*ssa.Store); ok && u.Kind == "store" {
							stores++
							if cl := asCall(st.Val); cl != nil {
								if n := callName(&cl.Call); n == "net/http.CanonicalHeaderKey" || n == "net/textproto.CanonicalMIMEHeaderKey" {
									canon++
								}
							}
						}
					}
					canonicalKey = stores > 0 && stores == canon
				} else {
					next = nil
				}
			}
		}
		if next == nil {
			c.Undecided(key+":loop", p.FuncPos(m), "no range over the constraint map found")
		} else {
			okV := vAny
			_ = okV
			hp := vParam(m, 1)
			// header.Get(name), or its definition textproto.MIMEHeader(header).Get(name)
			hpConv := func(v ssa.Value) bool {
				if hp(v) {
					return true
				}
				cv, ok := strip(v).(*ssa.ChangeType)
				return ok && hp(cv.X)
			}
			getV := vOr(vCall("(net/http.Header).Get", hp, nameV), vCall("(net/textproto.MIMEHeader).Get", hpConv, nameV))
			if canonicalKey {
				// header[key][0] for a key stored in canonical form is header.Get's value where one exists
				// (an absent header has no element 0: the index obligation of C07.R2 covers that)
				first := func(v ssa.Value) bool {
					u, ok := strip(v).(*ssa.UnOp)
					if !ok || u.Op != token.MUL {
						return false
					}
					ia, ok := u.X.(*ssa.IndexAddr)
					if !ok || !vConstInt(0)(ia.Index) {
						return false
					}
					lk, ok := strip(ia.X).(*ssa.Lookup)
					return ok && !lk.CommaOk && hpConv(lk.X) && nameV(lk.Index)
				}
				getV = vOr(getV, first)
			}
			mayBeTrue := func(in ssa.Instruction) bool {
				r, ok := in.(*ssa.Return)
				return ok && len(r.Results) == 1 && !vConstBool(false)(r.Results[0])
			}
			exhausted := okEdgesExhausted
			// a nil matcher has no constraints at all (what an unconstrained leaf holds): true there is vacuous
			exhausted = union(exhausted, edgesWhere(m, cCmp(token.EQL, vParam(m, 0), vNil), true))
			in, path := Query{Fn: m, Cut: exhausted}.FromEntry(mayBeTrue)
			if in == nil && len(exhausted) > 0 {
				c.OK(key+":true-only-at-exhaustion", p.FuncPos(m), "a possibly-true return is reachable only through the iterator-exhausted edge", numInstrs(m))
			} else {
				c.Bad(key+":true-only-at-exhaustion", p.FuncPos(m), "Match can return true before every constraint has been examined", blockPath(path))
			}
			cont := func(in ssa.Instruction) bool { return in == next || mayBeTrue(in) }
			nonEmpty := union(
				edgesWhere(m, cEmptyStr(getV), false),
				edgesWhere(m, cCmp(token.GTR, vLen(getV), vConstInt(0)), true),
			)
			in, path = Query{Fn: m, Cut: union(nonEmpty, exhausted)}.After(next, cont)
			if in == nil && len(nonEmpty) > 0 {
				c.OK(key+":empty-fails", p.Pos(next.Pos()), "continuing past a constraint requires header.Get(name) != \"\" for the current entry's name", numInstrs(m))
			} else {
				c.Bad(key+":empty-fails", p.Pos(next.Pos()), "a constraint is considered satisfied although the request's header value is empty/absent", blockPath(path))
			}
			matched := edgesWhere(m, cBool(vCall("(*regexp.Regexp).MatchString", reV, getV)), true)
			in, path = Query{Fn: m, Cut: union(matched, exhausted)}.After(next, cont)
			if in == nil && len(matched) > 0 {
				c.OK(key+":regex-must-match", p.Pos(next.Pos()), "continuing past a constraint requires the entry's own expression to match the entry's own header value", numInstrs(m))
			} else {
				c.Bad(key+":regex-must-match", p.Pos(next.Pos()), "a constraint is considered satisfied without its expression matching the header value", blockPath(path))
			}
		}
	} else {
		c.Anchor("route.HeaderMatcher.Match")
	}

	// ---- R3 Headers() covers every leaf and replaces
	c.Rule("R3", "E3 provenance + E2 order", "Headers() builds a matcher from a map made in this call, applies it to every leaf of the route (no early exit, no skipped iteration) and evicts the shortcut entry on the Static() edge", 3)
	setCalls := map[*ssa.Function][]ssa.CallInstruction{}
	for _, fn := range p.Funcs() {
		cs := callsIn(fn, func(n string, cm *ssa.CallCommon) bool {
			return strings.HasSuffix(n, ".SetHeaderMatcher")
		})
		if len(cs) > 0 {
			setCalls[fn] = cs
		}
	}
	mH := p.Meth("flamego", "Route", "Headers")
	if mH == nil {
		c.Anchor("flamego.Route.Headers")
	} else {
		key := p.FuncKey(mH)
		cs := setCalls[mH]
		if len(cs) == 0 {
			c.Bad(key+":sets", p.FuncPos(mH), "Headers() never sets a header matcher")
		}
		for _, s := range cs {
			pos := p.Pos(s.Pos())
			// fresh matcher
			arg := s.Common().Args[0]
			nm := asCall(arg)
			fresh := false
			var mm *ssa.MakeMap
			if nm != nil && callName(&nm.Call) == "route.NewHeaderMatcher" {
				if x, ok := strip(nm.Call.Args[0]).(*ssa.MakeMap); ok {
					fresh = true
					mm = x
				}
			}
			c.Cond(fresh, key+":replaces", pos, "matcher = NewHeaderMatcher(map made in this call): previous constraints are replaced, not merged", "the matcher is not built from a fresh map: previous constraints may survive: "+vstr(arg))
			if mm != nil {
				checkPairsMap(c, mH, mm, key)
			}
			// receiver is the range value over r.leaves
			recvV := s.Common().Value
			var next *ssa.Next
			if e, ok := strip(recvV).(*ssa.Extract); ok && e.Index == 2 {
				if n, ok := e.Tuple.(*ssa.Next); ok {
					if rg, ok := n.Iter.(*ssa.Range); ok && vField(vParam(mH, 0), "leaves")(rg.X) {
						next = n
					}
				}
			}
			if next == nil {
				c.Undecided(key+":all-leaves", pos, "SetHeaderMatcher's receiver is not the element of a range over Route.leaves: "+vstr(recvV))
				continue
			}
			exhausted := edgesWhere(mH, cBool(vExtract(0, vIs(next))), false)
			in, path := Query{Fn: mH, Cut: exhausted}.After(s, isReturn)
			in2, path2 := Query{Fn: mH, Avoid: isInstr(s)}.After(next, func(in ssa.Instruction) bool { return in == ssa.Instruction(next) })
			switch {
			case in != nil:
				c.Bad(key+":all-leaves", pos, "Headers() can return before every leaf of the route (one per method) has received the matcher", blockPath(path))
			case in2 != nil:
				c.Bad(key+":all-leaves", pos, "an iteration over the route's leaves can skip SetHeaderMatcher", blockPath(path2))
			default:
				c.OK(key+":all-leaves", pos, "every leaf in Route.leaves receives the matcher; the loop ends only by exhaustion", numInstrs(mH))
			}
			checkEviction(c, mH, s, next, key)
		}
	}

	// ---- R4 every leaf created for a registration is linked
	c.Rule("R4", "E3 provenance", "no leaf created while registering a route is discarded: the implicit short-form leaf of an optional route is linked to the long form and SetHeaderMatcher propagates to it", 2)
	for _, fn := range p.Funcs() {
		if fn.Pkg != p.SSA["route"] {
			continue
		}
		allInstrs(fn, func(in ssa.Instruction) {
			call, ok := in.(*ssa.Call)
			if !ok {
				return
			}
			sig := call.Call.Signature()
			if sig.Results().Len() != 2 || namedName(sig.Results().At(0).Type()) != "Leaf" {
				return
			}
			key := p.FuncKey(fn) + ":leaf-result-of:" + callName(&call.Call)
			used := false
			for _, r := range referrers(call) {
				if e, ok := r.(*ssa.Extract); ok && e.Index == 0 {
					for _, rr := range referrers(e) {
						if _, dbg := rr.(*ssa.DebugRef); !dbg {
							used = true
						}
					}
				}
			}
			if used {
				c.OK(key, p.Pos(call.Pos()), "the created leaf is returned or linked", 1)
			} else {
				c.Bad(key, p.Pos(call.Pos()), "a leaf created for this registration is discarded: Route.Headers() can never reach it, so the short form of an optional route is not gated by header constraints")
			}
		})
	}
	// propagation: SetHeaderMatcher forwards to every Leaf-typed field of the leaf struct
	if bl := p.Named("route", "baseLeaf"); bl != nil {
		st := bl.Underlying().(*types.Struct)
		mSet := p.Meth("route", "baseLeaf", "SetHeaderMatcher")
		for i := 0; i < st.NumFields(); i++ {
			f := st.Field(i)
			if namedName(f.Type()) != "Leaf" {
				continue
			}
			key := "route.baseLeaf." + f.Name() + ":propagates"
			if mSet == nil {
				c.Anchor("baseLeaf.SetHeaderMatcher")
				break
			}
			ok := false
			for _, ci := range setCalls[mSet] {
				if ci.Common().IsInvoke() && fieldOf(addrOfLoad(strip(ci.Common().Value))) == f && vParam(mSet, 1)(ci.Common().Args[0]) {
					ok = true
				}
			}
			c.Cond(ok, key, p.FuncPos(mSet), "SetHeaderMatcher forwards the same matcher to the linked leaf "+f.Name(), "leaf field "+f.Name()+" links another leaf but SetHeaderMatcher does not forward the matcher to it")
			// the link is made whenever it is asked for: a setter that stores its Leaf parameter into this field does
			// so on every path (a "defensive" early return silently leaves the short form without its constraints)
			for _, u := range p.FieldUses(f) {
				if u.Kind != "store" {
					continue
				}
				st := u.Instr.(*ssa.Store)
				pi := -1
				for i, prm := range u.Fn.Params {
					if strip(st.Val) == ssa.Value(prm) {
						pi = i
					}
				}
				if pi < 0 {
					continue
				}
				isNil := edgesWhere(u.Fn, cCmp(token.EQL, vParam(u.Fn, pi), vNil), true)
				k2 := p.FuncKey(u.Fn) + ":links-always"
				if x, path := (Query{Fn: u.Fn, Cut: isNil, Avoid: isInstr(st)}).FromEntry(isReturn); x != nil {
					c.Bad(k2, p.Pos(x.Pos()), "the setter of "+f.Name()+" can return without storing the leaf it was given: the implicit short-form leaf stays unlinked and Headers() never reaches it", blockPath(path))
				} else {
					c.OK(k2, p.FuncPos(u.Fn), "every path through the setter stores the given leaf", 1)
				}
			}
		}
		if mSet != nil {
			// the store itself
			ok := false
			for _, u := range p.FieldUses(fHM) {
				if u.Kind == "store" && u.Fn == mSet {
					ok = vParam(mSet, 1)(u.Instr.(*ssa.Store).Val)
				}
			}
			c.Cond(ok, p.FuncKey(mSet)+":stores", p.FuncPos(mSet), "SetHeaderMatcher stores its argument", "SetHeaderMatcher does not store the given matcher")
		}
	}

	// ---- R6 the request's headers reach every matcher
	c.Rule("R6", "E3 pass-through", "every call on the routing path hands the request's own http.Header on unchanged, from ServeHTTP's req.Header down to the leaf matchers", 8)
	passThrough(c, isHTTPHeader, "headers", func(fn *ssa.Function, v ssa.Value) bool {
		// ServeHTTP: req.Header
		return len(fn.Params) >= 3 && vField(vParam(fn, 2), "Header")(v)
	})

	// ---- R7 the shortcut never bypasses a constrained route
	c.Rule("R7", "shared with C10 (R1, R2, R3)", "the shortcut table dispatches without consulting header matchers, so it must hold only leaves that Headers() visits and evicts, under their own route text and method", 6)
	c.Share("C10", []string{"R1", "R2", "R3", "R6"}, 6)

	// ---- R5 who may set a matcher
	// ---- R8 a leaf is handed out as matched only through its own matcher
	c.Rule("R8", "E1 guard-cut", "every tree function that returns (Leaf, …, true) returns a leaf whose own matcher (a Leaf method taking the request's http.Header) returned true on that path, or passes on the (leaf, ok) pair of another such function: no fallback hands out a leaf that was not asked", 3)
	if m := p.Meth("route", "baseTree", "Match"); m != nil {
		leafN := p.Named("route", "Leaf")
		if leafN == nil {
			c.Anchor("route.Leaf")
			return
		}
		isLeafT := func(t types.Type) bool { return types.Identical(t, leafN) }
		returnsLeafOK := func(sig *types.Signature) bool {
			r := sig.Results()
			return r.Len() >= 2 && isLeafT(r.At(0).Type()) && types.Identical(r.At(r.Len()-1).Type(), types.Typ[types.Bool])
		}
		lm := map[string]bool{}
		for _, f := range leafMatchers(p) {
			lm[f.Name()] = true
		}
		n := 0
		for _, fn := range p.ReachFrom(m) {
			if !returnsLeafOK(fn.Signature) || fn.Pkg != p.SSA["route"] {
				continue
			}
			// cut: true edges of leaf-matcher calls and of the ok result of (Leaf, ok) calls
			cut := EdgeSet{}
			pass := map[ssa.Value]bool{}
			allInstrs(fn, func(in ssa.Instruction) {
				cl, ok := in.(*ssa.Call)
				if !ok {
					return
				}
				cm := &cl.Call
				name := ""
				if cm.IsInvoke() {
					name = cm.Method.Name()
				} else if sc := cm.StaticCallee(); sc != nil {
					name = sc.Name()
				}
				asksLeaf := false
				if types.Identical(cl.Type(), types.Typ[types.Bool]) {
					hasHeader, onLeaf := false, false
					for i, a := range callArgs(cm) {
						if shortName(a.Type().String()) == "http.Header" || a.Type().String() == "net/http.Header" {
							hasHeader = true
						}
						if i == 0 {
							t := a.Type()
							iface := leafN.Underlying().(*types.Interface)
							onLeaf = isLeafT(t) || types.Implements(t, iface) || types.Implements(types.NewPointer(derefT(t)), iface)
						}
					}
					asksLeaf = hasHeader && onLeaf
				}
				if (lm[name] || asksLeaf) && types.Identical(cl.Type(), types.Typ[types.Bool]) {
					cut.addAll(edgesWhere(fn, cBool(vIs(cl)), true))
					return
				}
				if sig, isSig := cm.Value.Type().Underlying().(*types.Signature); (isSig && returnsLeafOK(sig)) || (cm.IsInvoke() && returnsLeafOK(cm.Method.Type().(*types.Signature))) {
					pass[cl] = true
					nres := cl.Type().(*types.Tuple).Len()
					cut.addAll(edgesWhere(fn, cBool(vExtract(nres-1, vIs(cl))), true))
				}
			})
			allInstrs(fn, func(in ssa.Instruction) {
				r, ok := in.(*ssa.Return)
				if !ok || len(r.Results) < 2 {
					return
				}
				lv, bv := r.Results[0], r.Results[len(r.Results)-1]
				if vConstBool(false)(bv) || vNil(lv) {
					return
				}
				n++
				key := p.FuncKey(fn) + ":leaf-asked"
				// (leaf, ok) of one call passed on together
				if e0, ok := strip(lv).(*ssa.Extract); ok && pass[e0.Tuple] {
					if e1, ok := strip(bv).(*ssa.Extract); ok && e1.Tuple == e0.Tuple {
						c.OK(key, p.Pos(r.Pos()), "(leaf, ok) of "+callName(&e0.Tuple.(*ssa.Call).Call)+" passed on", 1)
						return
					}
				}
				if okG, path := guardedBy(fn, cut, isInstr(r)); okG && len(cut) > 0 {
					c.OK(key, p.Pos(r.Pos()), "a matched leaf is returned only behind a true verdict of a leaf matcher (or an ok sub-match)", numInstrs(fn))
				} else {
					c.Bad(key, p.Pos(r.Pos()), "a leaf can be returned as matched without its matcher having been asked with the request's headers on that path: header constraints (and the segment test) are bypassed", path)
				}
			})
		}
		if n < 3 {
			c.Anchor("tree functions returning (Leaf, bool)")
		}
	}

	// ---- R9 the constraints that are checked are the constraints that were given
	c.Rule("R9", "E1 (shared pattern of C07.R5)", "NewHeaderMatcher keeps every entry of the map it is given: entries are not copied under a computed key (canonicalised, lower-cased), where two spellings of one header collide and one constraint is silently dropped", 1)
	if nh := p.Fn("route", "NewHeaderMatcher"); nh != nil {
		why := orderDependentMapLoops(nh)
		if len(why) == 0 {
			c.OK(p.FuncKey(nh)+":keeps-every-constraint", p.FuncPos(nh), "no re-keying of the constraint map", 1)
		}
		for _, w := range why {
			c.Bad(p.FuncKey(nh)+":keeps-every-constraint", p.FuncPos(nh), w+" — a request that violates the dropped constraint makes the route eligible")
		}
	} else {
		c.Anchor("route.NewHeaderMatcher")
	}

	c.Rule("R5", "E5 who-may-call", "header matchers are written only through SetHeaderMatcher, which is called only from Route.Headers (and by its own propagation)", 1)
	for fn, cs := range setCalls {
		for _, s := range cs {
			okSite := fn == mH || (fn.Name() == "SetHeaderMatcher" && fn.Pkg == p.SSA["route"])
			c.Cond(okSite, p.FuncKey(fn)+":calls-SetHeaderMatcher", p.Pos(s.Pos()), "allowed caller", "SetHeaderMatcher is called outside Route.Headers: constraints can change without the shortcut being evicted")
		}
	}
	for _, u := range p.FieldUses(fHM) {
		if u.Kind == "load" || u.Fresh {
			continue
		}
		ok := u.Kind == "store" && u.Fn.Name() == "SetHeaderMatcher"
		c.Cond(ok, p.FuncKey(u.Fn)+":headerMatcher."+u.Kind, p.Pos(u.Instr.Pos()), "headerMatcher written by SetHeaderMatcher", "headerMatcher is written outside SetHeaderMatcher")
	}
}

// checkPairsMap: entries are matches[pairs[i-1]] = regexp.MustCompile(pairs[i]).
func checkPairsMap(c *Check, fn *ssa.Function, mm *ssa.MakeMap, key string) {
	p := c.P
	pairsIdx := -1
	for i, prm := range fn.Params {
		if prm.Name() == "pairs" {
			pairsIdx = i
		}
	}
	if pairsIdx < 0 {
		pairsIdx = len(fn.Params) - 1
	}
	pairs := vParam(fn, pairsIdx)
	n := 0
	for _, r := range referrers(mm) {
		mu, ok := r.(*ssa.MapUpdate)
		if !ok || mu.Map != ssa.Value(mm) {
			continue
		}
		n++
		elem := func(v ssa.Value) (ssa.Value, bool) {
			u, ok := strip(v).(*ssa.UnOp)
			if !ok || u.Op != token.MUL {
				return nil, false
			}
			ia, ok := u.X.(*ssa.IndexAddr)
			if !ok || !pairs(ia.X) {
				return nil, false
			}
			return ia.Index, true
		}
		ki, ok1 := elem(mu.Key)
		var vi ssa.Value
		ok2 := false
		if cl := asCall(mu.Value); cl != nil && (callName(&cl.Call) == "regexp.MustCompile" || callName(&cl.Call) == "regexp.Compile") {
			vi, ok2 = elem(cl.Call.Args[0])
		}
		good := ok1 && ok2 && (vBin(token.SUB, vIs(vi), vConstInt(1))(ki) || vBin(token.ADD, vIs(ki), vConstInt(1))(vi))
		c.Cond(good, key+":pairs", p.Pos(mu.Pos()), "matches[pairs[i-1]] = compile(pairs[i])", "constraint map entry is not name=pairs[i-1], expression=pairs[i]: key "+vstr(mu.Key)+" value "+vstr(mu.Value))
	}
	if n == 0 {
		c.Bad(key+":pairs", p.FuncPos(fn), "the constraint map is never filled")
	}
}

// checkEviction: after SetHeaderMatcher, on the Static() edge the shortcut
// entry of the same method and leaf is deleted (shared with C10.R3).
func checkEviction(c *Check, fn *ssa.Function, s ssa.CallInstruction, next *ssa.Next, key string) {
	p := c.P
	leafV := vIs(s.Common().Value)
	staticCall := vCall("(route.Leaf).Static", leafV)
	notStatic := edgesWhere(fn, cBool(staticCall), false)
	isDelete := func(in ssa.Instruction) bool {
		ci, ok := in.(ssa.CallInstruction)
		if !ok || callName(ci.Common()) != "builtin.delete" {
			return false
		}
		a := ci.Common().Args
		// map: staticRoutes[method key of this iteration]
		lk, ok := strip(a[0]).(*ssa.Lookup)
		if !ok || fieldOf(addrOfLoad(strip(lk.X))) != p.Field("flamego", "router", "staticRoutes") || !vExtract(1, vIs(next))(lk.Index) {
			return false
		}
		return vCall("(route.Leaf).Route", leafV)(a[1])
	}
	target := func(in ssa.Instruction) bool { return isReturn(in) || in == ssa.Instruction(next) }
	in, path := Query{Fn: fn, Cut: notStatic, Avoid: isDelete}.After(s, target)
	if in == nil && len(notStatic) > 0 {
		c.OK(key+":evicts", p.Pos(s.Pos()), "after SetHeaderMatcher every path either takes the !Static() edge or deletes staticRoutes[method][leaf.Route()] for the same method and leaf", numInstrs(fn))
	} else {
		c.Bad(key+":evicts", p.Pos(s.Pos()), "a static route keeps its shortcut entry after header constraints are set: the shortcut dispatches without checking headers", blockPath(path))
	}
}

// passThrough checks that every call from a routing-path function to another
// module function hands over the caller's own parameter of the given type (or,
// where the caller has none, a value accepted by origin).
func passThrough(c *Check, isT func(types.Type) bool, what string, origin func(fn *ssa.Function, v ssa.Value) bool) int {
	p := c.P
	n := 0
	for _, fn := range routingFuncs(p) {
		own := -1
		for i, prm := range fn.Params {
			if isT(prm.Type()) {
				own = i
			}
		}
		allInstrs(fn, func(in ssa.Instruction) {
			ci, ok := in.(ssa.CallInstruction)
			if !ok {
				return
			}
			cals := p.moduleCallees(ci.Common())
			if len(cals) == 0 {
				return
			}
			args := callArgs(ci.Common())
			sig := cals[0].Params
			for i, prm := range sig {
				if i >= len(args) || !isT(prm.Type()) {
					continue
				}
				// skip the receiver position
				if i == 0 && cals[0].Signature.Recv() != nil {
					continue
				}
				n++
				key := p.FuncKey(fn) + ":passes-" + what + "-to:" + callName(ci.Common())
				ok := false
				if own >= 0 {
					ok = vParam(fn, own)(args[i])
				} else {
					ok = origin(fn, args[i])
				}
				c.Cond(ok, key, p.Pos(in.Pos()), "the caller's own "+what+" is handed on unchanged", "the routing path hands "+vstr(args[i])+" instead of the request's "+what+" to "+callName(ci.Common()))
			}
		})
	}
	return n
}

// headerRejectEdges: the false edges of every bool-valued call that is given the function's own
// http.Header parameter (matchHeader, HeaderMatcher.Match, or a gate of another shape): leaving
// through one of them is a rejection for header reasons (what the gate decides is C09's business).
func headerRejectEdges(fn *ssa.Function) EdgeSet {
	out := EdgeSet{}
	hi := headerParam(fn)
	if hi < 0 {
		return out
	}
	hp := vParam(fn, hi)
	allInstrs(fn, func(in ssa.Instruction) {
		cl, ok := in.(*ssa.Call)
		if !ok || !types.Identical(cl.Type(), types.Typ[types.Bool]) {
			return
		}
		for _, a := range callArgs(&cl.Call) {
			if hp(a) {
				out.addAll(edgesWhere(fn, cBool(vIs(cl)), false))
			}
		}
	})
	return out
}

// idxElemType returns the element type of the slice-typed field "matches" of fn's receiver (nil-safe: an
// invalid type when there is none).
func idxElemType(fn *ssa.Function, _ VM) types.Type {
	if len(fn.Params) > 0 {
		if st, ok := derefT(fn.Params[0].Type()).Underlying().(*types.Struct); ok {
			for i := 0; i < st.NumFields(); i++ {
				if aliasedFieldName(st.Field(i)) == "matches" {
					if sl, ok := st.Field(i).Type().Underlying().(*types.Slice); ok {
						return sl.Elem()
					}
				}
			}
		}
	}
	return types.Typ[types.Invalid]
}


// headerlessLeafMatchers: the matching methods of Leaf implementations (match, matchAll) that take no http.Header.
func headerlessLeafMatchers(p *Prog) []*ssa.Function {
	leafN := p.Named("route", "Leaf")
	if leafN == nil {
		return nil
	}
	iface := leafN.Underlying().(*types.Interface)
	var out []*ssa.Function
	for _, fn := range p.Funcs() {
		if fn.Parent() != nil || fn.Signature.Recv() == nil || fn.Pkg != p.SSA["route"] || len(fn.Blocks) == 0 {
			continue
		}
		if fn.Name() != "match" && fn.Name() != "matchAll" {
			continue
		}
		rt := fn.Signature.Recv().Type()
		if !types.Implements(rt, iface) && !types.Implements(types.NewPointer(derefT(rt)), iface) {
			continue
		}
		res := fn.Signature.Results()
		if res.Len() != 1 || !types.Identical(res.At(0).Type(), types.Typ[types.Bool]) || headerParam(fn) >= 0 {
			continue
		}
		out = append(out, fn)
	}
	return out
}

// leafRoot strips type assertions (leaf.(*matchAllLeaf), comma-ok or not) and interface conversions.
func leafRoot(v ssa.Value) ssa.Value {
	for i := 0; i < 6; i++ {
		v = strip(v)
		switch x := v.(type) {
		case *ssa.TypeAssert:
			v = x.X
			continue
		case *ssa.Extract:
			if ta, ok := x.Tuple.(*ssa.TypeAssert); ok && x.Index == 0 {
				v = ta.X
				continue
			}
		case *ssa.MakeInterface:
			v = x.X
			continue
		}
		break
	}
	return strip(v)
}
