package main

// C17 Render sends the given status, the right content type and a faithful body.

import (
	"go/token"
	"go/types"
	"strings"

	"golang.org/x/tools/go/ssa"
)

func init() { register("C17", checkC17) }

func checkC17(c *Check) {
	p := c.P
	c.Explain = "per render method: ordering Content-Type → WriteHeader(own status) → body by cut-reachability, provenance of content type, status and body arguments, option flow into the encoders, and the per-request mapping of Render"
	c.NotDec = []string{"fidelity of encoding/json and encoding/xml (standard library)", "that the body decodes back to the value"}
	c.Trusted = []string{"encoding/json", "encoding/xml"}

	c.Rule("R1", "E2 + E3", "each of JSON/XML/Binary/PlainText sets Content-Type (format constant, configured charset for text formats), then calls WriteHeader with its own status parameter, then writes the body derived from its own value parameter, all on the render's writer", 12)
	c.Rule("R2", "E3 + E1", "indentation options reach the encoders when non-empty; the charset defaults to utf-8", 3)
	specs := []struct {
		name, marker string
		charset      bool
		enc          string // encoder package or "" for raw write
		indentField  string
		indentCall   string
	}{
		{"JSON", "json", true, "encoding/json", "JSONIndent", "(*encoding/json.Encoder).SetIndent"},
		{"XML", "xml", true, "encoding/xml", "XMLIndent", "(*encoding/xml.Encoder).Indent"},
		{"Binary", "octet-stream", false, "", "", ""},
		{"PlainText", "text/plain", true, "", "", ""},
	}
	rnFn := p.Fn("flamego", "Renderer")
	// the field(s) of render that hold a configured option: opts.<name>, or a field of render
	// that Renderer fills from the (defaulted) option of that name
	optField := func(recv VM, name string) VM {
		direct := vField(recv, "opts", name)
		var alt []string
		if rnFn != nil {
			for _, l := range withLits(rnFn) {
				allInstrs(l, func(in ssa.Instruction) {
					st, ok := in.(*ssa.Store)
					if !ok {
						return
					}
					fa, ok := st.Addr.(*ssa.FieldAddr)
					if !ok {
						return
					}
					if al, isAl := strip(fa.X).(*ssa.Alloc); !isAl || namedName(derefT(al.Type())) != "render" {
						return
					}
					if vFieldNamed(name)(st.Val) {
						alt = append(alt, fieldOf(fa).Name())
					}
				})
			}
		}
		return func(v ssa.Value) bool {
			if direct(v) {
				return true
			}
			for _, f := range alt {
				if vField(recv, f)(v) {
					return true
				}
			}
			return false
		}
	}
	for _, sp := range specs {
		m := p.Meth("flamego", "render", sp.name)
		if m == nil {
			c.curRule = "C17.R1"
			c.Anchor("render." + sp.name)
			continue
		}
		key := p.FuncKey(m)
		recv := vParam(m, 0)
		w := vField(recv, "responseWriter")
		c.curRule = "C17.R1"
		// content type
		var setCT ssa.Instruction
		okCT := false
		for _, ci := range callsNamed(m, "(net/http.Header).Set") {
			a := ci.Common().Args
			if !vConstStr("Content-Type")(a[1]) || !vCall("(net/http.ResponseWriter).Header", w)(a[0]) {
				continue
			}
			setCT = ci
			ct := a[2]
			// a text precomputed when the render was constructed (a field of render, or of a struct value kept in
			// one, that Renderer fills): judged at the place where it is computed, with the option value that is
			// stored into the same render
			ctorCharset := VM(nil)
			if cv, csOK := ctorFieldExpr(p, rnFn, recv, ct); cv != nil {
				ct = cv
				ctorCharset = csOK
			}
			if sp.charset {
				// constant text naming the format and "charset=", then the configured charset
				parts := concatParts(ct)
				text := ""
				allConst := len(parts) >= 2
				for _, pt := range parts[:len(parts)-1] {
					s, isS := constStr(pt)
					if !isS {
						allConst = false
					}
					text += s
				}
				// the charset: the configured field, or — only on the edge where that field is empty — the
				// documented default (a defensive fallback equal to what option parsing stores)
				isCharset := func(v ssa.Value) bool {
					cs := optField(recv, "Charset")
					if ctorCharset != nil {
						cs = ctorCharset
					}
					if cs(v) {
						return true
					}
					ph, isPhi := strip(v).(*ssa.Phi)
					if !isPhi {
						return false
					}
					emptyCS := edgesWhere(m, cEmptyStr(cs), true)
					for i, e := range ph.Edges {
						switch {
						case cs(e):
						case vConstStr("utf-8")(e) && len(emptyCS) > 0 && edgeGuarded(m, emptyCS, ph.Block().Preds[i], ph.Block()):
						default:
							return false
						}
					}
					return true
				}
				if allConst && strings.Contains(text, sp.marker) && strings.HasSuffix(text, "charset=") && isCharset(parts[len(parts)-1]) {
					okCT = true
				}
			} else if s, isS := constStr(ct); isS && strings.Contains(s, sp.marker) {
				okCT = true
			}
		}
		c.Cond(okCT, key+":content-type", p.FuncPos(m), "Content-Type names "+sp.marker+map[bool]string{true: " with the configured charset", false: ""}[sp.charset], "Content-Type is not the "+sp.marker+" type"+map[bool]string{true: " followed by the configured charset", false: ""}[sp.charset])
		// status
		var wh ssa.Instruction
		okWH := false
		for _, ci := range callsIn(m, func(n string, cm *ssa.CallCommon) bool { return cm.IsInvoke() && cm.Method.Name() == "WriteHeader" }) {
			if w(ci.Common().Value) {
				wh = ci
				okWH = vParam(m, 1)(ci.Common().Args[0])
			}
		}
		c.Cond(okWH, key+":status", p.FuncPos(m), "WriteHeader(status) with the method's own parameter", "the status sent is not the caller's status parameter")
		// body
		var body ssa.Instruction
		okBody := false
		var encV ssa.Value
		var encCall ssa.Instruction // the Encode call (the body itself, or what fills the buffer that is written)
		encFailed := EdgeSet{}
		if sp.enc != "" {
			for _, ci := range callsNamed(m, "(*"+sp.enc+".Encoder).Encode") {
				a := ci.Common().Args
				if vCall(sp.enc+".NewEncoder", w)(a[0]) && vParam(m, 2)(a[1]) {
					body, okBody, encV = ci, true, a[0]
					encCall = ci
					continue
				}
				// encoded into a local buffer first, the buffer's bytes written to the render's writer afterwards
				// (nothing is sent for a value that cannot be encoded)
				ne := asCall(a[0])
				if ne == nil || callName(&ne.Call) != sp.enc+".NewEncoder" || !vParam(m, 2)(a[1]) {
					continue
				}
				var buf *ssa.Alloc
				if mi, isMI := ne.Call.Args[0].(*ssa.MakeInterface); isMI {
					buf, _ = mi.X.(*ssa.Alloc)
				}
				if buf == nil || derefT(buf.Type()).String() != "bytes.Buffer" {
					continue
				}
				var bytesCalls []*ssa.Call
				clean := true
				for _, r := range referrers(buf) {
					switch x := r.(type) {
					case *ssa.MakeInterface:
						if x != ne.Call.Args[0] {
							clean = false
						}
					case *ssa.Call:
						switch callName(&x.Call) {
						case "(*bytes.Buffer).Bytes":
							bytesCalls = append(bytesCalls, x)
						case "(*bytes.Buffer).Len", "(*bytes.Buffer).Grow":
						default:
							clean = false
						}
					case *ssa.DebugRef:
					default:
						clean = false
					}
				}
				if !clean || len(bytesCalls) != 1 {
					continue
				}
				for _, wc := range callsIn(m, func(n string, cm *ssa.CallCommon) bool { return cm.IsInvoke() && cm.Method.Name() == "Write" }) {
					if !w(wc.Common().Value) || strip(wc.Common().Args[0]) != ssa.Value(bytesCalls[0]) {
						continue
					}
					if ok, _ := mustPrecede(m, isInstr(ci), bytesCalls[0]); !ok {
						continue
					}
					body, okBody, encV, encCall = wc, true, a[0], ci
					encFailed = edgesWhere(m, cCmp(token.NEQ, vIs(ci.(*ssa.Call)), vNil), true)
				}
			}
		} else {
			for _, ci := range callsIn(m, func(n string, cm *ssa.CallCommon) bool { return cm.IsInvoke() && cm.Method.Name() == "Write" }) {
				if !w(ci.Common().Value) {
					continue
				}
				arg := ci.Common().Args[0]
				if vParam(m, 2)(arg) {
					body, okBody = ci, true
				} else if cv, ok := strip(arg).(*ssa.Convert); ok && vParam(m, 2)(cv.X) {
					body, okBody = ci, true
				}
			}
			// io.WriteString(w, s): the writer's WriteString if it has one, else Write([]byte(s)) — the same bytes
			for _, ci := range callsNamed(m, "io.WriteString") {
				a := ci.Common().Args
				if w(a[0]) && vParam(m, 2)(a[1]) {
					body, okBody = ci, true
				}
			}
		}
		c.Cond(okBody, key+":body", p.FuncPos(m), "body is the method's own value parameter written/encoded to the render's writer", "the body is not produced from the caller's value on the render's own writer")
		// order
		if setCT != nil && wh != nil && body != nil {
			ok1, _ := mustPrecede(m, isInstr(setCT), wh)
			ok2, _ := mustPrecede(m, isInstr(wh), body)
			ok3, _ := Query{Fn: m, Cut: encFailed, Avoid: isInstr(body)}.FromEntry(isReturn)
			c.Cond(ok1 && ok2 && ok3 == nil, key+":order", p.Pos(wh.Pos()), "Content-Type → WriteHeader → body on every path", "headers must be set before WriteHeader and WriteHeader before the body on every path (a header set after the status line is lost; a body before it implies 200)")
		}
		// ---- R2 indentation
		if sp.indentCall != "" && encV != nil && body != nil {
			c.curRule = "C17.R2"
			field := optField(recv, sp.indentField)
			nonEmpty := edgesWhere(m, cEmptyStr(field), false)
			isIndent := func(in ssa.Instruction) bool {
				ci, ok := in.(ssa.CallInstruction)
				if !ok || callName(ci.Common()) != sp.indentCall {
					return false
				}
				a := ci.Common().Args
				return strip(a[0]) == strip(encV) && vConstStr("")(a[1]) && field(a[2])
			}
			bad := len(nonEmpty) == 0
			target := body
			if encCall != nil {
				target = encCall
			}
			for e := range nonEmpty {
				if in, _ := (Query{Fn: m, Avoid: isIndent}).Reach(e.B.Succs[e.S], 0, isInstr(target)); in != nil {
					bad = true
				}
			}
			// … and the decision is taken before the value is encoded: every path to Encode passed the
			// "indent is empty" edge or the indent call
			isEmpty := edgesWhere(m, cEmptyStr(field), true)
			if in, _ := (Query{Fn: m, Cut: isEmpty, Avoid: isIndent}).FromEntry(isInstr(target)); in != nil {
				bad = true
			}
			c.Cond(!bad, key+":indent", p.Pos(body.Pos()), "non-empty "+sp.indentField+" ⇒ "+sp.indentCall+"(enc, \"\", "+sp.indentField+") before Encode", "the configured indentation does not reach the encoder")
		}
	}
	// charset default
	c.curRule = "C17.R2"
	rn := p.Fn("flamego", "Renderer")
	if rn == nil {
		c.Anchor("flamego.Renderer")
		return
	}
	def := false
	for _, l := range withLits(rn) {
		allInstrs(l, func(in ssa.Instruction) {
			s, ok := in.(*ssa.Store)
			if !ok {
				return
			}
			if f := fieldOf(strip(s.Addr)); f != nil && f.Name() == "Charset" && vConstStr("utf-8")(s.Val) {
				g := edgesWhere(l, cEmptyStr(vFieldNamed("Charset")), true)
				if ok2, _ := guardedBy(l, g, isInstr(in)); ok2 && len(g) > 0 {
					def = true
				}
			}
		})
	}
	c.Cond(def, p.FuncKey(rn)+":charset-default", p.FuncPos(rn), "empty Charset defaults to utf-8", "the charset no longer defaults to utf-8")

	// ---- R4 what a render method writes reaches the client
	c.Rule("R4", "shared with C13 (R1, R4)", "the writer the render methods use forwards every body byte (non-HEAD) and sends the status it is given: no status-dependent filtering between render and the client", 6)
	c.Share("C13", []string{"R1", "R4"}, 6)

	// ---- R3 per-request availability
	c.Rule("R3", "E3 provenance", "Renderer's handler maps a fresh render (configured options, the request's own ResponseWriter) as Render on the request context", 1)
	okMap := false
	for _, l := range withLits(rn)[1:] {
		for _, ci := range callsIn(l, func(n string, cm *ssa.CallCommon) bool { return cm.IsInvoke() && cm.Method.Name() == "MapTo" }) {
			if len(l.Params) == 0 || !vParam(l, 0)(ci.Common().Value) {
				continue
			}
			a := ci.Common().Args
			al, isAl := strip(a[0]).(*ssa.Alloc)
			if !isAl || namedName(derefT(al.Type())) != "render" {
				continue
			}
			// the render must be allocated by this activation of the handler, not cached in a
			// variable that outlives the request
			if cell := cellOf(a[0]); cell != nil && cell.Parent() != l {
				continue
			}
			if al.Parent() != l {
				continue
			}
			okW, okO := false, false
			for _, r := range referrers(al) {
				if fa, ok := r.(*ssa.FieldAddr); ok {
					for _, rr := range referrers(fa) {
						if st, ok := rr.(*ssa.Store); ok && st.Addr == ssa.Value(fa) {
							switch fieldOf(fa).Name() {
							case "responseWriter":
								okW = vCall("(flamego.Context).ResponseWriter", vParam(l, 0))(st.Val)
							case "opts":
								okO = true
							default:
								// the options spread over fields of their own
								if vFieldNamed("Charset")(st.Val) {
									okO = true
								}
							}
						}
					}
				}
			}
			isRenderPtr := false
			if cst, ok := strip(a[1]).(*ssa.Const); ok && cst.Value == nil {
				if pt, ok := cst.Type().(*types.Pointer); ok && namedName(pt.Elem()) == "Render" {
					isRenderPtr = true
				}
			}
			if okW && okO && isRenderPtr {
				okMap = true
				// on every path: a Renderer that steps aside for some requests (something is mapped already, a
				// method, a header) leaves later handlers without the render configured here
				if x, path := (Query{Fn: l, Avoid: isInstr(ci)}).FromEntry(isReturn); x != nil {
					c.Bad(p.FuncKey(rn)+":maps-render:always", p.Pos(ci.Pos()), "Renderer's handler can return without mapping its render: handlers after it get no Render, or the one an earlier Renderer configured with other options", blockPath(path))
				} else {
					c.OK(p.FuncKey(rn)+":maps-render:always", p.Pos(ci.Pos()), "every path through the handler maps the render", numInstrs(l))
				}
			}
		}
	}
	c.Cond(okMap, p.FuncKey(rn)+":maps-render", p.FuncPos(rn), "c.MapTo(&render{opts, c.ResponseWriter()}, (*Render)(nil)) on the request context", "Renderer does not map a fresh render bound to the request's writer on the request context")
}

// structFieldValues: the values field `field` of the struct value v may hold, followed through loads of
// local cells (also captured ones), whole-struct copies and field stores. nil when the flow is not understood.
func structFieldValues(v ssa.Value, field string, depth int) []ssa.Value {
	if depth > 6 {
		return nil
	}
	v = strip(v)
	u, ok := v.(*ssa.UnOp)
	if !ok || u.Op != token.MUL {
		return nil
	}
	var cell ssa.Value = u.X
	for {
		fv, isFV := cell.(*ssa.FreeVar)
		if !isFV {
			break
		}
		cell = freeVarBinding(fv)
	}
	al, isAl := cell.(*ssa.Alloc)
	if !isAl {
		return nil
	}
	var out []ssa.Value
	understood := true
	var visit func(c ssa.Value, d int)
	visit = func(c ssa.Value, d int) {
		if d > 4 {
			understood = false
			return
		}
		for _, r := range referrers(c) {
			switch x := r.(type) {
			case *ssa.FieldAddr:
				if fieldOf(x).Name() != field {
					continue
				}
				for _, rr := range referrers(x) {
					if st, isSt := rr.(*ssa.Store); isSt && st.Addr == ssa.Value(x) {
						out = append(out, st.Val)
					}
				}
			case *ssa.Store:
				if x.Addr == c {
					// whole-struct copy
					sub := structFieldValues(x.Val, field, depth+1)
					if sub == nil {
						if _, isC := strip(x.Val).(*ssa.Const); !isC {
							// a call result or parameter: not understood, unless it is a zero value
							understood = false
						}
					}
					out = append(out, sub...)
				}
			case *ssa.MakeClosure:
				for i, b := range x.Bindings {
					if b == c {
						visit(x.Fn.(*ssa.Function).FreeVars[i], d+1)
					}
				}
			}
		}
	}
	visit(al, 0)
	if !understood {
		return nil
	}
	return out
}

// ctorFieldExpr resolves a read of recv.f (or recv.f.g, f holding a struct value) in a method of
// render to the expression Renderer stores there when it constructs the render. It also returns a
// matcher for "field Charset of the options value stored into the same render's opts".
func ctorFieldExpr(p *Prog, rnFn *ssa.Function, recv VM, v ssa.Value) (ssa.Value, VM) {
	if rnFn == nil {
		return nil, nil
	}
	r, ns, ok := fieldPath(v)
	if !ok || !recv(r) || len(ns) == 0 || len(ns) > 2 || ns[0] == "opts" {
		return nil, nil
	}
	var found []ssa.Value
	var optsCell *ssa.Alloc
	n := 0
	for _, l := range withLits(rnFn) {
		allInstrs(l, func(in ssa.Instruction) {
			al, isAl := in.(*ssa.Alloc)
			if !isAl || namedName(derefT(al.Type())) != "render" {
				return
			}
			n++
			stored := func(obj ssa.Value, field string) ssa.Value {
				var val ssa.Value
				for _, rf := range referrers(obj) {
					if fa, isFA := rf.(*ssa.FieldAddr); isFA && fieldOf(fa).Name() == field {
						for _, rr := range referrers(fa) {
							if st, isSt := rr.(*ssa.Store); isSt && st.Addr == ssa.Value(fa) {
								val = st.Val
							}
						}
					}
				}
				return val
			}
			val := stored(al, ns[0])
			if val == nil {
				return
			}
			if len(ns) == 2 {
				found = structFieldValues(val, ns[1], 0)
			} else {
				found = []ssa.Value{val}
			}
			if ov := stored(al, "opts"); ov != nil {
				optsCell = cellOf(ov)
			}
		})
	}
	if len(found) != 1 || n != 1 {
		return nil, nil
	}
	// "the Charset of the options stored into the same render": a read of field Charset of the cell whose
	// value becomes render.opts (possibly through a plain local copy)
	cs := func(x ssa.Value) bool {
		x = strip(x)
		u, isU := x.(*ssa.UnOp)
		if !isU {
			return false
		}
		fa, isFA := u.X.(*ssa.FieldAddr)
		if !isFA || fieldOf(fa).Name() != "Charset" {
			return false
		}
		var cell ssa.Value = fa.X
		for {
			fv, isFV := cell.(*ssa.FreeVar)
			if !isFV {
				break
			}
			cell = freeVarBinding(fv)
		}
		if optsCell == nil {
			return false
		}
		if cell != ssa.Value(optsCell) {
			// the render's options are a plain copy (one store, of a load) of the variable that is read here:
			// the same value as long as that variable is not written after the copy was taken (nor after this read,
			// checked below)
			src := copiedFrom(optsCell)
			if src == nil || cell != ssa.Value(src.X) {
				return false
			}
			al, isAl := src.X.(*ssa.Alloc)
			if !isAl {
				return false
			}
			writesSrc := func(in ssa.Instruction) bool {
				st, isSt := in.(*ssa.Store)
				if !isSt {
					return false
				}
				r, _ := addrRoot(st.Addr)
				return r == ssa.Value(al)
			}
			if src.Parent() == nil {
				return false
			}
			if x, _ := (Query{Fn: src.Parent()}).After(src, writesSrc); x != nil {
				return false
			}
			if fn := u.Parent(); fn == nil || fn != src.Parent() {
				return false
			} else if x, _ := (Query{Fn: fn}).After(u, writesSrc); x != nil {
				return false
			}
			return true
		}
		// … read when the options are final: no store into the options variable (the defaulting step
		// `opt = parseRenderOptions(opt)`, a field assignment) can still follow the read
		fn := u.Parent()
		if fn == nil {
			return false
		}
		writesOpts := func(in ssa.Instruction) bool {
			st, isSt := in.(*ssa.Store)
			if !isSt {
				return false
			}
			r, _ := addrRoot(st.Addr)
			return r == ssa.Value(optsCell)
		}
		if x, _ := (Query{Fn: fn}).After(u, writesOpts); x != nil {
			return false
		}
		return true
	}
	return found[0], cs
}

// copiedFrom: the cell has exactly one store and its value is a load of another variable; that load.
func copiedFrom(cell *ssa.Alloc) *ssa.UnOp {
	sts := cellStores(cell, 0)
	if len(sts) != 1 {
		return nil
	}
	u, ok := sts[0].Val.(*ssa.UnOp)
	if !ok || u.Op != token.MUL {
		return nil
	}
	if _, isAl := u.X.(*ssa.Alloc); !isAl {
		return nil
	}
	return u
}
