package main

// Per-key records → parallel maps. When a canonical struct lacks two (or more) canonical map fields with
// the same key type, A map[K]T1 and B map[K]T2, and has one unknown private field g map[K]S or map[K]*S
// whose element S is a private struct with exactly one field of type T1 and one of type T2, then g[k].f1 is
// the canonical A[k] and g[k].f2 the canonical B[k] in another arrangement. The step rewrites
//
//	g map[K]*S                      →  A map[K]T1; B map[K]T2
//	g: make(map[K]*S…)              →  A: make(map[K]T1), B: make(map[K]T2)
//	x.g[k] = &S{f1: e1, f2: e2}     →  x.A[k] = e1; x.B[k] = e2
//	x.g[k].f1                       →  x.A[k]
//	v := x.g[k] … v.f1              →  … x.A[k]          (k and x plain and not reassigned)
//	v, ok := x.g[k] … v.f1          →  _, ok := x.A[k] … x.A[k]
//
// and gives up on any other use of g or S (and if S's fields are ever assigned separately). The result is
// type-checked like every normalisation step.

import (
	"fmt"
	"go/ast"
	"go/token"
	"go/types"
	"strings"
)

func (ns *normState) planSplitRecords() editSet {
	es := editSet{}
	for _, short := range []string{"flamego", "inject", "route"} {
		pk := ns.pkgs[short]
		if pk == nil {
			continue
		}
		info := pk.TypesInfo
		sc := pk.Types.Scope()
		byStruct := map[string][]canonField{}
		for _, f := range canonFields {
			if f.Pkg == short {
				byStruct[f.Struct] = append(byStruct[f.Struct], f)
			}
		}
		for sname, cfs := range byStruct {
			tn, ok := sc.Lookup(sname).(*types.TypeName)
			if !ok {
				continue
			}
			st, ok := tn.Type().Underlying().(*types.Struct)
			if !ok {
				continue
			}
			have := map[string]bool{}
			canon := map[string]string{}
			for _, cf := range cfs {
				canon[cf.Name] = cf.Type
			}
			var extras []*types.Var
			for i := 0; i < st.NumFields(); i++ {
				f := st.Field(i)
				have[f.Name()] = true
				if _, isCanon := canon[f.Name()]; !isCanon && !f.Exported() && !f.Embedded() {
					extras = append(extras, f)
				}
			}
			// missing canonical map fields, by element type
			type miss struct{ name, elem string }
			missByKey := map[string][]miss{}
			for n, t := range canon {
				if have[n] || !strings.HasPrefix(t, "map[") {
					continue
				}
				// key type text up to the matching bracket
				depth, end := 0, -1
				for i, ch := range t {
					if ch == '[' {
						depth++
					} else if ch == ']' {
						depth--
						if depth == 0 {
							end = i
							break
						}
					}
				}
				if end < 0 {
					continue
				}
				missByKey[t[4:end]] = append(missByKey[t[4:end]], miss{n, t[end+1:]})
			}
			for _, g := range extras {
				mt, ok := g.Type().(*types.Map)
				if !ok {
					continue
				}
				elem := mt.Elem()
				if p, isP := elem.(*types.Pointer); isP {
					elem = p.Elem()
				}
				S, ok := elem.(*types.Named)
				if !ok || S.Obj().Exported() || S.Obj().Pkg() != pk.Types || S.NumMethods() > 0 {
					continue
				}
				ss, ok := S.Underlying().(*types.Struct)
				if !ok {
					continue
				}
				ms := missByKey[typeStr(mt.Key())]
				if len(ms) < 2 || ss.NumFields() != len(ms) {
					continue
				}
				// one field per missing map, matched by type; types must be pairwise distinct
				fieldTo := map[string]string{} // field of S → canonical map field
				used := map[string]bool{}
				okMatch := true
				for i := 0; i < ss.NumFields(); i++ {
					f := ss.Field(i)
					n := 0
					for _, m := range ms {
						if typeStr(f.Type()) == m.elem {
							n++
							fieldTo[f.Name()] = m.name
						}
					}
					if n != 1 || used[fieldTo[f.Name()]] {
						okMatch = false
					}
					used[fieldTo[f.Name()]] = true
				}
				if !okMatch {
					continue
				}
				if e := ns.splitRecordEdits(pk.Syntax, info, tn, g, S, fieldTo); e != nil {
					for f, l := range e {
						es[f] = append(es[f], l...)
					}
					var parts []string
					for f, m := range fieldTo {
						parts = append(parts, g.Name()+"[k]."+f+" as "+m+"[k]")
					}
					ns.notes = append(ns.notes, fmt.Sprintf("the per-key records %s.%s.%s (element %s) are read as the parallel maps of the canonical tree: %s", short, sname, g.Name(), S.Obj().Name(), strings.Join(parts, ", ")))
				}
			}
		}
	}
	return es
}

func (ns *normState) splitRecordEdits(files []*ast.File, info *types.Info, S0 *types.TypeName, g *types.Var, S *types.Named, fieldTo map[string]string) editSet {
	es := editSet{}
	ok := true
	handledG := map[*ast.Ident]bool{}
	handledS := map[*ast.Ident]bool{}
	handledV := map[*ast.Ident]bool{}
	ss := S.Underlying().(*types.Struct)
	fieldType := map[string]string{} // canonical map → source text of the element type
	var keyText string
	// declarations
	for _, f := range files {
		ast.Inspect(f, func(n ast.Node) bool {
			ts, isTS := n.(*ast.TypeSpec)
			if !isTS {
				return true
			}
			stt, isSt := ts.Type.(*ast.StructType)
			if !isSt {
				return true
			}
			if info.Defs[ts.Name] == types.Object(S.Obj()) {
				for _, fl := range stt.Fields.List {
					for _, nm := range fl.Names {
						fieldType[fieldTo[nm.Name]] = ns.srcText(fl.Type.Pos(), fl.Type.End())
					}
				}
			}
			return true
		})
	}
	if len(fieldType) != ss.NumFields() {
		return nil
	}
	order := make([]string, 0, ss.NumFields())
	for i := 0; i < ss.NumFields(); i++ {
		order = append(order, ss.Field(i).Name())
	}
	for _, f := range files {
		ast.Inspect(f, func(n ast.Node) bool {
			ts, isTS := n.(*ast.TypeSpec)
			if !isTS || info.Defs[ts.Name] != types.Object(S0) {
				return true
			}
			stt := ts.Type.(*ast.StructType)
			for _, fl := range stt.Fields.List {
				for _, nm := range fl.Names {
					if info.Defs[nm] != types.Object(g) {
						continue
					}
					mt, isM := fl.Type.(*ast.MapType)
					if len(fl.Names) != 1 || !isM {
						ok = false
						return false
					}
					keyText = ns.srcText(mt.Key.Pos(), mt.Key.End())
					var parts []string
					for _, fn := range order {
						parts = append(parts, fieldTo[fn]+" map["+keyText+"]"+fieldType[fieldTo[fn]])
					}
					es.add(ns.fset, fl.Pos(), fl.Type.End(), strings.Join(parts, "; "))
					handledG[nm] = true
					markIdents(mt.Value, info, S.Obj(), handledS)
				}
			}
			return false
		})
	}
	if keyText == "" || !ok {
		return nil
	}
	isG := func(e ast.Expr) (x ast.Expr, is bool) {
		sel, isSel := e.(*ast.SelectorExpr)
		if !isSel || info.Uses[sel.Sel] != types.Object(g) {
			return nil, false
		}
		return sel.X, true
	}
	recordLit := func(e ast.Expr) *ast.CompositeLit {
		if u, isU := e.(*ast.UnaryExpr); isU && u.Op == token.AND {
			e = u.X
		}
		cl, isCL := e.(*ast.CompositeLit)
		if !isCL {
			return nil
		}
		if tv, has := info.Types[cl]; !has || !types.Identical(tv.Type, S) {
			return nil
		}
		return cl
	}
	for _, f := range files {
		for _, d := range f.Decls {
			fd, isFD := d.(*ast.FuncDecl)
			if !isFD || fd.Body == nil {
				continue
			}
			assigned := map[types.Object]bool{}
			ast.Inspect(fd.Body, func(n ast.Node) bool {
				switch x := n.(type) {
				case *ast.AssignStmt:
					if x.Tok != token.DEFINE {
						for _, l := range x.Lhs {
							if id, isId := l.(*ast.Ident); isId {
								assigned[info.ObjectOf(id)] = true
							}
						}
					}
				case *ast.IncDecStmt:
					if id, isId := x.X.(*ast.Ident); isId {
						assigned[info.ObjectOf(id)] = true
					}
				}
				return true
			})
			stable := func(e ast.Expr) bool {
				if !plainOperand(e) {
					return false
				}
				good := true
				ast.Inspect(e, func(m ast.Node) bool {
					if id, isId := m.(*ast.Ident); isId {
						if o := info.Uses[id]; o != nil && assigned[o] {
							// a range/loop variable assigned by its own statement is fine; a plain reassignment is not
							good = false
						}
					}
					return true
				})
				return good
			}
			// local record variables: v := x.g[k] / v, ok := x.g[k]
			type recVar struct{ base string }
			recs := map[types.Object]recVar{}
			ast.Inspect(fd.Body, func(n ast.Node) bool {
				as, isAs := n.(*ast.AssignStmt)
				if !isAs || as.Tok != token.DEFINE || len(as.Rhs) != 1 || len(as.Lhs) < 1 || len(as.Lhs) > 2 {
					return true
				}
				ix, isIx := as.Rhs[0].(*ast.IndexExpr)
				if !isIx {
					return true
				}
				x, is := isG(ix.X)
				if !is {
					return true
				}
				v, isId := as.Lhs[0].(*ast.Ident)
				if !isId || !stable(x) || !stable(ix.Index) {
					ok = false
					return true
				}
				first := fieldTo[order[0]]
				base := ns.srcText(x.Pos(), x.End())
				key := ns.srcText(ix.Index.Pos(), ix.Index.End())
				if o := info.Defs[v]; o != nil {
					recs[o] = recVar{base + ".%s[" + key + "]"}
				} else if v.Name != "_" {
					ok = false
				}
				handledG[ix.X.(*ast.SelectorExpr).Sel] = true
				handledV[v] = true
				if len(as.Lhs) == 2 {
					es.add(ns.fset, as.Lhs[0].Pos(), as.Lhs[0].End(), "_")
					es.add(ns.fset, as.Rhs[0].Pos(), as.Rhs[0].End(), base+"."+first+"["+key+"]")
				} else {
					es.add(ns.fset, as.Pos(), as.End(), "{}")
				}
				return true
			})
			ast.Inspect(fd.Body, func(n ast.Node) bool {
				switch x := n.(type) {
				case *ast.AssignStmt:
					// x.g[k] = &S{…}
					if len(x.Lhs) == 1 && len(x.Rhs) == 1 && x.Tok == token.ASSIGN {
						if ix, isIx := x.Lhs[0].(*ast.IndexExpr); isIx {
							if base, is := isG(ix.X); is {
								cl := recordLit(x.Rhs[0])
								if cl == nil || !plainOperand(base) || !plainOperand(ix.Index) || len(cl.Elts) != len(order) {
									ok = false
									return true
								}
								vals := map[string]string{}
								for _, el := range cl.Elts {
									kv, isKV := el.(*ast.KeyValueExpr)
									if !isKV {
										ok = false
										return true
									}
									vals[kv.Key.(*ast.Ident).Name] = ns.srcText(kv.Value.Pos(), kv.Value.End())
								}
								var parts []string
								b := ns.srcText(base.Pos(), base.End())
								k := ns.srcText(ix.Index.Pos(), ix.Index.End())
								for _, fn := range order {
									parts = append(parts, b+"."+fieldTo[fn]+"["+k+"] = "+vals[fn])
								}
								es.add(ns.fset, x.Pos(), x.End(), strings.Join(parts, "; "))
								handledG[ix.X.(*ast.SelectorExpr).Sel] = true
								markIdents(cl.Type, info, S.Obj(), handledS)
								return false
							}
						}
					}
					// a field of a record assigned on its own: the arrangement is not a write-once record
					for _, l := range x.Lhs {
						if sel, isSel := l.(*ast.SelectorExpr); isSel {
							if fv, isV := info.Uses[sel.Sel].(*types.Var); isV && fv.IsField() {
								for i := 0; i < ss.NumFields(); i++ {
									if ss.Field(i) == fv {
										ok = false
									}
								}
							}
						}
					}
				case *ast.SelectorExpr:
					fv, isV := info.Uses[x.Sel].(*types.Var)
					if !isV || !fv.IsField() {
						return true
					}
					isRecField := false
					for i := 0; i < ss.NumFields(); i++ {
						if ss.Field(i) == fv {
							isRecField = true
						}
					}
					if !isRecField {
						return true
					}
					switch in := x.X.(type) {
					case *ast.IndexExpr:
						// x.g[k].f
						if base, is := isG(in.X); is {
							es.add(ns.fset, x.Pos(), x.End(), ns.srcText(base.Pos(), base.End())+"."+fieldTo[fv.Name()]+"["+ns.srcText(in.Index.Pos(), in.Index.End())+"]")
							handledG[in.X.(*ast.SelectorExpr).Sel] = true
							return false
						}
						ok = false
					case *ast.Ident:
						if rv, isRec := recs[info.Uses[in]]; isRec {
							es.add(ns.fset, x.Pos(), x.End(), fmt.Sprintf(rv.base, fieldTo[fv.Name()]))
							handledV[in] = true
							return false
						}
						ok = false
					default:
						ok = false
					}
				case *ast.KeyValueExpr:
					// g: make(map[K]*S, n) in a literal of S0
					if kid, isId := x.Key.(*ast.Ident); isId && info.ObjectOf(kid) == types.Object(g) {
						call, isCall := x.Value.(*ast.CallExpr)
						if !isCall || len(call.Args) < 1 {
							ok = false
							return true
						}
						if fn, isFn := call.Fun.(*ast.Ident); !isFn || fn.Name != "make" {
							ok = false
							return true
						}
						var parts []string
						for _, fnm := range order {
							parts = append(parts, fieldTo[fnm]+": make(map["+keyText+"]"+fieldType[fieldTo[fnm]]+")")
						}
						es.add(ns.fset, x.Pos(), x.End(), strings.Join(parts, ", "))
						handledG[kid] = true
						markIdents(call.Args[0], info, S.Obj(), handledS)
						return false
					}
				}
				return true
			})
			// every use of a record variable must have been rewritten
			ast.Inspect(fd.Body, func(n ast.Node) bool {
				if id, isId := n.(*ast.Ident); isId {
					if _, isRec := recs[info.Uses[id]]; isRec && !handledV[id] {
						ok = false
					}
				}
				return true
			})
		}
	}
	// every other use of g or S blocks the step
	for _, f := range files {
		ast.Inspect(f, func(n ast.Node) bool {
			id, isId := n.(*ast.Ident)
			if !isId {
				return true
			}
			if (info.Uses[id] == types.Object(g) || info.Defs[id] == types.Object(g)) && !handledG[id] {
				ok = false
			}
			if info.Uses[id] == types.Object(S.Obj()) && !handledS[id] {
				ok = false
			}
			return true
		})
	}
	if !ok {
		return nil
	}
	return es
}

func markIdents(e ast.Node, info *types.Info, obj types.Object, set map[*ast.Ident]bool) {
	if e == nil {
		return
	}
	ast.Inspect(e, func(n ast.Node) bool {
		if id, ok := n.(*ast.Ident); ok && info.Uses[id] == obj {
			set[id] = true
		}
		return true
	})
}
