package main

func thoroughExtras(c *Check) {}
