#!/usr/bin/env python3
"""Regenerates /verif/seeded/INDEX.md and the table between the SEEDED markers in DESIGN.md from seeded/*/meta.json."""
import json, glob, os, re
rows = []
for f in sorted(glob.glob('/verif/seeded/*/meta.json')):
    m = json.load(open(f))
    first = m.get('checks_fired_first_version', {})
    now = m.get('checks_fired', {})
    def fmt(d):
        return '; '.join('%s' % ','.join(v if isinstance(v, list) else v.get('rules', [])) for k, v in sorted(d.items())) or '—'
    need = m.get('needs_to_manifest', '').strip().split('\n')[0][:160]
    rows.append((m['id'], m['property'], 'yes' if m.get('confirmed') else 'NO', fmt(first), fmt(now), 'yes' if m.get('detected_by_own_property_check') else 'no', m.get('history', ''), need))
hdr = '| id | property | confirmed | fired at first evaluation | fires now | own property\'s check fires | note |\n|---|---|---|---|---|---|---|\n'
body = ''.join('| %s | %s | %s | %s | %s | %s | %s |\n' % (r[0], r[1], r[2], r[3], r[4], r[5], r[6]) for r in rows)
table = hdr + body
open('/verif/seeded/INDEX.md', 'w').write('# Independent seeded changes\n\nEach directory holds patch.diff, demo_test.go and meta.json (what it needs to manifest, what was run).\n\n' + table)
p = '/verif/DESIGN.md'
s = open(p).read()
if '<!-- SEEDED-BEGIN -->' in s:
    s = re.sub(r'<!-- SEEDED-BEGIN -->.*?<!-- SEEDED-END -->', '<!-- SEEDED-BEGIN -->\n' + table + '<!-- SEEDED-END -->', s, flags=re.S)
    open(p, 'w').write(s)
n = len(rows)
own = sum(1 for r in rows if r[5] == 'yes')
print('seeded changes:', n, 'confirmed:', sum(1 for r in rows if r[2] == 'yes'), 'own check fires:', own)
