package main

// The segment window. The match-all walkers take (path, segment, next): the segment just split off and the
// cursor behind the '/' that follows it. A function has the *window fact* when at every call site in the
// module the arguments satisfy
//
//	segment == path[next-1-len(segment) : next-1]
//
// which holds when the site passes (P, P[a:b], b+1) for one P, or passes on its own (path, segment, next)
// parameters unchanged while having the fact itself (greatest fix-point over the call sites). With the
// fact, `path[next-1-len(segment):…]` is the text that starts where the segment starts, so a capture may be
// cut out of the path instead of being accumulated piece by piece.

import (
	"go/types"
	"sync"

	"golang.org/x/tools/go/ssa"
)

type windowParams struct{ path, seg, next int }

var windowCache sync.Map // *ssa.Program → map[*ssa.Function]bool

// windowSig finds the (path string, segment string, next int) parameters: the first two strings and the
// first int of the signature (after the receiver).
func windowSig(fn *ssa.Function) (windowParams, bool) {
	w := windowParams{-1, -1, -1}
	start := 0
	if fn.Signature.Recv() != nil {
		start = 1
	}
	for i := start; i < len(fn.Params); i++ {
		t := fn.Params[i].Type()
		b, ok := t.Underlying().(*types.Basic)
		if !ok {
			continue
		}
		switch {
		case b.Kind() == types.String && w.path < 0:
			w.path = i
		case b.Kind() == types.String && w.seg < 0:
			w.seg = i
		case b.Kind() == types.Int && w.next < 0:
			w.next = i
		}
	}
	return w, w.path >= 0 && w.seg > w.path && w.next > w.seg
}

func (p *Prog) windowFacts() map[*ssa.Function]bool {
	if v, ok := windowCache.Load(p.Prog); ok {
		return v.(map[*ssa.Function]bool)
	}
	cand := map[*ssa.Function]windowParams{}
	for _, fn := range p.Funcs() {
		if fn.Pkg != p.SSA["route"] || len(fn.Blocks) == 0 {
			continue
		}
		if w, ok := windowSig(fn); ok {
			cand[fn] = w
		}
	}
	fact := map[*ssa.Function]bool{}
	sites := map[*ssa.Function]int{}
	for fn := range cand {
		fact[fn] = true
	}
	for round := 0; round < 8; round++ {
		changed := false
		for k := range sites {
			delete(sites, k)
		}
		for _, caller := range p.Funcs() {
			if caller.Pkg != p.SSA["route"] {
				continue
			}
			allInstrs(caller, func(in ssa.Instruction) {
				ci, ok := in.(ssa.CallInstruction)
				if !ok {
					return
				}
				for _, cal := range p.moduleCallees(ci.Common()) {
					w, isC := cand[cal]
					if !isC {
						continue
					}
					as := callArgs(ci.Common())
					if len(as) <= w.next {
						fact[cal] = false
						continue
					}
					sites[cal]++
					pa, sa, na := as[w.path], as[w.seg], as[w.next]
					good := false
					// (P, P[a:b], b+1)
					if sub := subOf(sa); sub.base != nil && strip(sub.base) == strip(pa) && sub.hi != nil {
						if linOf(na).equal(sub.hi.plus(lin{k: 1}, 1)) {
							good = true
						}
					}
					// own parameters handed on unchanged
					if cw, isCand := cand[caller]; isCand && fact[caller] {
						if strip(pa) == ssa.Value(caller.Params[cw.path]) && strip(sa) == ssa.Value(caller.Params[cw.seg]) && strip(na) == ssa.Value(caller.Params[cw.next]) {
							good = true
						}
					}
					if !good && fact[cal] {
						fact[cal] = false
						changed = true
					}
				}
			})
		}
		if !changed {
			break
		}
	}
	for fn := range cand {
		if sites[fn] == 0 {
			fact[fn] = false // never called with visible arguments: nothing is known
		}
	}
	windowCache.Store(p.Prog, fact)
	return fact
}
