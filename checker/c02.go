package main

// C02 Bind parameters are exactly what the route pattern captured.

import (
	"fmt"
	"go/constant"
	"go/token"
	"go/types"
	"strings"

	"golang.org/x/tools/go/ssa"
)

func init() { register("C02", checkC02) }

// derivesFrom reports whether v is computed from a value satisfying m,
// following operands of binary operations, calls, phis, conversions and slices.
// Calls whose name is in stop are sanitizers: the flow ends there.
func derivesFrom(v ssa.Value, m VM, stop map[string]bool) bool {
	seen := map[ssa.Value]bool{}
	var rec func(v ssa.Value, d int) bool
	rec = func(v ssa.Value, d int) bool {
		if v == nil || d > 12 {
			return false
		}
		v = strip(v)
		if seen[v] {
			return false
		}
		seen[v] = true
		if m(v) {
			return true
		}
		switch x := v.(type) {
		case *ssa.BinOp:
			return rec(x.X, d+1) || rec(x.Y, d+1)
		case *ssa.Phi:
			for _, e := range x.Edges {
				if rec(e, d+1) {
					return true
				}
			}
		case *ssa.Call:
			if stop[callName(&x.Call)] {
				return false
			}
			for _, a := range callArgs(&x.Call) {
				if rec(a, d+1) {
					return true
				}
			}
		case *ssa.Extract:
			return rec(x.Tuple, d+1)
		case *ssa.Convert:
			return rec(x.X, d+1)
		case *ssa.Slice:
			return rec(x.X, d+1)
		case *ssa.UnOp:
			return rec(x.X, d+1)
		case *ssa.Lookup:
			return rec(x.X, d+1)
		case *ssa.Index:
			return rec(x.X, d+1)
		case *ssa.IndexAddr:
			return rec(x.X, d+1)
		case *ssa.Alloc:
			// contents of a local array/variable (e.g. a variadic argument slice)
			for _, r := range referrers(x) {
				switch y := r.(type) {
				case *ssa.Store:
					if y.Addr == ssa.Value(x) && rec(y.Val, d+1) {
						return true
					}
				case *ssa.IndexAddr:
					for _, rr := range referrers(y) {
						if st, ok := rr.(*ssa.Store); ok && st.Addr == ssa.Value(y) && rec(st.Val, d+1) {
							return true
						}
					}
				case *ssa.FieldAddr:
					// a field of a struct built here (&notFoundError{typ: t})
					for _, rr := range referrers(y) {
						if st, ok := rr.(*ssa.Store); ok && st.Addr == ssa.Value(y) && rec(st.Val, d+1) {
							return true
						}
					}
				}
			}
		}
		return false
	}
	return rec(v, 0)
}

// vFieldNamed matches a (dereferenced) read of a field with the given name.
func vFieldNamed(name string) VM {
	return func(v ssa.Value) bool {
		_, ns, ok := fieldPath(v)
		return ok && len(ns) > 0 && ns[len(ns)-1] == name
	}
}

func checkC02(c *Check) {
	p := c.P
	c.Explain = "taint from literal segment text to the compiled pattern (sanitizer regexp.QuoteMeta), anchoring of the pattern, group-aware sub-match pairing shared by both matchers, capture identity of placeholder/match-all nodes, who-may-decode table and single decoding in Match, and agreement of both dispatch paths on the `route` parameter"
	c.NotDec = []string{
		"that regexp matches \"in full\" beyond ^…$ anchoring",
		"which substrings a user expression captures",
		"percent-decoding semantics of net/url",
		"the round trip through URL building (C12)",
	}
	c.Trusted = []string{"regexp.QuoteMeta escapes every metacharacter", "regexp.Regexp.NumSubexp", "net/url.PathUnescape"}

	cons := p.Fn("route", "constructMatchStyleRegex")
	if cons == nil {
		// role: the function of package route that calls regexp.Compile on a bytes.Buffer's String()
		for _, fn := range p.Funcs() {
			if fn.Pkg == p.SSA["route"] && fn.Parent() == nil {
				for _, ci := range callsNamed(fn, "regexp.Compile", "regexp.MustCompile") {
					if vCall("(*bytes.Buffer).String")(ci.Common().Args[0]) || vCall("(*strings.Builder).String")(ci.Common().Args[0]) {
						cons = fn
					}
				}
			}
		}
	}
	c.Rule("R1", "E4 taint", "literal segment text reaches the compiled pattern only through regexp.QuoteMeta; bind names never reach it", 1)
	c.Rule("R2", "E3 provenance", "the compiled pattern starts with ^ and ends with $", 2)
	c.Rule("R3", "E3 + E6", "one wrapper group per bind; each bind's sub-match index accounts for groups inside user expressions and both matchers pair binds[i] with that index", 5)
	if cons == nil {
		c.curRule = "C02.R1"
		c.Anchor("the segment-regexp constructor (regexp.Compile of a bytes.Buffer)")
	} else {
		checkRegexConstructor(c, cons)
		checkRegexPairing(c)
	}

	// ---- R4 capture identity
	c.Rule("R4", "E3 provenance", "placeholder and match-all nodes store exactly the segment (match-all leaf: segment + \"/\" + rest of path) under their own bind", 4)
	for _, tm := range [][2]string{{"placeholderTree", "match"}, {"placeholderLeaf", "match"}, {"matchAllLeaf", "match"}, {"matchAllLeaf", "matchAll"}} {
		fn := p.Meth("route", tm[0], tm[1])
		if fn == nil {
			c.Anchor("route." + tm[0] + "." + tm[1])
			continue
		}
		key := p.FuncKey(fn) + ":capture"
		recv := vParam(fn, 0)
		var mus []*ssa.MapUpdate
		allInstrs(fn, func(in ssa.Instruction) {
			if mu, ok := in.(*ssa.MapUpdate); ok {
				mus = append(mus, mu)
			}
		})
		if len(mus) != 1 {
			c.Bad(key, p.FuncPos(fn), "expected exactly one store into params")
			continue
		}
		mu := mus[0]
		want := vParam(fn, 1) // segment
		desc := "params[bind] = segment"
		if tm[1] == "matchAll" {
			pathP, segP, nextP := vParam(fn, 1), vParam(fn, 2), vParam(fn, 3)
			rest := func(v ssa.Value) bool {
				sl, ok := strip(v).(*ssa.Slice)
				return ok && pathP(sl.X) && sl.High == nil && sl.Low != nil && nextP(sl.Low)
			}
			want = vOr(vBin(token.ADD, vBin(token.ADD, segP, vConstStr("/")), rest), vBin(token.ADD, segP, vBin(token.ADD, vConstStr("/"), rest)))
			if p.windowFacts()[fn] {
				// with the window fact (every caller passes segment == path[next-1-len(segment):next-1]) the same text
				// is the rest of the path from where the segment starts
				want = vOr(want, vSub(pathP, linForm(-1, []VM{nextP}, []VM{vLen(segP)}), nil))
			}
			desc = "params[bind] = segment + \"/\" + path[next:]"
		}
		okK := vField(recv, "bind")(mu.Key)
		okV := want(mu.Value)
		c.Cond(okK && okV, key, p.Pos(mu.Pos()), desc, "capture is stored as params["+vstr(mu.Key)+"] = "+vstr(mu.Value)+"; expected "+desc+" under the node's own bind")
		// the verdict true implies the store happened
		in, path := Query{Fn: fn, Avoid: isInstr(mu)}.FromEntry(func(in ssa.Instruction) bool {
			return isReturn(in) && !falseVerdict(fn)(in)
		})
		if in != nil {
			c.Bad(key+":stored-on-success", p.Pos(in.Pos()), "the node can report a match without storing its capture", blockPath(path))
		}
	}

	// ---- R5 decoded exactly once
	c.Rule("R5", "E5 who-may-call + E3", "the only percent-coding calls in the module are {Match: PathUnescape; Context.QueryUnescape, Context.Cookie: QueryUnescape; Context.SetCookie: QueryEscape}; Match decodes every value once under its own key, keeping the raw value on error; the context hands the map on unchanged", 5)
	want := map[string]string{
		"route.(*baseTree).Match":          "net/url.PathUnescape",
		"flamego.(*context).QueryUnescape": "net/url.QueryUnescape",
		"flamego.(*context).Cookie":        "net/url.QueryUnescape",
		"flamego.(*context).SetCookie":     "net/url.QueryEscape",
	}
	seen := map[string]int{}
	for _, fn := range p.Funcs() {
		for _, ci := range callsIn(fn, func(n string, cm *ssa.CallCommon) bool {
			return strings.HasPrefix(n, "net/url.") && (strings.Contains(n, "scape"))
		}) {
			k := p.FuncKey(fn)
			n := callName(ci.Common())
			seen[k]++
			c.Cond(want[k] == n, k+":"+n, p.Pos(ci.Pos()), "allowed percent-coding site", "unexpected percent-coding call "+n+" in "+k+": values are decoded/encoded a second time or with the wrong codec ('+' handling differs between Path and Query codecs)")
		}
	}
	for k, n := range want {
		if seen[k] == 0 {
			c.Bad(k+":"+n, "?", "expected call of "+n+" is missing: values are no longer decoded/encoded here")
		} else if seen[k] > 1 {
			c.Bad(k+":"+n, "?", "percent-coding applied more than once in "+k)
		}
	}
	if m := p.Meth("route", "baseTree", "Match"); m != nil {
		key := p.FuncKey(m) + ":decode"
		for _, ci := range callsNamed(m, "net/url.PathUnescape") {
			call := ci.(*ssa.Call)
			// argument is the range value, store under the range key on err == nil
			var next *ssa.Next
			if e, ok := strip(call.Call.Args[0]).(*ssa.Extract); ok && e.Index == 2 {
				next, _ = e.Tuple.(*ssa.Next)
			}
			if next == nil {
				c.Undecided(key, p.Pos(ci.Pos()), "PathUnescape argument is not the value of a range over params")
				continue
			}
			rg, _ := next.Iter.(*ssa.Range)
			var mu *ssa.MapUpdate
			allInstrs(m, func(in ssa.Instruction) {
				if x, ok := in.(*ssa.MapUpdate); ok && rg != nil && strip(x.Map) == strip(rg.X) {
					mu = x
				}
			})
			if mu == nil {
				c.Bad(key, p.Pos(ci.Pos()), "the decoded value is never stored back")
				continue
			}
			okKV := vExtract(1, vIs(next))(mu.Key) && vExtract(0, vIs(call))(mu.Value)
			g := edgesWhere(m, cCmp(token.EQL, vExtract(1, vIs(call)), vNil), true)
			okG, _ := guardedBy(m, g, isInstr(mu))
			c.Cond(okKV && okG && len(g) > 0, key, p.Pos(mu.Pos()), "params[k] = PathUnescape(params[k]) on err == nil, raw otherwise", "decoded value is not stored under its own key on the err == nil edge only")
			// the params map returned and decoded is the one filled by the matcher
			var mm ssa.Value
			for _, cc := range callsIn(m, func(n string, cm *ssa.CallCommon) bool { return strings.HasSuffix(n, ".matchNextSegment") }) {
				mm = callArgs(cc.Common())[3]
			}
			okSame := mm != nil && rg != nil && strip(mm) == strip(rg.X)
			retOK := false
			allInstrs(m, func(in ssa.Instruction) {
				if r, ok := in.(*ssa.Return); ok && len(r.Results) == 3 && vConstBool(true)(r.Results[2]) {
					retOK = mm != nil && strip(r.Results[1]) == strip(mm)
				}
			})
			c.Cond(okSame && retOK, key+":same-map", p.FuncPos(m), "the map filled by the matcher is the one decoded and returned", "Match decodes or returns a different map than the matcher filled")
			// every success return lies behind the decode loop (no shortcut around it)
			allInstrs(m, func(in ssa.Instruction) {
				r, ok := in.(*ssa.Return)
				if !ok || len(r.Results) != 3 || vConstBool(false)(r.Results[2]) {
					return
				}
				okP, path := mustPrecede(m, func(x ssa.Instruction) bool { return x == ssa.Instruction(next) }, in)
				if !okP {
					// the one sound shortcut: the request path holds no '%' at all (every captured value is a
					// piece of the path, and PathUnescape is the identity on %-free text)
					// the whole path: the parameter itself or its form without leading slashes (what the matcher is
					// given); a piece of it (path[1:], a segment) says nothing about the rest
					fromPath := vOr(vParam(m, 1), vTrimLeftSlash(vParam(m, 1)))
					isPct := func(v ssa.Value) bool {
						cst, ok := strip(v).(*ssa.Const)
						if !ok || cst.Value == nil {
							return false
						}
						if cst.Value.Kind() == constant.String {
							return constant.StringVal(cst.Value) == "%"
						}
						n, exact := constant.Int64Val(cst.Value)
						return exact && n == '%'
					}
					idx := vOr(vCall("strings.IndexByte", fromPath, isPct), vCall("strings.Index", fromPath, isPct), vCall("strings.IndexRune", fromPath, isPct))
					has := vOr(vCall("strings.Contains", fromPath, isPct), vCall("strings.ContainsRune", fromPath, isPct))
					noPct := union(
						edgesWhere(m, cCmp(token.EQL, idx, vConstInt(-1)), true),
						edgesWhere(m, cCmp(token.LSS, idx, vConstInt(0)), true),
						edgesWhere(m, cCmp(token.GEQ, idx, vConstInt(0)), false),
						edgesWhere(m, cCmp(token.NEQ, idx, vConstInt(-1)), false),
						edgesWhere(m, cBool(has), false),
					)
					if len(noPct) > 0 {
						if in2, _ := (Query{Fn: m, Cut: noPct, Avoid: func(x ssa.Instruction) bool { return x == ssa.Instruction(next) }}).FromEntry(isInstr(in)); in2 == nil {
							okP = true
						}
					}
				}
				c.Cond(okP, key+":behind-loop", p.Pos(in.Pos()), "a success return of Match is reached only through the decode loop", "Match can report a match without running the decode loop: captured values reach the handlers undecoded "+path)
			})
		}
	}
	if m := p.Meth("route", "baseTree", "Match"); m != nil {
		why := orderDependentMapLoops(m)
		c.Cond(len(why) == 0, p.FuncKey(m)+":decode-all", p.FuncPos(m), "the decode loop visits every captured value (no early exit)", "not every captured value is decoded: "+strings.Join(why, "; "))
	}
	if nc := p.Fn("flamego", "newContext"); nc != nil {
		ok := false
		for _, u := range p.FieldUses(p.Field("flamego", "context", "params")) {
			if u.Kind == "store" && u.Fn == nc {
				val := u.Instr.(*ssa.Store).Val
				ok = vParam(nc, 2)(val)
				if !ok {
					// an empty map in place of a nil one (the not-found chain): φ(params, fresh empty) with the fresh
					// map only on the params == nil edge
					if ph, isPhi := strip(val).(*ssa.Phi); isPhi {
						isNil := edgesWhere(nc, cCmp(token.EQL, vParam(nc, 2), vNil), true)
						good, sawParam := len(isNil) > 0, false
						for i, e := range ph.Edges {
							switch {
							case vParam(nc, 2)(e):
								sawParam = true
							case isFreshEmptyMap(e) && edgeGuarded(nc, isNil, ph.Block().Preds[i], ph.Block()):
							default:
								good = false
							}
						}
						ok = good && sawParam
					}
				}
			} else if u.Kind == "store" {
				c.Bad(p.FuncKey(u.Fn)+":params.store", p.Pos(u.Instr.Pos()), "the context's params are replaced outside newContext")
			}
		}
		c.Cond(ok, p.FuncKey(nc)+":params", p.FuncPos(nc), "context.params is the map given by the router, unchanged", "newContext transforms or replaces the params map")
	} else {
		c.Anchor("flamego.newContext")
	}

	// ---- R8 a match-all spans at most its capture limit
	c.Rule("R8", "shared with C01 (R5, R6)", "the match-all value spans at least one and at most capture-limit segments: growth by exactly one segment per step and the inclusive bounds of tree and leaf (empty segments count)", 6)
	c.Share("C01", []string{"R5", "R6"}, 6)

	// ---- R7 one params map from Match down to the nodes
	c.Rule("R7", "E3 pass-through", "every call on the matching path hands the same Params map on (made in Match), so captures of all levels land in the map that is decoded and returned", 8)
	passThrough(c, func(t types.Type) bool {
		n, ok := t.(*types.Named)
		return ok && n.Obj().Name() == "Params" && n.Obj().Pkg() != nil && n.Obj().Pkg().Path() == modPath+"/internal/route"
	}, "params", func(fn *ssa.Function, v ssa.Value) bool {
		_, isMM := strip(v).(*ssa.MakeMap)
		return isMM || vExtract(1, vCall("(route.Tree).Match"))(v)
	})

	// ---- R9 matching reads the routing structures, it never writes them
	c.Rule("R9", "E5 effects over the closure of Tree.Match", "no function reachable from Match writes tree, leaf, segment or matcher state (stores, map writes, appends onto stored slices): the bind lists and tables that pair names with captures are the ones built at registration for every request", 1)
	if m := p.Meth("route", "baseTree", "Match"); m != nil {
		fns := p.ReachFrom(m)
		fs := runEffects(fns, p.effectConfig())
		for _, f := range fs {
			c.Bad(p.FuncKey(f.Fn)+":"+f.Kind, p.Pos(f.Instr.Pos()), f.What+" while matching: the tables that pair bind names with captures change between requests, so a later request's values land under other names or disappear")
		}
		if len(fs) == 0 {
			c.OK("Match:read-only", p.FuncPos(m), fmt.Sprintf("%d functions reachable from Match analysed; none writes shared routing state", len(fns)), len(fns))
		}
	}

	// ---- R10 the shortcut never serves a route that binds
	c.Rule("R10", "shared with C10 (R4)", "a leaf enters the shortcut table only if it and every ancestor is static (every non-static style, match-all included, answers false): the shortcut hands out no bind values", 2)
	c.Share("C10", []string{"R4"}, 2)

	// ---- R11 a bind name is not reused inside one route (else one capture overwrites the other)
	c.Rule("R11", "shared with C08 (R4)", "a bind name cannot occur twice along one route, inside one segment included: two captures under one name would hand the handler the text of the other bind", 6)
	c.Share("C08", []string{"R4"}, 6)

	// ---- R12 captured values are not dropped on the way out
	c.Rule("R12", "E5 who-may-write", "while serving, entries of the Params being built are deleted only by code that does not itself re-derive bind names from the route syntax (BindIdent / BindParameter.Ident): the names a cleanup keeps must come from the nodes' own bind reports (a second reading of the syntax that forgets the later binds of a list deletes captured values)", 1)
	{
		n := 0
		cset := canonFuncSet()
		isCanonFn := func(f *ssa.Function) bool {
			if f == nil || f.Pkg == nil || f.Parent() != nil {
				return f != nil && f.Parent() != nil && false
			}
			short := pkgShort[f.Pkg.Pkg.Path()]
			_, ok := cset[short+"|"+recvStr(f.Signature)+"|"+f.Name()]
			return ok
		}
		for _, fn := range p.REQList() {
			var dels []ssa.Instruction
			readsSyntax := false
			allInstrs(fn, func(in ssa.Instruction) {
				if ci, ok := in.(ssa.CallInstruction); ok && callName(ci.Common()) == "builtin.delete" {
					if nt, isN := ci.Common().Args[0].Type().(*types.Named); isN && nt.Obj().Name() == "Params" {
						dels = append(dels, in)
					}
				}
			})
			if len(dels) == 0 {
				continue
			}
			// the function and the helpers it calls that are not part of the canonical tree (new code)
			scope := []*ssa.Function{fn}
			for _, g := range p.ReachFrom(fn) {
				if g != fn && !isCanonFn(g) && g.Parent() == nil {
					scope = append(scope, g)
				}
			}
			for _, g := range scope {
				allInstrs(g, func(in ssa.Instruction) {
					if fa, ok := in.(*ssa.FieldAddr); ok {
						if f := fieldOf(fa); f != nil && (f.Name() == "BindIdent" || (f.Name() == "Ident" && namedName(derefT(fa.X.Type())) == "BindParameter")) {
							readsSyntax = true
						}
					}
					if fv, ok := in.(*ssa.Field); ok {
						if st, isSt := fv.X.Type().Underlying().(*types.Struct); isSt {
							if f := st.Field(fv.Field); f.Name() == "BindIdent" || (f.Name() == "Ident" && namedName(fv.X.Type()) == "BindParameter") {
								readsSyntax = true
							}
						}
					}
				})
			}
			for _, d := range dels {
				n++
				c.Cond(!readsSyntax, p.FuncKey(fn)+":params-cleanup", p.Pos(d.Pos()), "entries are deleted by code that takes the names to keep from the nodes' bind reports", "captured values are deleted from the Params by code that re-derives bind names from the route syntax: a bind it does not derive (e.g. the later binds of a comma list) is dropped although the matched route defines it")
			}
		}
		if n == 0 {
			c.OK("route:no-params-cleanup", "internal/route", "no entry of the Params is deleted while serving", 1)
		}
	}

	// ---- R6 `route` parameter on both dispatch paths
	c.Rule("R6", "E6 sibling agreement", "on both dispatch paths the params handed to the handler hold \"route\" = Route() of the very leaf whose Handler() is invoked", 1)
	if sh := p.Meth("flamego", "router", "ServeHTTP"); sh != nil {
		n := 0
		allInstrs(sh, func(in ssa.Instruction) {
			ci, ok := in.(ssa.CallInstruction)
			if !ok || callName(ci.Common()) != "dynamic" {
				return
			}
			h := asCall(ci.Common().Value)
			if h == nil || callName(&h.Call) != "(route.Leaf).Handler" {
				return
			}
			n++
			leaf := h.Call.Value
			pm := ci.Common().Args[2]
			key := p.FuncKey(sh) + ":route-param"
			routeSet := func(pm, leaf ssa.Value, before ssa.Instruction) bool {
				for _, r := range referrers(strip(pm)) {
					if mu, ok := r.(*ssa.MapUpdate); ok && strip(mu.Map) == strip(pm) && vConstStr("route")(mu.Key) {
						if vCall("(route.Leaf).Route", vIs(leaf))(mu.Value) {
							if ok2, _ := mustPrecede(sh, isInstr(mu), before); ok2 {
								return true
							}
						}
					}
				}
				return false
			}
			found := routeSet(pm, leaf, in)
			// leaf and params merged from the branches of a lookup step: pairwise, edge by edge
			if lp, isLP := strip(leaf).(*ssa.Phi); isLP && !found {
				if pp, isPP := strip(pm).(*ssa.Phi); isPP && pp.Block() == lp.Block() && len(pp.Edges) == len(lp.Edges) {
					all := true
					for i := range lp.Edges {
						if vNil(lp.Edges[i]) {
							continue // no leaf on this edge: whether it can be dispatched is C07.R1's question
						}
						pred := lp.Block().Preds[i]
						if len(pred.Instrs) == 0 || !routeSet(pp.Edges[i], lp.Edges[i], pred.Instrs[len(pred.Instrs)-1]) {
							all = false
						} else {
							n++ // one dispatch path per merged branch
							c.OK(fmt.Sprintf("%s:branch-%d", key, i), p.Pos(in.Pos()), "params[\"route\"] = leaf.Route() of the leaf of this branch, set before the branches merge", 1)
						}
					}
					found = all
				}
			}
			c.Cond(found, key, p.Pos(in.Pos()), "params[\"route\"] = leaf.Route() of the dispatched leaf, set before the handler runs", "a dispatch path does not set params[\"route\"] to the dispatched leaf's own route text before running the handler")
		})
		if n < 2 {
			c.curRule = "C02.R6"
		}
	} else {
		c.Anchor("router.ServeHTTP")
	}
}

func checkRegexConstructor(c *Check, cons *ssa.Function) {
	p := c.P
	key := p.FuncKey(cons)
	// the pattern buffer and the final compile
	var compile ssa.CallInstruction
	var buf ssa.Value
	for _, ci := range callsNamed(cons, "regexp.Compile", "regexp.MustCompile") {
		if s := asCall(ci.Common().Args[0]); s != nil && (callName(&s.Call) == "(*bytes.Buffer).String" || callName(&s.Call) == "(*strings.Builder).String") {
			compile = ci
			buf = strip(s.Call.Args[0])
		}
	}
	if compile == nil {
		c.curRule = "C02.R1"
		c.Undecided(key+":pattern", p.FuncPos(cons), "no regexp.Compile(buffer.String()) found")
		return
	}
	isWrite := func(in ssa.Instruction) bool {
		ci, ok := in.(ssa.CallInstruction)
		return ok && (strings.HasPrefix(callName(ci.Common()), "(*bytes.Buffer).Write") || strings.HasPrefix(callName(ci.Common()), "(*strings.Builder).Write")) && strip(ci.Common().Args[0]) == buf
	}
	// R1 taint
	c.curRule = "C02.R1"
	stop := map[string]bool{"regexp.QuoteMeta": true}
	nLit := 0
	allInstrs(cons, func(in ssa.Instruction) {
		if !isWrite(in) {
			return
		}
		arg := in.(ssa.CallInstruction).Common().Args[1]
		k := key + ":pattern-write"
		pos := p.Pos(in.Pos())
		if derivesFrom(arg, vFieldNamed("Ident"), nil) {
			nLit++
			viaQuote := !derivesFrom(arg, vFieldNamed("Ident"), stop) && derivesFrom(arg, vCall("regexp.QuoteMeta"), nil)
			if _, isBindP := strip(arg).(*ssa.UnOp); isBindP && !viaQuote {
				// may be BindParameter.Ident (a bind name) – names must never be written
			}
			c.Cond(viaQuote, k+":literal", pos, "literal text is written as regexp.QuoteMeta(ident)", "literal segment text (or a bind name) flows into the pattern without regexp.QuoteMeta: "+vstr(arg)+" — characters such as + * ( ) $ in a route literal act as regex operators")
		} else if derivesFrom(arg, vFieldNamed("BindIdent"), nil) {
			c.Bad(k+":bind-name", pos, "a bind NAME is written into the pattern")
		}
	})
	if nLit == 0 {
		c.Bad(key+":pattern-write:literal", p.FuncPos(cons), "literal text of the segment is never written to the pattern: literals around binds are not matched")
	}
	if init := asCall(buf); init != nil && callName(&init.Call) == "bytes.NewBufferString" {
		if derivesFrom(init.Call.Args[0], vFieldNamed("Ident"), stop) {
			c.Bad(key+":pattern-init", p.Pos(init.Pos()), "the pattern buffer is initialised from unquoted literal text")
		}
	}

	// R2 anchors
	c.curRule = "C02.R2"
	startOK := false
	if init := asCall(buf); init != nil && callName(&init.Call) == "bytes.NewBufferString" && vConstText("^")(init.Call.Args[0]) {
		startOK = true
	} else {
		// first write on every path is "^"
		var firsts []ssa.Instruction
		allInstrs(cons, func(in ssa.Instruction) {
			if isWrite(in) && vConstText("^")(in.(ssa.CallInstruction).Common().Args[1]) {
				firsts = append(firsts, in)
			}
		})
		if len(firsts) > 0 {
			in, _ := Query{Fn: cons, Avoid: inSet(firsts)}.FromEntry(isWrite)
			startOK = in == nil
		}
	}
	c.Cond(startOK, key+":anchor-start", p.Pos(compile.Pos()), "pattern begins with the constant ^", "the compiled pattern does not begin with ^: a segment is accepted when only a suffix matches")
	var dollars []ssa.Instruction
	allInstrs(cons, func(in ssa.Instruction) {
		if isWrite(in) && vConstText("$")(in.(ssa.CallInstruction).Common().Args[1]) {
			dollars = append(dollars, in)
		}
	})
	endOK := false
	if len(dollars) > 0 {
		ok1, _ := mustPrecede(cons, inSet(dollars), compile)
		ok2 := true
		for _, d := range dollars {
			if in, _ := (Query{Fn: cons, Avoid: isInstr(compile)}).After(d, isWrite); in != nil {
				ok2 = false
			}
		}
		endOK = ok1 && ok2
	}
	c.Cond(endOK, key+":anchor-end", p.Pos(compile.Pos()), "the last write before Compile is the constant $", "the compiled pattern does not end with $: a segment is accepted when only a prefix matches")

	// R3 (constructor side): group table
	c.curRule = "C02.R3"
	why := regexConstructorInvariant(p)
	// every user expression is compiled on its own and its NumSubexp advances the group counter
	userCount := false
	allInstrs(cons, func(in ssa.Instruction) {
		if v, ok := in.(ssa.Value); ok && vCall("(*regexp.Regexp).NumSubexp", vExtract(0, vCall("regexp.Compile", vFieldNamed("Regex"))))(v) {
			// used in an addition feeding the counter
			for _, r := range referrers(v) {
				if b, ok := r.(*ssa.BinOp); ok && b.Op == token.ADD {
					userCount = true
				}
			}
		}
	})
	if why == "" && userCount {
		c.OK(key+":group-table", p.FuncPos(cons), "binds and sub-match indices are appended in lockstep; the counter advances by 1 + NumSubexp(user expression); the compiled pattern's NumSubexp is cross-checked", numInstrs(cons))
	} else {
		if why == "" {
			why = "the group counter does not account for capturing groups inside user expressions (NumSubexp of each expression)"
		}
		c.Bad(key+":group-table", p.FuncPos(cons), "sub-match pairing is not group-aware: "+why+" — a user expression such as /(x|y)z/ shifts every later bind's value")
	}
	// wrapper groups: each Regex write is bracketed by "(" and ")"
	nWrap := 0
	allInstrs(cons, func(in ssa.Instruction) {
		if !isWrite(in) {
			return
		}
		arg := in.(ssa.CallInstruction).Common().Args[1]
		if !derivesFrom(arg, vFieldNamed("Regex"), nil) {
			return
		}
		nWrap++
		blk := in.Block()
		i := instrIndex(in)
		var prev, next ssa.Instruction
		for k := i - 1; k >= 0; k-- {
			if isWrite(blk.Instrs[k]) {
				prev = blk.Instrs[k]
				break
			}
		}
		for k := i + 1; k < len(blk.Instrs); k++ {
			if isWrite(blk.Instrs[k]) {
				next = blk.Instrs[k]
				break
			}
		}
		ok := prev != nil && next != nil && vConstText("(")(prev.(ssa.CallInstruction).Common().Args[1]) && vConstText(")")(next.(ssa.CallInstruction).Common().Args[1])
		// or written in one call: "(" + expr + ")"
		if parts := concatParts(arg); len(parts) == 3 && vConstText("(")(parts[0]) && vConstText(")")(parts[2]) && derivesFrom(parts[1], vFieldNamed("Regex"), nil) {
			ok = true
		}
		c.Cond(ok, key+":wrapper-group", p.Pos(in.Pos()), "user expression written as ( expr )", "a user expression is not wrapped in exactly one capturing group")
	})
	if nWrap == 0 {
		c.Bad(key+":wrapper-group", p.FuncPos(cons), "user expressions are never written into the pattern")
	}
	// results flow unchanged into both node types
	for _, ctor := range []string{"newTree", "newLeaf"} {
		fn := p.Fn("route", ctor)
		if fn == nil {
			c.Anchor("route." + ctor)
			continue
		}
		var call *ssa.Call
		for _, ci := range callsIn(fn, func(n string, cm *ssa.CallCommon) bool { return cm.StaticCallee() == cons }) {
			call, _ = ci.(*ssa.Call)
		}
		if call == nil {
			c.Bad(p.FuncKey(fn)+":uses-constructor", p.FuncPos(fn), ctor+" does not build its regex node from the shared constructor")
			continue
		}
		okF := map[string]bool{}
		allInstrs(fn, func(in ssa.Instruction) {
			st, ok := in.(*ssa.Store)
			if !ok {
				return
			}
			f := fieldOf(strip(st.Addr))
			if f == nil {
				return
			}
			idx := map[string]int{"regexp": 0, "binds": 1, "groups": 2}
			if i, isK := idx[f.Name()]; isK && vExtract(i, vIs(call))(st.Val) {
				okF[f.Name()] = true
			} else if isK {
				// the three results handed over in one struct: the field of the same name of the constructor's result
				if r, ns, ok := fieldPath(st.Val); ok && len(ns) == 1 && ns[0] == f.Name() {
					fromCall := vExtract(0, vIs(call))(r)
					if al, isAl := r.(*ssa.Alloc); isAl && !fromCall {
						// a struct value kept in a local: the local holds the constructor's result
						sts := cellStores(al, 0)
						fromCall = len(sts) == 1 && vExtract(0, vIs(call))(sts[0].Val)
					}
					if fromCall {
						okF[f.Name()] = true
					}
				}
			}
		})
		c.Cond(okF["regexp"] && okF["binds"] && okF["groups"], p.FuncKey(fn)+":node-fields", p.Pos(call.Pos()), "node.regexp/binds/groups are the constructor's results, unchanged", "the regex node's regexp/binds/groups are not all taken unchanged from one constructor call")
	}
}

// checkRegexPairing: both matchers store params[binds[i]] = submatches[g],
// g = groups[i], falling back to i+1 only when groups == nil.
func checkRegexPairing(c *Check) {
	p := c.P
	c.curRule = "C02.R3"
	for _, tn := range []string{"regexTree", "regexLeaf"} {
		fn := p.Meth("route", tn, "match")
		if fn == nil {
			c.Anchor("route." + tn + ".match")
			continue
		}
		key := p.FuncKey(fn) + ":pairing"
		recv := vParam(fn, 0)
		binds, groups := vField(recv, "binds"), vField(recv, "groups")
		sub := vCall("(*regexp.Regexp).FindStringSubmatch", vField(recv, "regexp"), vParam(fn, 1))
		var mu *ssa.MapUpdate
		var others []*ssa.MapUpdate
		allInstrs(fn, func(in ssa.Instruction) {
			if x, ok := in.(*ssa.MapUpdate); ok {
				if _, isSub := elemIndex(x.Value, sub); isSub || mu == nil {
					if mu != nil {
						if _, wasSub := elemIndex(mu.Value, sub); !wasSub {
							others = append(others, mu)
						}
					}
					mu = x
				} else {
					others = append(others, x)
				}
			}
		})
		if mu == nil {
			c.Bad(key, p.FuncPos(fn), "no store into params")
			continue
		}
		// every store into params is a sub-match of this segment under its own bind: a shortcut that stores
		// something else (the whole segment under binds[0], …) is right only for one shape of segment, which the
		// matcher cannot know from a flag
		for _, o := range others {
			c.Bad(key+":other-store", p.Pos(o.Pos()), "the regex matcher also stores "+vstr(o.Value)+" under "+vstr(o.Key)+", not a sub-match of its pattern: for a segment with several binds or literal text the value belongs to no single bind")
		}
		ki, okK := elemIndex(mu.Key, binds)
		gi, okV := elemIndex(mu.Value, sub)
		if !okK || !okV || !ascendingIndex(ki) {
			c.Bad(key, p.Pos(mu.Pos()), "capture store is not params[binds[i]] = submatches[g]: "+vstr(mu.Key)+" = "+vstr(mu.Value))
			continue
		}
		good := true
		why := ""
		nLeaves := 0
		gphi, _ := strip(gi).(*ssa.Phi)
		phiLeaves(gi, func(l ssa.Value) {
			nLeaves++
			if j, ok := elemIndex(l, groups); ok && strip(j) == strip(ki) {
				return
			}
			if vBin(token.ADD, vIs(ki), vConstInt(1))(l) {
				// positional fallback: only when groups == nil
				if gphi == nil {
					good, why = false, "sub-match index is always the bind's position + 1 (positional pairing)"
					return
				}
				isNil := edgesWhere(fn, cCmp(token.EQL, groups, vNil), true)
				for i, e := range gphi.Edges {
					if strip(e) == l {
						if !edgeGuarded(fn, isNil, gphi.Block().Preds[i], gphi.Block()) {
							good, why = false, "positional index i+1 is used although a group table exists"
						}
					}
				}
				return
			}
			good, why = false, "unexpected sub-match index "+vstr(l)
		})
		c.Cond(good && nLeaves > 0, key, p.Pos(mu.Pos()), "params[binds[i]] = submatches[groups[i]] (i+1 only when groups == nil)", "bind values are paired with the wrong sub-match: "+why)
	}
}

// vConstText matches the constant text s, written as a string or — for one character — as the byte or
// rune handed to WriteByte / WriteRune.
func vConstText(s string) VM {
	return func(v ssa.Value) bool {
		if vConstStr(s)(v) {
			return true
		}
		if len(s) == 1 {
			if k, ok := constInt(v); ok && k == int64(s[0]) {
				return true
			}
		}
		return false
	}
}

// isFreshEmptyMap: make(map…) with nothing stored into it in this function.
func isFreshEmptyMap(v ssa.Value) bool {
	v = strip(v)
	mm, ok := v.(*ssa.MakeMap)
	if !ok {
		if ct, isCT := v.(*ssa.ChangeType); isCT {
			mm, ok = ct.X.(*ssa.MakeMap)
		}
		if !ok {
			return false
		}
	}
	for _, r := range referrers(mm) {
		if _, isMU := r.(*ssa.MapUpdate); isMU {
			return false
		}
	}
	return true
}
