package main

// Flattening of a private struct that groups canonical fields: when a canonical struct S lacks some of
// its canonical fields and has one unknown private field g whose type T is an unexported struct of the
// module that declares fields of exactly those names and types, S.g.f is the canonical S.f in another
// place. The field g is replaced by T's fields, selectors x.g.f become x.f and `g: T{f: v}` inside a
// literal of S becomes `f: v`. Any other use of g or T makes the step impossible (no edits); the result
// is re-type-checked like every normalisation step.

import (
	"fmt"
	"go/ast"
	"go/token"
	"go/types"
)

func (ns *normState) planFlatten() editSet {
	es := editSet{}
	for _, short := range []string{"flamego", "inject", "route"} {
		pk := ns.pkgs[short]
		if pk == nil {
			continue
		}
		info := pk.TypesInfo
		sc := pk.Types.Scope()
		byStruct := map[string][]canonField{}
		for _, f := range canonFields {
			if f.Pkg == short {
				byStruct[f.Struct] = append(byStruct[f.Struct], f)
			}
		}
		for sname, cfs := range byStruct {
			tn, ok := sc.Lookup(sname).(*types.TypeName)
			if !ok {
				continue
			}
			st, ok := tn.Type().Underlying().(*types.Struct)
			if !ok {
				continue
			}
			have := map[string]bool{}
			canon := map[string]string{}
			for _, cf := range cfs {
				canon[cf.Name] = cf.Type
			}
			var extras []*types.Var
			for i := 0; i < st.NumFields(); i++ {
				f := st.Field(i)
				have[f.Name()] = true
				if _, isCanon := canon[f.Name()]; !isCanon && !f.Exported() && !f.Embedded() {
					extras = append(extras, f)
				}
			}
			missing := map[string]string{}
			for n, t := range canon {
				if !have[n] {
					missing[n] = t
				}
			}
			if len(missing) == 0 {
				continue
			}
			for _, g := range extras {
				T, ok := g.Type().(*types.Named)
				if !ok || T.Obj().Exported() || T.Obj().Pkg() != pk.Types {
					continue
				}
				ts, ok := T.Underlying().(*types.Struct)
				if !ok {
					continue
				}
				// T declares the missing fields (and nothing S already has); T has no methods
				if T.NumMethods() > 0 {
					continue
				}
				okFields := ts.NumFields() > 0
				covered := 0
				for i := 0; i < ts.NumFields(); i++ {
					f := ts.Field(i)
					if have[f.Name()] || f.Embedded() {
						okFields = false
					}
					if t, isM := missing[f.Name()]; isM && typeStr(f.Type()) == t {
						covered++
					}
				}
				if !okFields || covered == 0 {
					continue
				}
				if e := ns.flattenEdits(pk.Syntax, info, tn, g, T); e != nil {
					for f, l := range e {
						es[f] = append(es[f], l...)
					}
					ns.notes = append(ns.notes, fmt.Sprintf("the private struct %s.%s (field %s of %s) groups canonical fields: it is read as those fields of %s itself", short, T.Obj().Name(), g.Name(), sname, sname))
				}
			}
		}
	}
	return es
}

func (ns *normState) flattenEdits(files []*ast.File, info *types.Info, S *types.TypeName, g *types.Var, T *types.Named) editSet {
	es := editSet{}
	ok := true
	// declaration of T: the text of its field list
	var tFields string
	var sFieldNode *ast.Field
	for _, f := range files {
		ast.Inspect(f, func(n ast.Node) bool {
			ts, isTS := n.(*ast.TypeSpec)
			if !isTS {
				return true
			}
			stt, isSt := ts.Type.(*ast.StructType)
			if !isSt {
				return true
			}
			if info.Defs[ts.Name] == types.Object(T.Obj()) {
				if stt.Fields != nil && len(stt.Fields.List) > 0 {
					tFields = ns.srcText(stt.Fields.List[0].Pos(), stt.Fields.List[len(stt.Fields.List)-1].End())
				}
			}
			if info.Defs[ts.Name] == types.Object(S) {
				for _, fl := range stt.Fields.List {
					for _, nm := range fl.Names {
						if info.Defs[nm] == types.Object(g) {
							if len(fl.Names) != 1 {
								ok = false
							}
							sFieldNode = fl
						}
					}
				}
			}
			return true
		})
	}
	if tFields == "" || sFieldNode == nil || !ok {
		return nil
	}
	handled := map[*ast.Ident]bool{}
	handledT := map[*ast.Ident]bool{}
	for _, id := range sFieldNode.Names {
		handled[id] = true
	}
	if id, isId := sFieldNode.Type.(*ast.Ident); isId {
		handledT[id] = true
	}
	es.add(ns.fset, sFieldNode.Pos(), sFieldNode.End(), tFields)
	for _, f := range files {
		ast.Inspect(f, func(n ast.Node) bool {
			switch x := n.(type) {
			case *ast.SelectorExpr:
				// x.g.f → x.f
				inner, isSel := x.X.(*ast.SelectorExpr)
				if isSel && info.Uses[inner.Sel] == types.Object(g) {
					handled[inner.Sel] = true
					es.add(ns.fset, inner.X.End(), inner.End(), "")
				}
			case *ast.CompositeLit:
				tv, has := info.Types[x]
				if !has {
					return true
				}
				lt := tv.Type
				if p, isP := lt.(*types.Pointer); isP {
					lt = p.Elem()
				}
				if nt, isN := lt.(*types.Named); !isN || nt.Obj() != S {
					return true
				}
				for _, el := range x.Elts {
					kv, isKV := el.(*ast.KeyValueExpr)
					if !isKV {
						continue
					}
					kid, isId := kv.Key.(*ast.Ident)
					if !isId || info.Uses[kid] != types.Object(g) && info.ObjectOf(kid) != types.Object(g) {
						continue
					}
					handled[kid] = true
					inner, isCL := kv.Value.(*ast.CompositeLit)
					if !isCL {
						ok = false
						continue
					}
					if id, isId := inner.Type.(*ast.Ident); isId {
						handledT[id] = true
					}
					for _, ie := range inner.Elts {
						if _, isKV2 := ie.(*ast.KeyValueExpr); !isKV2 {
							ok = false
						}
					}
					if len(inner.Elts) == 0 {
						// g: T{} → nothing (remove the element and a following comma is kept harmlessly)
						es.add(ns.fset, kv.Pos(), kv.End(), "")
						ok = false // keep it simple: an empty literal is rare; give up
						continue
					}
					es.add(ns.fset, kv.Pos(), inner.Elts[0].Pos(), "")
					es.add(ns.fset, inner.Elts[len(inner.Elts)-1].End(), kv.End(), "")
				}
			}
			return true
		})
	}
	// every other use of g or T blocks the step
	for _, f := range files {
		ast.Inspect(f, func(n ast.Node) bool {
			id, isId := n.(*ast.Ident)
			if !isId {
				return true
			}
			if (info.Uses[id] == types.Object(g) || info.Defs[id] == types.Object(g)) && !handled[id] {
				ok = false
			}
			if info.Uses[id] == types.Object(T.Obj()) && !handledT[id] {
				ok = false
			}
			return true
		})
	}
	if !ok {
		return nil
	}
	_ = token.NoPos
	return es
}
