package main

// Verified lemmas about canonical predicates. hasMatchAllLeaf / hasMatchAllSubtree are small pure
// predicates of the tree node; callers may branch on the call instead of repeating the tests. A rule
// may read the call's verdict as the facts below only after the definition has been checked on the
// current tree, in both directions:
//
//	hasMatchAllX(t) == true  ⇒ len(t.list) > 0 ∧ style(t.list[len-1]) == all
//	hasMatchAllX(t) == false ⇒ len(t.list) == 0 ∨ style(t.list[len-1]) != all
//
// and the predicate has no effect (no store, no call besides len and getMatchStyle).

import (
	"go/token"
	"strings"
	"sync"

	"golang.org/x/tools/go/ssa"
)

var lemmaCache sync.Map // *ssa.Function → bool

var hasMatchAllList = map[string]string{"hasMatchAllLeaf": "leaves", "hasMatchAllSubtree": "subtrees"}

func (p *Prog) hasMatchAllLemma(name string) (*ssa.Function, bool) {
	fn := p.Meth("route", "baseTree", name)
	if fn == nil || len(fn.Blocks) == 0 {
		return nil, false
	}
	if v, ok := lemmaCache.Load(fn); ok {
		return fn, v.(bool)
	}
	res := p.verifyHasMatchAll(fn, hasMatchAllList[name])
	lemmaCache.Store(fn, res)
	return fn, res
}

func (p *Prog) verifyHasMatchAll(fn *ssa.Function, field string) bool {
	kAll, okK := p.constVal("route", "matchStyleAll")
	if !okK || field == "" {
		return false
	}
	list := vField(vParam(fn, 0), field)
	last := vElem(list, vBin(token.SUB, vLen(list), vConstInt(1)))
	isAllC := cCmp(token.EQL, func(x ssa.Value) bool {
		cl := asCall(x)
		return cl != nil && strings.HasSuffix(callName(&cl.Call), ".getMatchStyle") && last(cl.Call.Value)
	}, vConstInt(kAll))
	isAll := func(v ssa.Value) bool { m, pos := isAllC(v); return m && pos }
	notAll := func(v ssa.Value) bool { m, pos := isAllC(v); return m && !pos }
	nonEmpty := cCmp(token.GTR, vLen(list), vConstInt(0))
	lenT := edgesWhereDirect(fn, nonEmpty, true)
	lenF := edgesWhereDirect(fn, nonEmpty, false)
	pure := true
	nRet := 0
	ok := true
	allInstrs(fn, func(in ssa.Instruction) {
		switch x := in.(type) {
		case *ssa.Store, *ssa.MapUpdate, *ssa.Send, *ssa.Go, *ssa.Defer, *ssa.Panic:
			pure = false
		case ssa.CallInstruction:
			n := callName(x.Common())
			if n != "builtin.len" && !strings.HasSuffix(n, ".getMatchStyle") {
				pure = false
			}
		case *ssa.Return:
			nRet++
			if len(x.Results) != 1 {
				ok = false
				return
			}
			r := x.Results[0]
			// true ⇒ style(last) == all
			if o, _ := boolImpliesX(fn, r, x.Block(), true, isAll, notAll, EdgeSet{}); !o {
				ok = false
			}
			// true ⇒ len > 0 was established
			if o, _ := boolImpliesX(fn, r, x.Block(), true, nil, nil, lenT); !o {
				ok = false
			}
			// false ⇒ len == 0 edge taken, or the style comparison itself is false
			if o, _ := boolImpliesX(fn, r, x.Block(), false, notAll, isAll, lenF); !o {
				ok = false
			}
		}
	})
	return pure && ok && nRet > 0 && len(lenT) > 0
}

// lemmaEdges: the edges of fn on which a call of the verified predicate on the receiver recv has the
// given verdict. Empty when the definition does not verify.
func (p *Prog) lemmaEdges(fn *ssa.Function, recv VM, name string, holds bool) EdgeSet {
	callee, ok := p.hasMatchAllLemma(name)
	if !ok {
		return EdgeSet{}
	}
	isCall := func(v ssa.Value) bool {
		cl := asCall(v)
		if cl == nil || cl.Call.IsInvoke() || cl.Call.StaticCallee() != callee || len(cl.Call.Args) == 0 {
			return false
		}
		return recv(cl.Call.Args[0])
	}
	return edgesWhere(fn, cBool(isCall), holds)
}
