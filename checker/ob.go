package main

// Obligations, evidence files, known findings and the exit protocol.

import (
	"bufio"
	"encoding/json"
	"fmt"
	"os"
	"path/filepath"
	"sort"
	"strings"
	"time"
)

type Obligation struct {
	Rule      string   `json:"rule"`      // e.g. "C01.R2"
	Construct string   `json:"construct"` // stable key, never a line number
	Pos       string   `json:"pos"`       // file:line (diagnostic only)
	Status    string   `json:"status"`    // discharged | violated | known
	How       string   `json:"how"`       // normal form found / rule applied / what is wrong
	Path      []string `json:"path,omitempty"`
	Inspected int      `json:"inspected"` // instructions / nodes the rule looked at
}

type RuleInfo struct {
	ID        string `json:"id"`
	Engine    string `json:"engine"`
	Text      string `json:"text"`
	Min       int    `json:"min_instances"`
	Instances int    `json:"instances"`
}

type Check struct {
	sharing  map[string]bool // properties whose rule sets are being evaluated further up the Share chain
	P        *Prog
	Property string
	Tier     string
	Seed     int64
	Obs      []*Obligation
	Rules    map[string]*RuleInfo
	order    []string
	NotDec   []string
	Assume   []string
	Trusted  []string
	Controls []string // positive controls that fired
	Extra    map[string]interface{}
	Explain  string
	curRule  string
}

func NewCheck(p *Prog, property, tier string, seed int64) *Check {
	return &Check{P: p, Property: property, Tier: tier, Seed: seed, Rules: map[string]*RuleInfo{}, Extra: map[string]interface{}{}}
}

// Rule declares a rule; subsequent ok/bad calls without an explicit rule id
// belong to it.
func (c *Check) Rule(id, engine, text string, min int) {
	full := c.Property + "." + id
	if _, ok := c.Rules[full]; !ok {
		c.Rules[full] = &RuleInfo{ID: full, Engine: engine, Text: text, Min: min}
		c.order = append(c.order, full)
	}
	c.curRule = full
}

func (c *Check) add(status, construct, pos, how string, inspected int, path []string) *Obligation {
	if c.curRule == "" {
		c.Rule("R0", "anchors", "the constructs the rules of this property inspect exist and have the shape the rules were confirmed on", 0)
	}
	o := &Obligation{Rule: c.curRule, Construct: construct, Pos: pos, Status: status, How: how, Inspected: inspected, Path: path}
	c.Obs = append(c.Obs, o)
	if r := c.Rules[c.curRule]; r != nil {
		r.Instances++
	}
	return o
}

// OK records a discharged obligation.
func (c *Check) OK(construct, pos, how string, inspected int) {
	if inspected <= 0 {
		inspected = 1
	}
	c.add("discharged", construct, pos, how, inspected, nil)
}

// Bad records a violated obligation.
func (c *Check) Bad(construct, pos, how string, path ...string) {
	c.add("violated", construct, pos, how, 1, path)
}

// Cond records OK or Bad depending on ok.
func (c *Check) Cond(ok bool, construct, pos, okHow, badHow string) bool {
	if ok {
		c.OK(construct, pos, okHow, 1)
	} else {
		c.Bad(construct, pos, badHow)
	}
	return ok
}

// Anchor reports an unresolvable anchor for the current rule.
func (c *Check) Anchor(what string) {
	c.add("violated", "anchor:"+what, "?", "anchor not found: "+what+" — the mechanism this rule inspects was removed or replaced; the rule table must be re-confirmed", 1, nil)
}

// Undecided reports a construct whose idiom the rule does not recognise.
func (c *Check) Undecided(construct, pos, why string) {
	c.add("violated", construct, pos, "undecided: idiom not recognised: "+why, 1, nil)
}

type knownEntry struct {
	kind      string // known | fixed
	property  string
	rule      string
	construct string
	text      string
}

func loadKnown(path string) ([]knownEntry, error) {
	f, err := os.Open(path)
	if err != nil {
		if os.IsNotExist(err) {
			return nil, nil
		}
		return nil, err
	}
	defer f.Close()
	var out []knownEntry
	sc := bufio.NewScanner(f)
	for sc.Scan() {
		line := strings.TrimSpace(sc.Text())
		if line == "" || strings.HasPrefix(line, "#") {
			continue
		}
		var e knownEntry
		switch {
		case strings.HasPrefix(line, "known:"):
			e.kind = "known"
			rest := strings.TrimSpace(strings.TrimPrefix(line, "known:"))
			head := rest
			if i := strings.Index(rest, "::"); i >= 0 {
				head = rest[:i]
				e.text = strings.TrimSpace(rest[i+2:])
			}
			for _, f := range strings.Fields(head) {
				kv := strings.SplitN(f, "=", 2)
				if len(kv) != 2 {
					continue
				}
				switch kv[0] {
				case "property":
					e.property = kv[1]
				case "rule":
					e.rule = kv[1]
				case "construct":
					e.construct = kv[1]
				}
			}
			if e.property == "" || e.rule == "" || e.construct == "" {
				return nil, fmt.Errorf("malformed known: line %q", line)
			}
		case strings.HasPrefix(line, "fixed:"):
			e.kind = "fixed"
			e.text = strings.TrimSpace(strings.TrimPrefix(line, "fixed:"))
		default:
			return nil, fmt.Errorf("malformed line in known findings: %q", line)
		}
		out = append(out, e)
	}
	return out, sc.Err()
}

// Finish applies anchor-drift checks and known findings, writes evidence and
// replay files, prints the protocol lines and returns the exit status.
func (c *Check) Finish(verifDir string, started time.Time, writeEvidence bool) int {
	// Anchor drift: fewer instances than confirmed by reading.
	for _, id := range c.order {
		r := c.Rules[id]
		if r.Instances < r.Min {
			c.curRule = id
			c.add("violated", "anchor-drift", "?", fmt.Sprintf("rule matched %d constructs, expected at least %d (confirmed by reading); a rule that matches nothing must not pass vacuously", r.Instances, r.Min), 1, nil)
		}
	}
	known, err := loadKnown(filepath.Join(verifDir, "KNOWN_FINDINGS.txt"))
	if err != nil {
		fmt.Printf("ERROR reading known findings: %v\n", err)
		return 2
	}
	for _, o := range c.Obs {
		if o.Status != "violated" {
			continue
		}
		for _, k := range known {
			if k.kind == "known" && k.property == c.Property && k.rule == o.Rule && k.construct == o.Construct {
				o.Status = "known"
				fmt.Printf("KNOWN-FINDING: property=%s %s %s %s\n", c.Property, o.Rule, o.Construct, k.text)
			}
		}
	}
	nviol, ndis, nknown := 0, 0, 0
	replayDir := filepath.Join(verifDir, "evidence", "replay")
	for _, o := range c.Obs {
		switch o.Status {
		case "discharged":
			ndis++
		case "known":
			nknown++
		case "violated":
			nviol++
		}
	}
	if writeEvidence {
		// stale replay files of this property
		if ents, err := os.ReadDir(replayDir); err == nil {
			for _, e := range ents {
				if strings.HasPrefix(e.Name(), c.Property+"-") {
					os.Remove(filepath.Join(replayDir, e.Name()))
				}
			}
		}
	}
	n := 0
	for _, o := range c.Obs {
		if o.Status != "violated" {
			continue
		}
		n++
		rp := filepath.Join(replayDir, fmt.Sprintf("%s-%s-%d.json", c.Property, strings.TrimPrefix(o.Rule, c.Property+"."), n))
		if writeEvidence {
			os.MkdirAll(replayDir, 0o755)
			b, _ := json.MarshalIndent(map[string]interface{}{"property": c.Property, "obligation": o, "rule": c.Rules[o.Rule]}, "", " ")
			os.WriteFile(rp, b, 0o644)
		}
		fmt.Printf("VIOLATION property=%s replay=%s\n", c.Property, rp)
		fmt.Printf("  rule=%s construct=%s at %s: %s\n", o.Rule, o.Construct, o.Pos, o.How)
		for _, s := range o.Path {
			fmt.Printf("    path: %s\n", s)
		}
	}
	if writeEvidence {
		if err := c.writeEvidence(verifDir, started, nviol, ndis, nknown); err != nil {
			fmt.Printf("ERROR writing evidence: %v\n", err)
			return 2
		}
	}
	for _, n := range c.P.NormNotes {
		fmt.Printf("note: %s\n", n)
	}
	fmt.Printf("%s %s: rules=%d obligations=%d discharged=%d known=%d violated=%d wall=%.2fs\n",
		c.Property, c.Tier, len(c.Rules), len(c.Obs), ndis, nknown, nviol, time.Since(started).Seconds())
	if nviol > 0 {
		return 1
	}
	return 0
}

func (c *Check) writeEvidence(verifDir string, started time.Time, nviol, ndis, nknown int) error {
	distinct := map[string]bool{}
	for _, o := range c.Obs {
		if o.Inspected > 0 && o.Status != "violated" {
			distinct[o.Rule+"|"+o.Construct] = true
		}
	}
	var samples []interface{}
	perRule := map[string]int{}
	for _, o := range c.Obs {
		if perRule[o.Rule] < 2 || o.Status != "discharged" {
			samples = append(samples, o)
			perRule[o.Rule]++
		}
	}
	var rules []*RuleInfo
	for _, id := range c.order {
		rules = append(rules, c.Rules[id])
	}
	files := c.P.Files()
	pk := []string{}
	for s := range c.P.Pkgs {
		pk = append(pk, s)
	}
	sort.Strings(pk)
	expl := c.Explain
	if expl == "" {
		expl = "static analysis of the type-checked program and its go/ssa form"
	}
	cov := map[string]interface{}{
		"explanation":         expl,
		"obligations":         len(c.Obs),
		"discharged":          ndis,
		"known_findings":      nknown,
		"evaluations":         len(c.Obs),
		"distinct_nontrivial": len(distinct),
		"rule":                "one obligation per rule x construct (function / call site / table) found by role in /repo's current source; distinct = distinct rule|construct keys that inspected at least one instruction or node and were not violated",
		"samples":             samples,
		"rules":               rules,
		"functions_analysed":  len(c.P.Funcs()),
		"packages":            pk,
		"files":               files,
		"controls_fired":      c.Controls,
		"not_decided":         c.NotDec,
		"checker_cmd":         fmt.Sprintf("bin/flamecheck -property %s -tier %s", c.Property, c.Tier),
		"trusted_base":        append([]string{"go/types", "go/ssa (x/tools v0.29.0)", "go/packages loading of /repo's working tree"}, c.Trusted...),
		"whole_program":       c.P.Whole,
		"exhaustive":          false,
	}
	if len(c.P.NormNotes) > 0 || len(c.P.roleNotes) > 0 {
		cov["source_normalisation"] = append(append([]string{}, c.P.NormNotes...), c.P.roleNotes...)
	}
	for k, v := range c.Extra {
		cov[k] = v
	}
	ev := map[string]interface{}{
		"property_id": c.Property,
		"tier":        c.Tier,
		"seed":        c.Seed,
		"level":       "other",
		"coverage":    cov,
		"assumptions": append([]string{"the rules are structural necessary conditions of the property, not the behavioural property itself"}, c.Assume...),
		"wall_s":      time.Since(started).Seconds(),
		"violations":  nviol,
	}
	b, err := json.MarshalIndent(ev, "", " ")
	if err != nil {
		return err
	}
	dir := filepath.Join(verifDir, "evidence")
	if err := os.MkdirAll(dir, 0o755); err != nil {
		return err
	}
	return os.WriteFile(filepath.Join(dir, c.Property+".json"), append(b, '\n'), 0o644)
}

// Share runs another property's rule set on the same program and re-reports
// the obligations of the selected rules under the current rule id: several
// properties rest on the same structural fact (e.g. the shortcut table must be
// coherent for C01, C09 and C10 alike).
func (c *Check) Share(from string, rules []string, min int) {
	f, ok := properties[from]
	if !ok {
		return
	}
	// shares form cycles (C01 ↔ C10): a property already being evaluated further up is not entered again
	if from == c.Property || c.sharing[from] {
		return
	}
	sub := NewCheck(c.P, from, c.Tier, c.Seed)
	sub.sharing = map[string]bool{c.Property: true}
	for k := range c.sharing {
		sub.sharing[k] = true
	}
	func() {
		defer func() {
			if r := recover(); r != nil {
				c.Bad("shared:"+from, "?", fmt.Sprint("shared rule set panicked: ", r))
			}
		}()
		f(sub)
	}()
	want := map[string]bool{}
	for _, r := range rules {
		want[from+"."+r] = true
	}
	n := 0
	for _, o := range sub.Obs {
		if !want[o.Rule] {
			continue
		}
		n++
		if o.Status == "violated" {
			c.Bad(o.Construct+" ["+o.Rule+"]", o.Pos, o.How, o.Path...)
		} else {
			c.OK(o.Construct+" ["+o.Rule+"]", o.Pos, o.How, o.Inspected)
		}
	}
	if n < min {
		c.Bad("shared:"+from+":anchor-drift", "?", fmt.Sprintf("shared rules of %s produced %d obligations, expected at least %d", from, n, min))
	}
}
