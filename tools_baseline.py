#!/usr/bin/env python3
"""Runs /repo's test suite (offline) and checks that all 358 stable-pass tests of BASELINE.json pass."""
import json, subprocess, os, sys
env = dict(os.environ, GOFLAGS="-mod=mod", GOPROXY="off", GOSUMDB="off", GOTOOLCHAIN="local", GOWORK="off")
repo = sys.argv[1] if len(sys.argv) > 1 else "/repo"
passed = set()
base_list = json.load(open("/root/.vp/BASELINE.json"))["stable_pass"]
# go test -json occasionally glues a "--- PASS" line to unterminated test output, losing the event;
# a test counts as passing if any of up to three runs reports it.
for attempt in range(3):
    out = subprocess.run(["go", "test", "-json", "-vet=off", "-count=1", "-timeout", "25m", "./..."], cwd=repo, env=env, capture_output=True, text=True).stdout
    for line in out.splitlines():
        try:
            e = json.loads(line)
        except Exception:
            continue
        if e.get("Action") == "pass" and e.get("Test"):
            passed.add(e["Package"] + "::" + e["Test"])
    if all(t in passed for t in base_list):
        break
base = json.load(open("/root/.vp/BASELINE.json"))["stable_pass"]
missing = [t for t in base if t not in passed]
print("baseline stable_pass:", len(base), "passing now:", len(base) - len(missing), "missing:", len(missing))
for t in missing[:20]:
    print("  MISSING", t)
sys.exit(1 if missing else 0)
