package main

// A small unified-diff applier, so that stored patches (independent seeded
// changes under /verif/seeded, independent behaviour-preserving refactorings
// under /verif/benign) can be applied in memory to /repo's current files and
// analysed through packages.Config.Overlay, like the textual seeds.

import (
	"fmt"
	"os"
	"path/filepath"
	"strconv"
	"strings"
)

type hunk struct {
	oldStart int
	oldLines []string
	newLines []string
}

type filePatch struct {
	oldPath, newPath string
	hunks            []hunk
}

func parseUnified(patch string) ([]filePatch, error) {
	var out []filePatch
	var cur *filePatch
	var h *hunk
	lines := strings.Split(patch, "\n")
	if n := len(lines); n > 0 && lines[n-1] == "" {
		lines = lines[:n-1]
	}
	flushH := func() {
		if cur != nil && h != nil {
			cur.hunks = append(cur.hunks, *h)
		}
		h = nil
	}
	for i := 0; i < len(lines); i++ {
		ln := lines[i]
		switch {
		case strings.HasPrefix(ln, "diff --git "):
			flushH()
			out = append(out, filePatch{})
			cur = &out[len(out)-1]
		case h == nil && strings.HasPrefix(ln, "--- "):
			if cur == nil {
				out = append(out, filePatch{})
				cur = &out[len(out)-1]
			}
			cur.oldPath = strings.TrimPrefix(strings.TrimSpace(strings.TrimPrefix(ln, "--- ")), "a/")
		case h == nil && strings.HasPrefix(ln, "+++ "):
			cur.newPath = strings.TrimPrefix(strings.TrimSpace(strings.TrimPrefix(ln, "+++ ")), "b/")
		case strings.HasPrefix(ln, "@@ "):
			flushH()
			if cur == nil {
				return nil, fmt.Errorf("hunk before file header")
			}
			// @@ -l,s +l,s @@
			f := strings.Fields(ln)
			if len(f) < 3 {
				return nil, fmt.Errorf("bad hunk header %q", ln)
			}
			o := strings.TrimPrefix(f[1], "-")
			if k := strings.Index(o, ","); k >= 0 {
				o = o[:k]
			}
			n, err := strconv.Atoi(o)
			if err != nil {
				return nil, fmt.Errorf("bad hunk header %q", ln)
			}
			h = &hunk{oldStart: n}
		case h != nil && strings.HasPrefix(ln, "\\"):
			// "\ No newline at end of file": ignored (Go sources end with a newline)
		case h != nil && strings.HasPrefix(ln, "+"):
			h.newLines = append(h.newLines, ln[1:])
		case h != nil && strings.HasPrefix(ln, "-"):
			h.oldLines = append(h.oldLines, ln[1:])
		case h != nil && (strings.HasPrefix(ln, " ") || ln == ""):
			t := ""
			if ln != "" {
				t = ln[1:]
			}
			h.oldLines = append(h.oldLines, t)
			h.newLines = append(h.newLines, t)
		default:
			// index, mode lines etc.
			if h != nil {
				flushH()
			}
		}
	}
	flushH()
	return out, nil
}

// applyUnified returns the new contents (keyed by absolute path) of the files a patch touches.
func applyUnified(repo, patch string) (map[string][]byte, error) {
	fps, err := parseUnified(patch)
	if err != nil {
		return nil, err
	}
	out := map[string][]byte{}
	for _, fp := range fps {
		if fp.newPath == "" && fp.oldPath == "" {
			continue
		}
		if fp.newPath == "/dev/null" {
			return nil, fmt.Errorf("patch deletes %s (not representable as an overlay)", fp.oldPath)
		}
		abs := filepath.Join(repo, fp.newPath)
		var src []string
		if fp.oldPath != "/dev/null" {
			b, ok := out[filepath.Join(repo, fp.oldPath)]
			if !ok {
				var err error
				b, err = os.ReadFile(filepath.Join(repo, fp.oldPath))
				if err != nil {
					return nil, err
				}
			}
			if fp.oldPath != fp.newPath {
				return nil, fmt.Errorf("patch renames %s (not representable as an overlay)", fp.oldPath)
			}
			src = strings.Split(string(b), "\n")
		}
		shift := 0
		for _, h := range fp.hunks {
			at := -1
			want := h.oldStart - 1 + shift
			if len(h.oldLines) == 0 {
				at = want
				if h.oldStart == 0 {
					at = 0
				} else {
					at = want + 1
				}
			} else {
				matches := func(p int) bool {
					if p < 0 || p+len(h.oldLines) > len(src) {
						return false
					}
					for i, l := range h.oldLines {
						if src[p+i] != l {
							return false
						}
					}
					return true
				}
				for d := 0; d <= len(src); d++ {
					if matches(want + d) {
						at = want + d
						break
					}
					if matches(want - d) {
						at = want - d
						break
					}
				}
				if at < 0 {
					return nil, fmt.Errorf("hunk @@ -%d does not apply to %s (tree changed?)", h.oldStart, fp.newPath)
				}
			}
			if at > len(src) {
				at = len(src)
			}
			ns := append([]string{}, src[:at]...)
			ns = append(ns, h.newLines...)
			ns = append(ns, src[at+len(h.oldLines):]...)
			shift += len(h.newLines) - len(h.oldLines)
			src = ns
		}
		txt := strings.Join(src, "\n")
		if fp.oldPath == "/dev/null" && !strings.HasSuffix(txt, "\n") {
			txt += "\n"
		}
		out[abs] = []byte(txt)
	}
	return out, nil
}
