package main

// Unrolling of a range over a short slice literal. `for _, v := range []T{a, b} { body }` (typically what
// is left of a variadic helper called with separate arguments, after inlining) runs body with v = a, then
// with v = b. When the elements are plain operands that the body does not assign, the body defines no
// label and has no break/continue of its own loop, the statement is replaced by
//
//	{ v := a; body } { v := b; body }
//
// so that rules see the element values instead of a loop over a fresh slice. The literal may also reach
// the range through a local variable that has no other use.

import (
	"fmt"
	"go/ast"
	"go/token"
	"go/types"
	"sort"
	"strings"
)

const maxUnroll = 4

func (ns *normState) planUnrolls() editSet {
	es := editSet{}
	shorts := make([]string, 0, len(ns.pkgs))
	for s := range ns.pkgs {
		shorts = append(shorts, s)
	}
	sort.Strings(shorts)
	n := 0
	for _, short := range shorts {
		pk := ns.pkgs[short]
		info := pk.TypesInfo
		for _, file := range pk.Syntax {
			for _, d := range file.Decls {
				fd, ok := d.(*ast.FuncDecl)
				if !ok || fd.Body == nil {
					continue
				}
				n += ns.unrollInFunc(info, fd, es)
			}
		}
	}
	if n > 0 {
		ns.notes = append(ns.notes, fmt.Sprintf("%d range loop(s) over a short slice literal are read as their unrolled bodies", n))
	}
	return es
}

func (ns *normState) unrollInFunc(info *types.Info, fd *ast.FuncDecl, es editSet) int {
	count := 0
	// uses and assignments of local variables
	uses := map[types.Object]int{}
	assigned := map[types.Object]int{}
	ast.Inspect(fd.Body, func(n ast.Node) bool {
		switch x := n.(type) {
		case *ast.Ident:
			if o := info.Uses[x]; o != nil {
				uses[o]++
			}
		case *ast.AssignStmt:
			if x.Tok != token.DEFINE {
				for _, l := range x.Lhs {
					if id, ok := l.(*ast.Ident); ok {
						if o := info.ObjectOf(id); o != nil {
							assigned[o]++
						}
					}
				}
			}
		case *ast.IncDecStmt:
			if id, ok := x.X.(*ast.Ident); ok {
				if o := info.ObjectOf(id); o != nil {
					assigned[o]++
				}
			}
		case *ast.UnaryExpr:
			if id, ok := x.X.(*ast.Ident); ok && x.Op == token.AND {
				if o := info.ObjectOf(id); o != nil {
					assigned[o]++
				}
			}
		}
		return true
	})
	// var x T = lit / x := lit
	litOf := map[types.Object]*ast.CompositeLit{}
	ast.Inspect(fd.Body, func(n ast.Node) bool {
		switch x := n.(type) {
		case *ast.DeclStmt:
			if gd, ok := x.Decl.(*ast.GenDecl); ok && gd.Tok == token.VAR {
				for _, sp := range gd.Specs {
					vs := sp.(*ast.ValueSpec)
					if len(vs.Names) == 1 && len(vs.Values) == 1 {
						if cl, ok := vs.Values[0].(*ast.CompositeLit); ok {
							litOf[info.Defs[vs.Names[0]]] = cl
						}
					}
				}
			}
		case *ast.AssignStmt:
			if x.Tok == token.DEFINE && len(x.Lhs) == 1 && len(x.Rhs) == 1 {
				if id, ok := x.Lhs[0].(*ast.Ident); ok {
					if cl, ok := x.Rhs[0].(*ast.CompositeLit); ok && info.Defs[id] != nil {
						litOf[info.Defs[id]] = cl
					}
				}
			}
		}
		return true
	})
	var done []*ast.RangeStmt
	ast.Inspect(fd.Body, func(n ast.Node) bool {
		rs, ok := n.(*ast.RangeStmt)
		if !ok {
			return true
		}
		for _, d := range done {
			if rs.Pos() >= d.Pos() && rs.End() <= d.End() {
				return true // nested in a loop already rewritten this round
			}
		}
		if rs.Tok != token.DEFINE && (rs.Key != nil || rs.Value != nil) {
			return true
		}
		var lit *ast.CompositeLit
		viaVar := ""
		switch x := rs.X.(type) {
		case *ast.CompositeLit:
			lit = x
		case *ast.Ident:
			o := info.Uses[x]
			if o != nil && litOf[o] != nil && uses[o] == 1 && assigned[o] == 0 {
				lit = litOf[o]
				viaVar = x.Name
			}
		}
		if lit == nil || len(lit.Elts) > maxUnroll {
			return true
		}
		switch info.TypeOf(lit).Underlying().(type) {
		case *types.Slice, *types.Array:
		default:
			return true
		}
		// elements: plain operands not assigned in the body
		for _, e := range lit.Elts {
			if _, isKV := e.(*ast.KeyValueExpr); isKV {
				return true
			}
			if !simpleOperand(e) {
				return true
			}
			bad := false
			ast.Inspect(e, func(m ast.Node) bool {
				if id, ok := m.(*ast.Ident); ok {
					if o := info.Uses[id]; o != nil {
						if _, isVar := o.(*types.Var); isVar && assignedIn(info, rs.Body, o) {
							bad = true
						}
					}
				}
				return true
			})
			if bad {
				return true
			}
		}
		// body: no label definition, no unlabelled break/continue that targets this loop
		okBody := true
		var walk func(n ast.Node, depth int)
		walk = func(n ast.Node, depth int) {
			ast.Inspect(n, func(m ast.Node) bool {
				switch y := m.(type) {
				case *ast.FuncLit:
					return false
				case *ast.LabeledStmt:
					okBody = false
				case *ast.BranchStmt:
					if y.Label == nil && (y.Tok == token.CONTINUE || (y.Tok == token.BREAK && depth == 0)) {
						okBody = false
					}
					if y.Label == nil && y.Tok == token.CONTINUE {
						okBody = false
					}
				case *ast.ForStmt:
					if m != n {
						walkInner(y.Body, &okBody)
						return false
					}
				case *ast.RangeStmt:
					if m != n {
						walkInner(y.Body, &okBody)
						return false
					}
				case *ast.SwitchStmt:
					if m != n {
						walkSwitch(y.Body, &okBody)
						return false
					}
				case *ast.TypeSwitchStmt:
					if m != n {
						walkSwitch(y.Body, &okBody)
						return false
					}
				case *ast.SelectStmt:
					if m != n {
						walkSwitch(y.Body, &okBody)
						return false
					}
				}
				return true
			})
		}
		walk(rs.Body, 0)
		if !okBody {
			return true
		}
		keyName, valName := "", ""
		if id, ok := rs.Key.(*ast.Ident); ok && id.Name != "_" {
			keyName = id.Name
		} else if rs.Key != nil {
			if _, isId := rs.Key.(*ast.Ident); !isId {
				return true
			}
		}
		if id, ok := rs.Value.(*ast.Ident); ok && id.Name != "_" {
			valName = id.Name
		} else if rs.Value != nil {
			if _, isId := rs.Value.(*ast.Ident); !isId {
				return true
			}
		}
		body := ns.srcText(rs.Body.Lbrace+1, rs.Body.Rbrace)
		var b strings.Builder
		if viaVar != "" {
			// the variable has no other use: keep it used
			b.WriteString("_ = " + viaVar + "; ")
		}
		b.WriteString("{ ")
		for i, e := range lit.Elts {
			b.WriteString("{ ")
			if keyName != "" {
				fmt.Fprintf(&b, "%s := %d; _ = %s; ", keyName, i, keyName)
			}
			if valName != "" {
				fmt.Fprintf(&b, "%s := %s; _ = %s; ", valName, ns.srcText(e.Pos(), e.End()), valName)
			}
			b.WriteString(body)
			b.WriteString(" }; ")
		}
		b.WriteString("}")
		es.add(ns.fset, rs.Pos(), rs.End(), b.String())
		done = append(done, rs)
		count++
		return false
	})
	return count
}

// walkInner: inside a nested loop an unlabelled break/continue belongs to that loop; labels still count.
func walkInner(n ast.Node, ok *bool) {
	ast.Inspect(n, func(m ast.Node) bool {
		switch m.(type) {
		case *ast.FuncLit:
			return false
		case *ast.LabeledStmt:
			*ok = false
		}
		return true
	})
}

// walkSwitch: inside a switch/select an unlabelled break belongs to it; an unlabelled continue still
// targets the loop being unrolled.
func walkSwitch(n ast.Node, ok *bool) {
	ast.Inspect(n, func(m ast.Node) bool {
		switch y := m.(type) {
		case *ast.FuncLit:
			return false
		case *ast.LabeledStmt:
			*ok = false
		case *ast.BranchStmt:
			if y.Label == nil && y.Tok == token.CONTINUE {
				*ok = false
			}
		case *ast.ForStmt:
			walkInner(y.Body, ok)
			return false
		case *ast.RangeStmt:
			walkInner(y.Body, ok)
			return false
		}
		return true
	})
}

func assignedIn(info *types.Info, n ast.Node, o types.Object) bool {
	found := false
	ast.Inspect(n, func(m ast.Node) bool {
		switch x := m.(type) {
		case *ast.AssignStmt:
			for _, l := range x.Lhs {
				if id, ok := l.(*ast.Ident); ok && info.ObjectOf(id) == o && x.Tok != token.DEFINE {
					found = true
				}
			}
		case *ast.IncDecStmt:
			if id, ok := x.X.(*ast.Ident); ok && info.ObjectOf(id) == o {
				found = true
			}
		case *ast.UnaryExpr:
			if id, ok := x.X.(*ast.Ident); ok && x.Op == token.AND && info.ObjectOf(id) == o {
				found = true
			}
		}
		return !found
	})
	return found
}
