package main

// A small symbolic layer over go/ssa values, so that rules about cursor
// arithmetic and substrings do not depend on the spelling:
//
//   next + i + 1, (next + i) + 1, next + (i + 1)            one linear form
//   path[next:next+i], rest[:i] with rest = path[next:]     one substring
//   strings.Index(s, "/"), strings.IndexByte(s, '/')        one search
//   strings.TrimLeft(p, "/"), for len(p) > 0 && p[0] == '/' { p = p[1:] }
//
// Nothing here evaluates anything: terms are SSA values compared by identity
// after strip(); only +, - and constants are interpreted.

import (
	"go/token"
	"go/types"
	"sync"

	"golang.org/x/tools/go/ssa"
)

type lin struct {
	t map[ssa.Value]int64
	k int64
}

func linOf(v ssa.Value) lin {
	out := lin{t: map[ssa.Value]int64{}}
	var add func(v ssa.Value, sign int64, depth int)
	add = func(v ssa.Value, sign int64, depth int) {
		v = strip(v)
		if c, ok := v.(*ssa.Const); ok && c.Value != nil && isIntT(c.Type()) {
			out.k += sign * c.Int64()
			return
		}
		if b, ok := v.(*ssa.BinOp); ok && depth < 12 && isIntT(b.Type()) {
			switch b.Op {
			case token.ADD:
				add(b.X, sign, depth+1)
				add(b.Y, sign, depth+1)
				return
			case token.SUB:
				add(b.X, sign, depth+1)
				add(b.Y, -sign, depth+1)
				return
			}
		}
		if cv, ok := v.(*ssa.Convert); ok && isIntT(cv.X.Type()) && isIntT(cv.Type()) {
			add(cv.X, sign, depth+1)
			return
		}
		v = canonAtom(v)
		out.t[v] += sign
		if out.t[v] == 0 {
			delete(out.t, v)
		}
	}
	add(v, 1, 0)
	return out
}

func (a lin) plus(b lin, sign int64) lin {
	out := lin{t: map[ssa.Value]int64{}, k: a.k + sign*b.k}
	for v, c := range a.t {
		out.t[v] = c
	}
	for v, c := range b.t {
		out.t[v] += sign * c
		if out.t[v] == 0 {
			delete(out.t, v)
		}
	}
	return out
}

func (a lin) equal(b lin) bool {
	if a.k != b.k || len(a.t) != len(b.t) {
		return false
	}
	for v, c := range a.t {
		if b.t[v] != c {
			return false
		}
	}
	return true
}

func (a lin) String() string {
	s := ""
	for v, c := range a.t {
		if s != "" {
			s += " + "
		}
		if c != 1 {
			s += itoa(c) + "*"
		}
		s += vstr(v)
	}
	if a.k != 0 || s == "" {
		if s != "" {
			s += " + "
		}
		s += itoa(a.k)
	}
	return s
}

func itoa(n int64) string {
	if n < 0 {
		return "-" + itoa(-n)
	}
	if n < 10 {
		return string(rune('0' + n))
	}
	return itoa(n/10) + string(rune('0'+n%10))
}

// linSum returns a predicate: the form is k plus exactly one term (coefficient 1)
// per matcher.
func linSum(k int64, terms ...VM) func(lin) bool {
	return func(l lin) bool {
		if l.k != k || len(l.t) != len(terms) {
			return false
		}
		used := map[ssa.Value]bool{}
		for _, m := range terms {
			found := false
			for v, c := range l.t {
				if c == 1 && !used[v] && m(v) {
					used[v] = true
					found = true
					break
				}
			}
			if !found {
				return false
			}
		}
		return true
	}
}

// vLin matches an integer value whose linear form satisfies pred.
func vLin(pred func(lin) bool) VM {
	return func(v ssa.Value) bool { return pred(linOf(v)) }
}

// substr describes base[lo:hi]; hi == nil means "to the end of base".
type substr struct {
	base ssa.Value
	lo   lin
	hi   *lin
}

func subOf(v ssa.Value) substr {
	v = strip(v)
	if sl, ok := v.(*ssa.Slice); ok && sl.Max == nil {
		if b, isB := sl.X.Type().Underlying().(*types.Basic); isB && b.Info()&types.IsString != 0 {
			in := subOf(sl.X)
			out := substr{base: in.base, lo: in.lo, hi: in.hi}
			if sl.High != nil {
				h := in.lo.plus(linOf(sl.High), 1)
				out.hi = &h
			}
			if sl.Low != nil {
				out.lo = in.lo.plus(linOf(sl.Low), 1)
			}
			return out
		}
	}
	// before / after of strings.Cut(s, sep): s[:i] and s[i+len(sep):] with i = len(before) (what Index returns
	// where the separator occurs; where it does not, before is s itself — the rules test that edge apart)
	if c, k, sep, ok := cutPart(v); ok && k <= 1 {
		if at := cutLenOf(c); at != nil {
			in := subOf(c.Call.Args[0])
			out := substr{base: in.base, lo: in.lo, hi: in.hi}
			idx := lin{t: map[ssa.Value]int64{at: 1}}
			if k == 0 {
				h := in.lo.plus(idx, 1)
				out.hi = &h
			} else {
				out.lo = in.lo.plus(idx, 1)
				out.lo.k += int64(len(sep))
			}
			return out
		}
	}
	return substr{base: v, lo: lin{t: map[ssa.Value]int64{}}}
}

// vSub matches a string denoting base[lo:hi]; hi == nil demands an open end.
func vSub(base VM, lo func(lin) bool, hi func(lin) bool) VM {
	return func(v ssa.Value) bool {
		s := subOf(v)
		if !base(s.base) || !lo(s.lo) {
			return false
		}
		if hi == nil {
			return s.hi == nil
		}
		return s.hi != nil && hi(*s.hi)
	}
}

// cutPart: v is result k of strings.Cut(s, sep) with a constant sep; returns the call.
func cutPart(v ssa.Value) (call *ssa.Call, k int, sep string, ok bool) {
	e, isE := strip(v).(*ssa.Extract)
	if !isE {
		return nil, 0, "", false
	}
	cl, isC := e.Tuple.(*ssa.Call)
	if !isC || callName(&cl.Call) != "strings.Cut" || len(cl.Call.Args) != 2 {
		return nil, 0, "", false
	}
	sp, isS := constStr(cl.Call.Args[1])
	if !isS || sp == "" {
		return nil, 0, "", false
	}
	return cl, e.Index, sp, true
}

// cutIndexValue: v is len(before) of `before, _, found := strings.Cut(s, sep)`, which on the found edge is
// what strings.Index(s, sep) returns; the call is returned.
func cutIndexValue(v ssa.Value) (*ssa.Call, string, bool) {
	cl := asCall(v)
	if cl == nil || callName(&cl.Call) != "builtin.len" || len(cl.Call.Args) != 1 {
		return nil, "", false
	}
	c, k, sep, ok := cutPart(cl.Call.Args[0])
	if !ok || k != 0 {
		return nil, "", false
	}
	return c, sep, true
}

// cutLenOf finds (one of) the len(before) calls for a Cut call, the value that stands for the index.
func cutLenOf(c *ssa.Call) ssa.Value {
	for _, r := range referrers(c) {
		e, ok := r.(*ssa.Extract)
		if !ok || e.Index != 0 {
			continue
		}
		for _, rr := range referrers(e) {
			if cl, ok := rr.(*ssa.Call); ok && callName(&cl.Call) == "builtin.len" {
				return canonAtom(cl)
			}
		}
	}
	return nil
}

// indexSlash: v is strings.Index(h, "/") or strings.IndexByte(h, '/') — or len(before) of
// strings.Cut(h, "/"), the same number wherever the separator was found; returns h.
func indexSlash(v ssa.Value) (ssa.Value, bool) {
	if c, sep, ok := cutIndexValue(v); ok && sep == "/" {
		return c.Call.Args[0], true
	}
	cl := asCall(v)
	if cl == nil || len(cl.Call.Args) != 2 {
		return nil, false
	}
	switch callName(&cl.Call) {
	case "strings.Index":
		if s, ok := constStr(cl.Call.Args[1]); ok && s == "/" {
			return cl.Call.Args[0], true
		}
	case "strings.IndexByte", "strings.IndexRune":
		if k, ok := constInt(cl.Call.Args[1]); ok && k == '/' {
			return cl.Call.Args[0], true
		}
	}
	return nil, false
}

// vIdxSlash matches the offset of the first "/" in a string matched by hay.
func vIdxSlash(hay VM) VM {
	return func(v ssa.Value) bool {
		h, ok := indexSlash(v)
		return ok && hay(h)
	}
}

// isSearchResult: v is the result of a strings.Index* call (>= -1).
func isSearchResult(v ssa.Value) bool {
	if _, _, ok := cutIndexValue(v); ok {
		return true
	}
	cl := asCall(v)
	if cl == nil {
		return false
	}
	switch callName(&cl.Call) {
	case "strings.Index", "strings.IndexByte", "strings.IndexRune", "strings.IndexAny", "strings.LastIndex", "strings.LastIndexByte", "bytes.Index", "bytes.IndexByte":
		return true
	}
	return false
}

// concatParts flattens a string concatenation a + b + c.
func concatParts(v ssa.Value) []ssa.Value {
	v = strip(v)
	if b, ok := v.(*ssa.BinOp); ok && b.Op == token.ADD {
		if bt, isB := b.Type().Underlying().(*types.Basic); isB && bt.Info()&types.IsString != 0 {
			return append(concatParts(b.X), concatParts(b.Y)...)
		}
	}
	return []ssa.Value{v}
}

// vConcat matches a string concatenation whose flattened parts match ms in order.
func vConcat(ms ...VM) VM {
	return func(v ssa.Value) bool {
		ps := concatParts(v)
		if len(ps) != len(ms) {
			return false
		}
		for i := range ps {
			if !ms[i](ps[i]) {
				return false
			}
		}
		return true
	}
}

// vTrimLeftSlash matches the string p with its leading slashes removed:
// strings.TrimLeft(p, "/"), or the loop  for len(x) > 0 && x[0] == '/' { x = x[1:] }
// observed at the loop exit (x = φ(p, x[1:])).
func vTrimLeftSlash(p VM) VM {
	return func(v ssa.Value) bool {
		if vCall("strings.TrimLeft", p, vConstStr("/"))(v) {
			return true
		}
		ph, ok := strip(v).(*ssa.Phi)
		if !ok || len(ph.Edges) != 2 {
			return false
		}
		init, step := false, false
		for _, e := range ph.Edges {
			if p(e) {
				init = true
				continue
			}
			s := subOf(e)
			if s.base == ssa.Value(ph) && s.hi == nil && s.lo.k == 1 && len(s.lo.t) == 0 {
				step = true
			}
		}
		if !init || !step {
			return false
		}
		// the step is taken only when x[0] == '/' (and len(x) > 0), and the loop is left otherwise:
		// every use of the φ outside the loop header sees a string without a leading slash.
		fn := ph.Parent()
		first := func(x ssa.Value) bool {
			return isFirstByteOf(x, ph)
		}
		isSlash := edgesWhere(fn, cCmp(token.EQL, first, vConstInt('/')), true)
		if len(isSlash) == 0 {
			return false
		}
		// the x[1:] step is reachable only through the == '/' edge
		for _, e := range ph.Edges {
			if si, ok := strip(e).(ssa.Instruction); ok && !p(e) {
				if ok2, _ := guardedBy(fn, isSlash, isInstr(si)); !ok2 {
					return false
				}
			}
		}
		return true
	}
}

// isFirstByteOf: x is s[0] for the string value s.
func isFirstByteOf(x ssa.Value, s ssa.Value) bool {
	switch u := strip(x).(type) {
	case *ssa.Index:
		return strip(u.X) == strip(s) && vConstInt(0)(u.Index)
	case *ssa.Lookup:
		return strip(u.X) == strip(s) && vConstInt(0)(u.Index)
	}
	return false
}

// linForm returns a predicate: the form is k + Σ pos − Σ neg (coefficients ±1).
func linForm(k int64, pos []VM, neg []VM) func(lin) bool {
	return func(l lin) bool {
		if l.k != k || len(l.t) != len(pos)+len(neg) {
			return false
		}
		used := map[ssa.Value]bool{}
		match := func(ms []VM, coef int64) bool {
			for _, m := range ms {
				found := false
				for v, c := range l.t {
					if c == coef && !used[v] && m(v) {
						used[v], found = true, true
						break
					}
				}
				if !found {
					return false
				}
			}
			return true
		}
		return match(pos, 1) && match(neg, -1)
	}
}

// cLinLess recognises an integer comparison equivalent to D < 0 for a D accepted by
// pred, in any spelling: a < b, b > a, a <= b-1, !(a >= b), a+1 <= b, …
func cLinLess(pred func(lin) bool) CondM {
	return func(v ssa.Value) (bool, bool) {
		inner, pos := unNot(v)
		b, ok := inner.(*ssa.BinOp)
		if !ok || !isIntT(b.X.Type()) {
			return false, false
		}
		d := linOf(b.X).plus(linOf(b.Y), -1)
		switch b.Op {
		case token.LSS:
		case token.GEQ:
			pos = !pos
		case token.LEQ:
			d.k--
		case token.GTR:
			d.k--
			pos = !pos
		default:
			return false, false
		}
		if pred(d) {
			return true, pos
		}
		// D < 0  ⇔  ¬(−D−1 < 0)
		neg := lin{t: map[ssa.Value]int64{}, k: -d.k - 1}
		for x, c := range d.t {
			neg.t[x] = -c
		}
		if pred(neg) {
			return true, !pos
		}
		return false, false
	}
}

type atomKey struct {
	op string
	x  ssa.Value
}

var atomReg sync.Map // atomKey -> ssa.Value

// canonAtom gives len(x) / cap(x) of the same (stripped) x one representative: go/ssa
// has no common-subexpression elimination and the operands are immutable (strings) or
// the rules using this only compare lengths of strings.
func canonAtom(v ssa.Value) ssa.Value {
	cl := asCall(v)
	if cl == nil || len(cl.Call.Args) != 1 {
		return v
	}
	n := callName(&cl.Call)
	if n != "builtin.len" {
		return v
	}
	if b, ok := cl.Call.Args[0].Type().Underlying().(*types.Basic); !ok || b.Info()&types.IsString == 0 {
		return v
	}
	k := atomKey{n, strip(cl.Call.Args[0])}
	r, _ := atomReg.LoadOrStore(k, v)
	return r.(ssa.Value)
}

// cEmptyStr recognises "s is the empty string": s == "", len(s) == 0, len(s) < 1, !(len(s) > 0), …
func cEmptyStr(sv VM) CondM {
	a := cCmp(token.EQL, sv, vConstStr(""))
	b := cCmp(token.EQL, vLen(sv), vConstInt(0))
	return func(v ssa.Value) (bool, bool) {
		if ok, pos := a(v); ok {
			return ok, pos
		}
		return b(v)
	}
}

// cHasPrefix recognises "s starts with pre": strings.HasPrefix(s, pre) or s[:len(pre)] == pre.
func cHasPrefix(sv, pre VM) CondM {
	call := cBool(vCall("strings.HasPrefix", sv, pre))
	head := func(v ssa.Value) bool {
		sub := subOf(v)
		if !sv(sub.base) || sub.hi == nil || sub.lo.k != 0 || len(sub.lo.t) != 0 {
			return false
		}
		return linSum(0, vLen(pre))(*sub.hi)
	}
	eq := cCmp(token.EQL, head, pre)
	return func(v ssa.Value) (bool, bool) {
		if ok, pos := call(v); ok {
			return ok, pos
		}
		return eq(v)
	}
}
