package main

// Normalisation of the loaded tree to the canonical shape the rules were
// written against (see canon.go). It is a source-to-source step applied in
// memory (packages.Config.Overlay), followed by a reload, so every rule —
// including the compiler-oracle ones — sees one consistent program:
//
//  1. private identifiers that were renamed are renamed back: a struct field,
//     a private function or method, an unexported interface method (together
//     with its implementations) whose canonical name is missing and for which
//     exactly one unknown declaration of the same type exists in the same
//     place;
//  2. a method that became a function taking the receiver as first parameter
//     (or a function that was renamed) is aliased to the canonical method;
//  3. calls to private helpers that are unknown to the canonical table
//     (typically extracted from a canonical function) are inlined (inline.go).
//
// Every step is recorded in Prog.NormNotes and printed with the result; if a
// step cannot be applied exactly it is not applied at all and the rules see
// the tree as it is (and may report an unresolved anchor, as before). The
// normalised program is type-checked again: if that fails the normalisation
// is dropped altogether.

import (
	"fmt"
	"go/ast"
	"go/token"
	"go/types"
	"os"
	"path/filepath"
	"sort"
	"strings"

	"golang.org/x/tools/go/packages"
)

type textEdit struct {
	start, end int // byte offsets
	text       string
}

type editSet map[string][]textEdit // by absolute file name

func (es editSet) add(fset *token.FileSet, pos, end token.Pos, text string) {
	p := fset.Position(pos)
	e := fset.Position(end)
	es[p.Filename] = append(es[p.Filename], textEdit{p.Offset, e.Offset, text})
}

// applyEdits returns the new overlay; ok=false when two edits overlap.
func applyEdits(es editSet, overlay map[string][]byte) (map[string][]byte, bool) {
	out := map[string][]byte{}
	for k, v := range overlay {
		out[k] = v
	}
	for file, eds := range es {
		src, ok := out[file]
		if !ok {
			b, err := os.ReadFile(file)
			if err != nil {
				return nil, false
			}
			src = b
		}
		sort.Slice(eds, func(i, j int) bool {
			if eds[i].start != eds[j].start {
				return eds[i].start < eds[j].start
			}
			return eds[i].end < eds[j].end
		})
		var b strings.Builder
		at := 0
		for i, e := range eds {
			if i > 0 && e.start == eds[i-1].start && e.end == eds[i-1].end && e.text == eds[i-1].text {
				continue
			}
			if e.start < at || e.end > len(src) {
				return nil, false
			}
			b.Write(src[at:e.start])
			b.WriteString(e.text)
			at = e.end
		}
		b.Write(src[at:])
		out[file] = []byte(b.String())
	}
	return out, true
}

type normState struct {
	pkgs     map[string]*packages.Package
	fset     *token.FileSet
	notes    []string
	overlay  map[string][]byte
	check    *checkSpec
	keepUsed map[types.Object]bool
	checkIfText string
	typeArgs map[types.Object]string // type parameters of the generic callee being inlined → source text of the type arguments
}

func canonFuncSet() map[string]canonFunc {
	m := map[string]canonFunc{}
	for _, f := range canonFuncs {
		m[f.Pkg+"|"+f.Recv+"|"+f.Name] = f
	}
	return m
}

// ---------------------------------------------------------------- renames

// planRenames returns identifier edits that rename private declarations back to
// their canonical names.
func (ns *normState) planRenames() editSet {
	es := editSet{}
	renameObj := map[types.Object]string{}
	// iface method renames: old name -> new name per package, applied to every method
	// of that name with that signature declared in the package.
	type mren struct{ pkg, old, new, sig string }
	var mrens []mren

	for _, short := range []string{"flamego", "inject", "route"} {
		pk := ns.pkgs[short]
		if pk == nil {
			continue
		}
		sc := pk.Types.Scope()
		// --- struct fields
		byStruct := map[string][]canonField{}
		for _, f := range canonFields {
			if f.Pkg == short {
				byStruct[f.Struct] = append(byStruct[f.Struct], f)
			}
		}
		for sname, cfs := range byStruct {
			tn, ok := sc.Lookup(sname).(*types.TypeName)
			if !ok {
				continue
			}
			st, ok := tn.Type().Underlying().(*types.Struct)
			if !ok {
				continue
			}
			canonNames := map[string]bool{}
			for _, cf := range cfs {
				canonNames[cf.Name] = true
			}
			actual := map[string]*types.Var{}
			var extras []*types.Var
			for i := 0; i < st.NumFields(); i++ {
				f := st.Field(i)
				actual[f.Name()] = f
				if !canonNames[f.Name()] && !f.Exported() && !f.Embedded() {
					extras = append(extras, f)
				}
			}
			var missing []canonField
			for _, cf := range cfs {
				if actual[cf.Name] == nil && !ast.IsExported(cf.Name) {
					missing = append(missing, cf)
				} else if actual[cf.Name] == nil && strings.HasSuffix(cf.Type, "."+cf.Name) {
					// an embedded field (named after its type) turned into a private named field with explicit
					// forwarding methods: the same slot under another name
					missing = append(missing, cf)
				}
			}
			for _, m := range missing {
				var cands []*types.Var
				for _, x := range extras {
					if typeStr(x.Type()) == m.Type {
						cands = append(cands, x)
					}
				}
				nSame := 0
				for _, m2 := range missing {
					if m2.Type == m.Type {
						nSame++
					}
				}
				if len(cands) == 1 && nSame == 1 {
					renameObj[cands[0]] = m.Name
					ns.notes = append(ns.notes, fmt.Sprintf("field %s.%s.%s is treated as %s (only unknown field of type %s)", short, sname, cands[0].Name(), m.Name, m.Type))
				} else if len(cands) == nSame && nSame > 1 {
					// several renamed fields of one type: pair them in declaration order
					var ms []canonField
					for _, m2 := range missing {
						if m2.Type == m.Type {
							ms = append(ms, m2)
						}
					}
					for i, m2 := range ms {
						if m2.Name == m.Name {
							renameObj[cands[i]] = m.Name
							ns.notes = append(ns.notes, fmt.Sprintf("field %s.%s.%s is treated as %s (declaration order among %d unknown fields of type %s)", short, sname, cands[i].Name(), m.Name, nSame, m.Type))
						}
					}
				}
			}
		}
		// --- interface methods
		byIface := map[string][]canonIMeth{}
		for _, m := range canonIMeths {
			if m.Pkg == short {
				byIface[m.Iface] = append(byIface[m.Iface], m)
			}
		}
		for iname, cms := range byIface {
			tn, ok := sc.Lookup(iname).(*types.TypeName)
			if !ok {
				continue
			}
			it, ok := tn.Type().Underlying().(*types.Interface)
			if !ok {
				continue
			}
			canonNames := map[string]bool{}
			for _, cm := range cms {
				canonNames[cm.Name] = true
			}
			actual := map[string]*types.Func{}
			var extras []*types.Func
			for i := 0; i < it.NumExplicitMethods(); i++ {
				m := it.ExplicitMethod(i)
				actual[m.Name()] = m
				if !canonNames[m.Name()] && !m.Exported() {
					extras = append(extras, m)
				}
			}
			for _, cm := range cms {
				if actual[cm.Name] != nil || ast.IsExported(cm.Name) {
					continue
				}
				var cands []*types.Func
				for _, x := range extras {
					if sigStr(x.Type().(*types.Signature)) == cm.Sig {
						cands = append(cands, x)
					}
				}
				nSame := 0
				for _, cm2 := range cms {
					if actual[cm2.Name] == nil && cm2.Sig == cm.Sig {
						nSame++
					}
				}
				if len(cands) == 1 && nSame == 1 {
					mrens = append(mrens, mren{short, cands[0].Name(), cm.Name, cm.Sig})
					ns.notes = append(ns.notes, fmt.Sprintf("interface method %s.%s.%s is treated as %s (only unknown method with signature %s)", short, iname, cands[0].Name(), cm.Name, cm.Sig))
				} else if len(cands) == nSame && nSame > 1 {
					// several renamed methods of one signature: paired in source order
					sort.Slice(cands, func(i, j int) bool { return cands[i].Pos() < cands[j].Pos() })
					k := 0
					for _, cm2 := range cms {
						if actual[cm2.Name] != nil || cm2.Sig != cm.Sig {
							continue
						}
						if cm2.Name == cm.Name {
							mrens = append(mrens, mren{short, cands[k].Name(), cm.Name, cm.Sig})
							ns.notes = append(ns.notes, fmt.Sprintf("interface method %s.%s.%s is treated as %s (source order among %d unknown methods with signature %s)", short, iname, cands[k].Name(), cm.Name, nSame, cm.Sig))
						}
						k++
					}
				}
			}
		}
		// --- functions and concrete methods
		cset := canonFuncSet()
		decl := declaredFuncs(pk)
		known := map[string]*types.Func{}
		var extras []*types.Func
		for _, f := range decl {
			sig := f.Type().(*types.Signature)
			key := short + "|" + recvStr(sig) + "|" + f.Name()
			if _, ok := cset[key]; ok {
				known[key] = f
			} else if !f.Exported() {
				extras = append(extras, f)
			}
		}
		// a private canonical function that was exported under its own name (defaultX → DefaultX)
		for _, f := range decl {
			if !f.Exported() {
				continue
			}
			sig := f.Type().(*types.Signature)
			if _, ok := cset[short+"|"+recvStr(sig)+"|"+f.Name()]; ok {
				continue
			}
			low := strings.ToLower(f.Name()[:1]) + f.Name()[1:]
			k2 := short + "|" + recvStr(sig) + "|" + low
			if _, isCanon := cset[k2]; isCanon && known[k2] == nil && pk.Types.Scope().Lookup(low) == nil {
				extras = append(extras, f)
			}
		}
		isIfaceRename := func(name, sig string) bool {
			for _, r := range mrens {
				if r.pkg == short && r.old == name && r.sig == sig {
					return true
				}
			}
			return false
		}
		for key, cf := range cset {
			if cf.Pkg != short || known[key] != nil || ast.IsExported(cf.Name) {
				continue
			}
			// same receiver, same signature
			var cands []*types.Func
			for _, x := range extras {
				sig := x.Type().(*types.Signature)
				if recvStr(sig) == cf.Recv && sigStr(sig) == cf.Sig && !isIfaceRename(x.Name(), cf.Sig) {
					cands = append(cands, x)
				}
			}
			nSame := 0
			for k2, cf2 := range cset {
				if cf2.Pkg == short && known[k2] == nil && cf2.Recv == cf.Recv && cf2.Sig == cf.Sig {
					nSame++
				}
			}
			if len(cands) == 1 && nSame == 1 {
				// an implementation of a renamed interface method is handled with the interface
				renameObj[cands[0]] = cf.Name
				ns.notes = append(ns.notes, fmt.Sprintf("%s.%s%s is treated as %s (only unknown declaration with receiver %q and signature %s)", short, recvPrefix(cf.Recv), cands[0].Name(), cf.Name, cf.Recv, cf.Sig))
			}
		}
	}

	// --- private named types: a canonical receiver type that is missing while exactly one unknown private
	// type of the package has its methods (names and signatures) and no others is that type under a new name
	for _, short := range []string{"flamego", "inject", "route"} {
		pk := ns.pkgs[short]
		if pk == nil {
			continue
		}
		sc := pk.Types.Scope()
		canonRecv := map[string]map[string]string{} // type name → method name → signature
		for _, cf := range canonFuncs {
			if cf.Pkg != short || cf.Recv == "" {
				continue
			}
			r := strings.TrimPrefix(cf.Recv, "*")
			if canonRecv[r] == nil {
				canonRecv[r] = map[string]string{}
			}
			canonRecv[r][cf.Name] = cf.Sig
		}
		known := map[string]bool{}
		for r := range canonRecv {
			known[r] = true
		}
		for _, cf := range canonFields {
			if cf.Pkg == short {
				known[cf.Struct] = true
			}
		}
		for missing, meths := range canonRecv {
			if sc.Lookup(missing) != nil || ast.IsExported(missing) {
				continue
			}
			var cands []*types.TypeName
			for _, n := range sc.Names() {
				tn, ok := sc.Lookup(n).(*types.TypeName)
				if !ok || tn.Exported() || known[n] || tn.IsAlias() {
					continue
				}
				nt, ok := tn.Type().(*types.Named)
				if !ok {
					continue
				}
				if _, isIface := nt.Underlying().(*types.Interface); isIface {
					continue
				}
				if nt.NumMethods() != len(meths) {
					continue
				}
				same := true
				for i := 0; i < nt.NumMethods(); i++ {
					m := nt.Method(i)
					if sg, has := meths[m.Name()]; !has || sigStr(m.Type().(*types.Signature)) != sg {
						same = false
					}
				}
				if same {
					cands = append(cands, tn)
				}
			}
			if len(cands) == 1 {
				renameObj[cands[0]] = missing
				ns.notes = append(ns.notes, fmt.Sprintf("the private type %s.%s is treated as %s (only unknown type with exactly its methods)", short, cands[0].Name(), missing))
			}
		}
	}

	// collect identifier edits
	for short, pk := range ns.pkgs {
		_ = short
		for id, obj := range pk.TypesInfo.Defs {
			if nn, ok := renameObj[obj]; ok && obj != nil {
				es.add(ns.fset, id.Pos(), id.End(), nn)
			}
		}
		for id, obj := range pk.TypesInfo.Uses {
			if nn, ok := renameObj[obj]; ok {
				es.add(ns.fset, id.Pos(), id.End(), nn)
			}
		}
	}
	for _, r := range mrens {
		for _, pk := range ns.pkgs {
			match := func(obj types.Object) bool {
				f, ok := obj.(*types.Func)
				if !ok || f.Name() != r.old || f.Pkg() == nil || pkgShort[f.Pkg().Path()] != r.pkg {
					return false
				}
				sig := f.Type().(*types.Signature)
				return sig.Recv() != nil && sigStr(sig) == r.sig
			}
			for id, obj := range pk.TypesInfo.Defs {
				if obj != nil && match(obj) {
					es.add(ns.fset, id.Pos(), id.End(), r.new)
				}
			}
			for id, obj := range pk.TypesInfo.Uses {
				if match(obj) {
					es.add(ns.fset, id.Pos(), id.End(), r.new)
				}
			}
		}
	}
	return es
}

func recvPrefix(recv string) string {
	if recv == "" {
		return ""
	}
	return "(" + recv + ")."
}

// methodToFuncAliases finds canonical methods that are missing while exactly one
// unknown function takes the receiver as its first parameter and has the rest of
// the signature; the function is aliased to the canonical method name (SSA call
// sites and parameter positions coincide).
func methodToFuncAliases(pkgs map[string]*packages.Package) map[string]string {
	out := map[string]string{} // "pkg.funcname" -> "pkg|recv|name"
	cset := canonFuncSet()
	for _, short := range []string{"flamego", "inject", "route"} {
		pk := pkgs[short]
		if pk == nil {
			continue
		}
		known := map[string]bool{}
		var extras []*types.Func
		for _, f := range declaredFuncs(pk) {
			sig := f.Type().(*types.Signature)
			key := short + "|" + recvStr(sig) + "|" + f.Name()
			if _, ok := cset[key]; ok {
				known[key] = true
			} else if !f.Exported() && sig.Recv() == nil {
				extras = append(extras, f)
			}
		}
		for key, cf := range cset {
			if cf.Pkg != short || known[key] || cf.Recv == "" || ast.IsExported(cf.Name) {
				continue
			}
			recvT := cf.Recv
			if strings.HasPrefix(recvT, "*") {
				recvT = "*" + short + "." + recvT[1:]
			} else {
				recvT = short + "." + recvT
			}
			want := "(" + recvT
			if rest := strings.TrimPrefix(cf.Sig, "("); !strings.HasPrefix(rest, ")") {
				want += ", " + rest
			} else {
				want += rest
			}
			var cands []*types.Func
			for _, x := range extras {
				if sigStr(x.Type().(*types.Signature)) == want {
					cands = append(cands, x)
				}
			}
			if len(cands) == 1 {
				out[short+"."+cands[0].Name()] = key
				continue
			}
			// the helper kept its name but changed shape (another first parameter, a parameter
			// dropped): it is still that helper — it is aliased by name and not inlined; rules that
			// depend on its parameter positions may report an undecided shape
			for _, x := range extras {
				if x.Name() == cf.Name {
					nSameName := 0
					for _, y := range extras {
						if y.Name() == cf.Name {
							nSameName++
						}
					}
					if nSameName == 1 {
						out[short+"."+x.Name()] = key
					}
				}
			}
		}
	}
	return out
}

// loadTyped loads typed syntax of the module.
func loadTyped(repo string, extraEnv []string, overlay map[string][]byte, mode packages.LoadMode) ([]*packages.Package, error) {
	cfg := &packages.Config{Mode: mode, Dir: repo, Env: goEnv(extraEnv...), Tests: false, Overlay: overlay}
	pkgs, err := packages.Load(cfg, "./...")
	if err != nil {
		return nil, fmt.Errorf("packages.Load: %v", err)
	}
	return pkgs, nil
}

func modulePkgs(pkgs []*packages.Package) (map[string]*packages.Package, *token.FileSet, bool) {
	m := map[string]*packages.Package{}
	var fset *token.FileSet
	clean := true
	for _, pk := range pkgs {
		if s, ok := pkgShort[pk.PkgPath]; ok {
			m[s] = pk
			fset = pk.Fset
			if len(pk.Errors) > 0 || pk.TypesInfo == nil {
				clean = false
			}
		}
	}
	return m, fset, clean && len(m) == 3
}

// normalizeTree runs the normalisation rounds. It returns the overlay to analyse,
// the packages loaded from it (typed syntax; nil when the caller has to load), the
// notes, and the set of helper functions that were inlined.
func normalizeTree(repo string, extraEnv []string, overlay map[string][]byte) (map[string][]byte, []*packages.Package, []string, map[string]bool) {
	cur := overlay
	var notes []string
	inlined := map[string]bool{}
	var pendingNotes []string
	var good []*packages.Package // packages of the last overlay that type-checked
	goodOv := overlay
	capturesDone := false
	for round := 0; round < 12; round++ {
		pkgs, err := loadTyped(repo, extraEnv, cur, packages.LoadSyntax)
		if err != nil {
			return goodOv, good, notes, inlined
		}
		mp, fset, ok := modulePkgs(pkgs)
		if !ok {
			if round == 0 {
				return overlay, pkgs, nil, nil // the caller reports the type errors
			}
			if d := os.Getenv("FLAMECHECK_DUMP_FAILED"); d != "" {
				for f, b := range cur {
					_ = os.WriteFile(filepath.Join(d, strings.ReplaceAll(strings.TrimPrefix(f, "/"), "/", "_")), b, 0o644)
				}
			}
			var msgs []string
			for _, pk := range pkgs {
				for _, e := range pk.Errors {
					if strings.Contains(e.Error(), ": # ") {
						continue
					}
					msgs = append(msgs, e.Error())
				}
			}
			if len(msgs) > 3 {
				msgs = msgs[:3]
			}
			return goodOv, good, append(notes, "a normalisation step was dropped (its result does not type-check): "+strings.Join(msgs, "; ")), inlined
		}
		good, goodOv = pkgs, cur
		notes = append(notes, pendingNotes...)
		pendingNotes = nil
		ns := &normState{pkgs: mp, fset: fset, overlay: cur, keepUsed: map[types.Object]bool{}}
		es := ns.planRenames()
		if len(es) == 0 {
			es = ns.planFlatten()
		}
		if len(es) == 0 {
			es = ns.planSplitRecords()
		}
		if len(es) == 0 {
			es = ns.planFolds()
		}
		if len(es) == 0 {
			var inl map[string]bool
			es, inl = ns.planInlines()
			for k := range inl {
				inlined[k] = true
			}
		}
		if len(es) == 0 {
			es = ns.planUnrolls()
		}
		if len(es) == 0 && !capturesDone {
			capturesDone = true
			es = ns.planCaptures()
		}
		if len(es) == 0 {
			if d := os.Getenv("FLAMECHECK_DUMP_NORMALISED"); d != "" {
				for f, b := range cur {
					_ = os.WriteFile(filepath.Join(d, strings.ReplaceAll(strings.TrimPrefix(f, "/"), "/", "_")), b, 0o644)
				}
			}
			return cur, pkgs, notes, inlined
		}
		next, ok := applyEdits(es, cur)
		if !ok {
			return cur, pkgs, append(notes, "normalisation stopped: overlapping edits"), inlined
		}
		pendingNotes = ns.notes
		cur = next
	}
	return goodOv, good, notes, inlined
}
