package main

// C13 ResponseWriter: one status first, truthful Status/Size/Written, hooks once.
//
// The rules discharge the premises of the paper induction in DESIGN.md §3 C13:
// a state (once, status) that only one guarded region can advance.

import (
	"go/token"
	"go/types"

	"golang.org/x/tools/go/ssa"
)

func init() { register("C13", checkC13) }

const rwT = "(*flamego.responseWriter)"

// embeddedWriterUse reports whether v is (a type assertion of) a read of the
// embedded http.ResponseWriter field of a responseWriter.
func embeddedWriterRead(v ssa.Value) bool {
	v = strip(v)
	if e, ok := v.(*ssa.Extract); ok {
		v = strip(e.Tuple)
	}
	if ta, ok := v.(*ssa.TypeAssert); ok {
		v = strip(ta.X)
	}
	r, ns, ok := fieldPath(v)
	if !ok || len(ns) != 1 || ns[0] != "ResponseWriter" {
		return false
	}
	return namedName(derefT(r.Type())) == "responseWriter"
}

func checkC13(c *Check) {
	p := c.P
	c.Explain = "who-may-call, ordering (dominance via cut-reachability) and value-provenance rules over the responseWriter methods in go/ssa form; they are the per-method premises of the state-machine induction in DESIGN.md (C13)"
	c.NotDec = []string{
		"behaviour when a before-hook re-enters the writer (sync.Once re-entrancy)",
		"invalid status codes rejected by net/http",
		"concurrent use of one writer within a request",
		"that the underlying http.ResponseWriter honours its own contract",
	}
	c.Trusted = []string{"sync.Once.Do runs its argument at most once", "sync/atomic"}

	rw := p.Named("flamego", "responseWriter")
	mWH := p.Meth("flamego", "responseWriter", "WriteHeader")
	mW := p.Meth("flamego", "responseWriter", "Write")
	mF := p.Meth("flamego", "responseWriter", "Flush")
	if rw == nil || mWH == nil || mW == nil || mF == nil {
		c.Rule("R1", "E5", "anchors", 1)
		c.Anchor("flamego.responseWriter with WriteHeader/Write/Flush")
		return
	}
	fStatus := p.Field("flamego", "responseWriter", "status")
	fSize := p.Field("flamego", "responseWriter", "size")
	fHooks := p.Field("flamego", "responseWriter", "beforeFuncs")

	// The status-line region: the literal passed to Once.Do inside WriteHeader
	// (or WriteHeader itself when no Once is used).
	var region *ssa.Function
	for _, ci := range callsNamed(mWH, "(*sync.Once).Do") {
		if mc, ok := strip(ci.Common().Args[1]).(*ssa.MakeClosure); ok {
			region = mc.Fn.(*ssa.Function)
		}
	}
	onceIdiom := region != nil
	if region == nil {
		region = mWH
	}

	// ---- R1 who may reach the underlying writer
	c.Rule("R1", "E5 who-may-call", "the embedded http.ResponseWriter's WriteHeader is called only in the once-guarded status region, Write only in Write, Flush only in Flush; the embedded writer value does not escape", 3)
	var under = map[string][]ssa.CallInstruction{}
	for _, fn := range p.Funcs() {
		allInstrs(fn, func(in ssa.Instruction) {
			// escape of the embedded writer value
			if u, ok := in.(*ssa.UnOp); ok && u.Op == token.MUL {
				if r, ns, ok := fieldPath(u); ok && len(ns) == 1 && ns[0] == "ResponseWriter" && namedName(derefT(r.Type())) == "responseWriter" {
					if _, isFA := u.X.(*ssa.FieldAddr); isFA {
						for _, ref := range referrers(u) {
							switch y := ref.(type) {
							case ssa.CallInstruction:
								if y.Common().IsInvoke() && y.Common().Value == ssa.Value(u) {
									continue
								}
								c.Bad(p.FuncKey(fn)+":embedded-writer-escapes", p.Pos(ref.Pos()), "the embedded http.ResponseWriter is passed to "+callName(y.Common())+"; writes through it bypass the status/size bookkeeping")
							case *ssa.TypeAssert, *ssa.BinOp, *ssa.DebugRef:
							case *ssa.MakeInterface, *ssa.ChangeInterface:
								if fw := forwardsOf(y.(ssa.Value)); len(fw) > 0 {
									// io.WriteString(w.ResponseWriter, s): a body write on the underlying writer (it calls the
									// writer's WriteString or Write and nothing else); held to every obligation of Write below
									for _, ci := range fw {
										under["Write"] = append(under["Write"], ci)
										c.Cond(isBodyWriter(fn), p.FuncKey(fn)+":underlying.Write", p.Pos(ci.Pos()), "underlying body write (io.WriteString) only in a body-writing method of responseWriter", "underlying Write is called outside responseWriter.Write (implicit status / HEAD suppression / size bypassed)")
									}
									continue
								}
								c.Bad(p.FuncKey(fn)+":embedded-writer-escapes", p.Pos(ref.Pos()), "the embedded http.ResponseWriter value is converted and may escape")
							case *ssa.Return, *ssa.Store:
								if _, isRet := y.(*ssa.Return); isRet && isStdUnwrap(fn) {
									// the one named exception: net/http's rwUnwrapper convention, `Unwrap() http.ResponseWriter`.
									// http.ResponseController consults it only for what the wrapper does not implement itself
									// (deadlines, full duplex); a handler calling it leaves the wrapper on purpose, and what it
									// then does to the raw writer is not an operation on this response writer.
									c.OK(p.FuncKey(fn)+":unwrap-convention", p.Pos(ref.Pos()), "Unwrap() returns the underlying writer and does nothing else (net/http's ResponseController convention)", numInstrs(fn))
									continue
								}
								c.Bad(p.FuncKey(fn)+":embedded-writer-escapes", p.Pos(ref.Pos()), "the embedded http.ResponseWriter value escapes")
							}
						}
					}
				}
			}
			ci, ok := in.(ssa.CallInstruction)
			if !ok || !ci.Common().IsInvoke() || !embeddedWriterRead(ci.Common().Value) {
				return
			}
			name := ci.Common().Method.Name()
			under[name] = append(under[name], ci)
			key := p.FuncKey(fn) + ":underlying." + name
			switch name {
			case "WriteHeader":
				c.Cond(fn == region, key, p.Pos(in.Pos()), "underlying WriteHeader is inside the status region "+p.FuncKey(region), "underlying WriteHeader is called outside the once-guarded status region: a second status line can reach the client")
			case "Write":
				c.Cond(fn == mW || isBodyWriter(fn), key, p.Pos(in.Pos()), "underlying Write only in responseWriter.Write (or a sibling body-writing method held to the same obligations)", "underlying Write is called outside responseWriter.Write (implicit status / HEAD suppression / size bypassed)")
			case "FlushError":
				// the error-returning flush of net/http's ResponseController: as Flush, only behind a sent status
				under["Flush"] = append(under["Flush"], ci)
				if committedBefore(fn, ci) {
					c.OK(key, p.Pos(in.Pos()), "underlying FlushError in "+p.FuncKey(fn)+" is reachable only after a status line was sent (Written(), or the implicit WriteHeader(200) through the wrapper)", 1)
				} else {
					c.Bad(key, p.Pos(in.Pos()), "underlying FlushError is called before the status is committed (implicit status bypassed)")
				}
			case "Flush":
				if fn == mF {
					c.OK(key, p.Pos(in.Pos()), "underlying Flush only in responseWriter.Flush", 1)
				} else if committedBefore(fn, ci) {
					// e.g. an opt-in flush right after the forwarded Write: the status line is out by then
					c.OK(key, p.Pos(in.Pos()), "underlying Flush in "+p.FuncKey(fn)+" is reachable only after a status line was sent (Written(), or the implicit WriteHeader(200) through the wrapper)", 1)
				} else {
					c.Bad(key, p.Pos(in.Pos()), "underlying Flush is called outside responseWriter.Flush (implicit status bypassed)")
				}
			case "ReadFrom":
				// io.ReaderFrom of the underlying writer: a body write (it may also send the writer's own implicit
				// 200); held to every obligation of Write below
				under["Write"] = append(under["Write"], ci)
				c.Cond(isBodyWriter(fn), key, p.Pos(in.Pos()), "underlying ReadFrom only in a body-writing method of responseWriter", "underlying ReadFrom is called outside a body-writing method of responseWriter (implicit status / HEAD suppression / size bypassed)")
			case "Header", "Hijack", "Push":
				c.OK(key, p.Pos(in.Pos()), "pass-through method with no status/body effect", 1)
			default:
				c.Bad(key, p.Pos(in.Pos()), "unexpected method "+name+" on the embedded writer")
			}
		})
	}
	for _, n := range []string{"WriteHeader", "Write", "Flush"} {
		if len(under[n]) == 0 {
			c.Anchor("a call of the embedded writer's " + n)
		}
	}

	// ---- R2 WriteHeader transition
	c.Rule("R2", "E2 order + E3 provenance", "in the status region: hooks run before the underlying WriteHeader; its argument is the method's own parameter; the status is recorded (atomically, same value) after it and never before it", 3)
	sParam := vParam(mWH, 1)
	isStatusStore := func(in ssa.Instruction) bool {
		switch x := in.(type) {
		case ssa.CallInstruction:
			n := callName(x.Common())
			if isAtomicStore(n) || n == "sync/atomic.SwapInt32" || n == "sync/atomic.CompareAndSwapInt32" || n == "sync/atomic.AddInt32" || n == "(*sync/atomic.Int32).Swap" || n == "(*sync/atomic.Int32).CompareAndSwap" || n == "(*sync/atomic.Int32).Add" {
				return fieldOf(strip(x.Common().Args[0])) == fStatus
			}
		case *ssa.Store:
			return fieldOf(strip(x.Addr)) == fStatus
		}
		return false
	}
	isHookCall := func(in ssa.Instruction) bool {
		ci, ok := in.(ssa.CallInstruction)
		return ok && callName(ci.Common()) == rwT+".callBefore"
	}
	if us := under["WriteHeader"]; len(us) > 0 {
		for _, u := range us {
			if u.Parent() != region {
				continue
			}
			key := p.FuncKey(region) + ":status-line"
			pos := p.Pos(u.Pos())
			if !onceIdiom {
				// alternative idiom: explicit !Written() guard
				g := edgesWhere(region, cBool(vCall(rwT+".Written")), false)
				ok, path := guardedBy(region, g, isInstr(u))
				if ok {
					c.OK(key+":guard", pos, "no sync.Once; underlying WriteHeader guarded by !Written()", numInstrs(region))
				} else {
					c.Bad(key+":guard", pos, "underlying WriteHeader is neither inside sync.Once.Do nor guarded by !Written()", path)
				}
			}
			ok, path := mustPrecede(region, isHookCall, u)
			if ok {
				c.OK(key+":hooks-first", pos, "callBefore() executes on every path before the underlying WriteHeader", numInstrs(region))
			} else {
				c.Bad(key+":hooks-first", pos, "a path reaches the underlying WriteHeader without running the before-hooks first", path)
			}
			arg := u.Common().Args[0]
			c.Cond(sParam(arg), key+":arg", pos, "status argument is the method's own parameter", "status sent to the client is "+vstr(arg)+", not the caller's status parameter")
			ok, path = mustFollow(region, u, isStatusStore)
			if ok {
				c.OK(key+":recorded", pos, "every path from the underlying WriteHeader to return records the status", numInstrs(region))
			} else {
				c.Bad(key+":recorded", pos, "a path returns after the underlying WriteHeader without recording the status (Written() stays false, a second status line becomes possible)", path)
			}
		}
	}

	// WriteHeader always enters the status region: no flag, status class or mode lets a first status be dropped
	{
		var commit []ssa.Instruction
		if onceIdiom {
			for _, ci := range callsNamed(mWH, "(*sync.Once).Do") {
				commit = append(commit, ci)
			}
		} else {
			for _, u := range under["WriteHeader"] {
				if u.Parent() == mWH {
					commit = append(commit, u)
				}
			}
		}
		already := edgesWhere(mWH, cBool(vCall(rwT+".Written")), true)
		key := p.FuncKey(mWH) + ":always-commits"
		if in, path := (Query{Fn: mWH, Cut: already, Avoid: inSet(commit)}).FromEntry(isReturn); in != nil && len(commit) > 0 {
			c.Bad(key, p.Pos(in.Pos()), "WriteHeader can return without entering the status region although no status was sent yet: the caller's status (e.g. Recovery's 500) is dropped and the client gets an implicit 200", blockPath(path))
		} else if len(commit) > 0 {
			c.OK(key, p.FuncPos(mWH), "every path through WriteHeader enters the status region (or a status was already sent)", numInstrs(mWH))
		}
	}

	// ---- R6 (part) all writers of status
	c.Rule("R6", "E5 effects + E3", "status is written only in the status region, after the underlying WriteHeader, with the same value; every access is atomic; Status/Written/Size report the fields", 6)
	if fStatus == nil || fSize == nil || fHooks == nil {
		c.Anchor("responseWriter fields status/size/beforeFuncs")
		return
	}
	for _, u := range p.FieldUses(fStatus) {
		key := p.FuncKey(u.Fn) + ":status." + u.Kind
		pos := p.Pos(u.Instr.Pos())
		switch u.Kind {
		case "callarg":
			switch {
			case isAtomicLoad(u.Call):
				c.OK(key, pos, "atomic load", 1)
			case isAtomicStore(u.Call):
				ci := u.Instr.(ssa.CallInstruction)
				okPlace := u.Fn == region
				if !okPlace {
					c.Bad(key, pos, "status is stored outside the status region")
					continue
				}
				val := ci.Common().Args[1]
				c.Cond(sParam(val), key+":value", pos, "recorded status is the parameter sent to the client", "recorded status "+vstr(val)+" differs from the status sent")
				// never before the underlying WriteHeader
				var us []ssa.Instruction
				for _, x := range under["WriteHeader"] {
					if x.Parent() == region {
						us = append(us, x)
					}
				}
				ok, path := mustPrecede(region, inSet(us), u.Instr)
				if ok {
					c.OK(key+":after-header", pos, "status is recorded only after the underlying WriteHeader (hooks and clients never see Written() early)", numInstrs(region))
				} else {
					c.Bad(key+":after-header", pos, "status is recorded before the status line reaches the underlying writer: Status()/Written() lie while hooks run", path)
				}
			default:
				c.Bad(key, pos, "status accessed through "+u.Call)
			}
		case "store":
			if u.Fresh {
				c.OK(key, pos, "initialisation of a fresh writer", 1)
			} else {
				c.Bad(key, pos, "non-atomic store to status")
			}
		case "load":
			c.Bad(key, pos, "non-atomic read of status")
		default:
			c.Bad(key, pos, "status used as "+u.Kind)
		}
	}
	// reporters
	if m := p.Meth("flamego", "responseWriter", "Status"); m != nil {
		ok := false
		allInstrs(m, func(in ssa.Instruction) {
			if r, isR := in.(*ssa.Return); isR && len(r.Results) == 1 {
				ok = vAtomicLoad(func(v ssa.Value) bool { return fieldOf(strip(v)) == fStatus })(r.Results[0])
			}
		})
		c.Cond(ok, p.FuncKey(m)+":result", p.FuncPos(m), "Status() = atomic load of status", "Status() does not return the recorded status")
	} else {
		c.Anchor("responseWriter.Status")
	}
	if m := p.Meth("flamego", "responseWriter", "Written"); m != nil {
		ok := false
		allInstrs(m, func(in ssa.Instruction) {
			if r, isR := in.(*ssa.Return); isR && len(r.Results) == 1 {
				st := vOr(vCall(rwT+".Status", vParam(m, 0)), vAtomicLoad(func(v ssa.Value) bool { return fieldOf(strip(v)) == fStatus }))
				m1, pos := cCmp(token.NEQ, st, vConstInt(0))(r.Results[0])
				ok = m1 && pos
			}
		})
		c.Cond(ok, p.FuncKey(m)+":result", p.FuncPos(m), "Written() = Status() != 0", "Written() is not `status != 0`")
	} else {
		c.Anchor("responseWriter.Written")
	}
	if m := p.Meth("flamego", "responseWriter", "Size"); m != nil {
		ok := false
		allInstrs(m, func(in ssa.Instruction) {
			if r, isR := in.(*ssa.Return); isR && len(r.Results) == 1 {
				rv := r.Results[0]
				if cv, isCv := strip(rv).(*ssa.Convert); isCv {
					rv = cv.X
				}
				isSizeAddr := func(v ssa.Value) bool { return fieldOf(strip(v)) == fSize }
				ok = vField(vParam(m, 0), "size")(r.Results[0]) || vOr(vCall("(*sync/atomic.Int64).Load", isSizeAddr), vCall("(*sync/atomic.Int32).Load", isSizeAddr), vCall("sync/atomic.LoadInt64", isSizeAddr))(rv)
			}
		})
		c.Cond(ok, p.FuncKey(m)+":result", p.FuncPos(m), "Size() = size field", "Size() does not return the size field")
	} else {
		c.Anchor("responseWriter.Size")
	}

	// ---- R3 hooks LIFO, once
	c.Rule("R3", "E3 provenance", "hooks are appended in registration order, run by a descending index loop from len-1 to 0, and the runner is called only from the status region", 3)
	if cb := p.Meth("flamego", "responseWriter", "callBefore"); cb != nil {
		checkDescendingHookLoop(c, cb, fHooks)
		// exactly once also when a hook panics and a later operation (Recovery's WriteHeader(500)) tries again
		checkHooksOnce(c)
		n := 0
		for _, fn := range p.Funcs() {
			for _, ci := range callsNamed(fn, rwT+".callBefore") {
				n++
				c.Cond(fn == region, p.FuncKey(fn)+":runs-hooks", p.Pos(ci.Pos()), "hook runner called from the status region only", "before-hooks are run outside the once-guarded status region: they can run more than once or not before the status")
			}
		}
		if n == 0 {
			c.Anchor("a call of callBefore")
		}
	} else {
		// hooks may be inlined in the region
		checkDescendingHookLoop(c, region, fHooks)
	}
	if m := p.Meth("flamego", "responseWriter", "Before"); m != nil {
		okAppend := false
		for _, u := range p.FieldUses(fHooks) {
			if u.Kind != "store" || u.Fresh {
				continue
			}
			st := u.Instr.(*ssa.Store)
			key := p.FuncKey(u.Fn) + ":hooks.store"
			if u.Fn != m {
				// the runner may release the list once every hook has run: a nil store from which no hook
				// invocation is reachable, inside the runner (which the status region calls once)
				runner := p.Meth("flamego", "responseWriter", "callBefore")
				if runner == nil {
					runner = region
				}
				isHookCall := func(in ssa.Instruction) bool {
					ci, ok := in.(ssa.CallInstruction)
					if !ok || ci.Common().IsInvoke() {
						return false
					}
					ld, ok := ci.Common().Value.(*ssa.UnOp)
					if !ok || ld.Op != token.MUL {
						return false
					}
					ia, ok := ld.X.(*ssa.IndexAddr)
					return ok && fieldOf(addrOfLoad(strip(ia.X))) == fHooks
				}
				if u.Fn == runner && vNil(st.Val) {
					after, _ := Query{Fn: runner}.After(st, isHookCall)
					before, _ := Query{Fn: runner}.FromEntry(isHookCall)
					if after == nil && before != nil {
						c.OK(key, p.Pos(st.Pos()), "the runner releases the hook list after the last hook ran (no hook invocation is reachable from the store)", 1)
						continue
					}
					c.Bad(key, p.Pos(st.Pos()), "the hook list is cleared where hooks are still to run: registered hooks are dropped")
					continue
				}
				c.Bad(key, p.Pos(st.Pos()), "hook list is modified outside Before()")
				continue
			}
			app := asCall(st.Val)
			if app != nil && callName(&app.Call) == "builtin.append" && fieldOf(addrOfLoad(app.Call.Args[0])) == fHooks && appendsOnly(app.Call.Args[1], vParam(m, 1)) {
				okAppend = true
				c.OK(key, p.Pos(st.Pos()), "beforeFuncs = append(beforeFuncs, fn): registration order preserved", 1)
			} else if isEmptyFreshSlice(st.Val) {
				// pre-sizing: an empty slice with capacity, only where the list is still empty
				isHooks := func(v ssa.Value) bool { return fieldOf(addrOfLoad(strip(v))) == fHooks }
				emptyList := union(
					edgesWhere(m, cCmp(token.EQL, isHooks, vNil), true),
					edgesWhere(m, cCmp(token.EQL, vLen(isHooks), vConstInt(0)), true),
				)
				if okG, _ := guardedBy(m, emptyList, isInstr(st)); okG && len(emptyList) > 0 {
					c.OK(key, p.Pos(st.Pos()), "an empty list is pre-sized where no hook is registered yet", 1)
				} else {
					c.Bad(key, p.Pos(st.Pos()), "Before() replaces the hook list by an empty one although hooks may be registered: they are dropped")
				}
			} else {
				c.Bad(key, p.Pos(st.Pos()), "Before() does not append the hook at the end of the list: "+vstr(st.Val))
			}
		}
		if !okAppend {
			c.Bad(p.FuncKey(m)+":hooks.store", p.FuncPos(m), "Before() never appends to the hook list")
		}
	} else {
		c.Anchor("responseWriter.Before")
	}

	// ---- R4 Write
	c.Rule("R4", "E1 guard-cut + E3", "underlying Write only after Written() held or WriteHeader(200) through the wrapper, only when method != HEAD; size grows only by the forwarded count", 3)
	writers := map[*ssa.Function]bool{mW: true}
	var writerList = []*ssa.Function{mW}
	for _, u := range under["Write"] {
		if f := u.Parent(); !writers[f] && isBodyWriter(f) {
			writers[f] = true
			writerList = append(writerList, f)
		}
	}
	c.Extra["body_writing_methods"] = len(writerList)
	for _, bw := range writerList {
		bw := bw
		what := bw.Name()
		_ = what
		delegates := delegationsToWrapper(bw)
		checkImplicit200X(c, bw, under["Write"], bw.Name(), delegates)
		for _, u := range under["Write"] {
			if u.Parent() != bw {
				continue
			}
			g := edgesWhere(bw, headCond(p, vParam(bw, 0)), false)
			ok, path := guardedBy(bw, g, isInstr(u))
			if ok && len(g) > 0 {
				c.OK(p.FuncKey(bw)+":head-guard", p.Pos(u.Pos()), "underlying Write only on the method != HEAD edge", numInstrs(bw))
			} else {
				c.Bad(p.FuncKey(bw)+":head-guard", p.Pos(u.Pos()), "body bytes can be forwarded for HEAD requests", path)
			}
		}
		// converse: a non-HEAD Write always forwards (no status- or size-dependent filter drops the body)
		{
			notHead := edgesWhere(bw, headCond(p, vParam(bw, 0)), true)
			var us []ssa.Instruction
			for _, u := range under["Write"] {
				if u.Parent() == bw {
					us = append(us, u)
				}
			}
			in, path := Query{Fn: bw, Cut: notHead, Avoid: inSet(append(append([]ssa.Instruction{}, us...), delegates...))}.FromEntry(isReturn)
			if in == nil && len(us) > 0 {
				c.OK(p.FuncKey(bw)+":always-forwards", p.FuncPos(bw), "for methods other than HEAD every path through Write reaches the underlying Write", numInstrs(bw))
			} else {
				c.Bad(p.FuncKey(bw)+":always-forwards", p.FuncPos(bw), "Write can return without forwarding the bytes although the request is not HEAD (e.g. a status-dependent filter): callers that rendered a body lose it", blockPath(path))
			}
		}
		nSize := 0
		for _, u := range p.FieldUses(fSize) {
			if u.Kind == "load" || u.Fresh {
				continue
			}
			key := p.FuncKey(u.Fn) + ":size." + u.Kind
			pos := p.Pos(u.Instr.Pos())
			st, isStore := u.Instr.(*ssa.Store)
			// an atomic counter: size.Add(int64(n)) is the update, size.Load() a read
			atomicAdd := false
			if u.Kind == "callarg" {
				switch u.Call {
				case "(*sync/atomic.Int64).Load", "(*sync/atomic.Int32).Load", "sync/atomic.LoadInt64", "sync/atomic.LoadInt32":
					continue
				case "(*sync/atomic.Int64).Add", "(*sync/atomic.Int32).Add", "sync/atomic.AddInt64", "sync/atomic.AddInt32":
					atomicAdd = true
				}
			}
			if (!isStore && !atomicAdd) || !writers[u.Fn] {
				c.Bad(key, pos, "size is modified outside Write()")
				continue
			}
			if u.Fn != bw {
				continue
			}
			nSize++
			fromUnder := func(v ssa.Value) bool {
				if cv, isCv := strip(v).(*ssa.Convert); isCv {
					v = cv.X
				}
				e, ok := strip(v).(*ssa.Extract)
				if !ok || e.Index != 0 {
					return false
				}
				cl, ok := e.Tuple.(*ssa.Call)
				if !ok {
					return false
				}
				for _, u := range under["Write"] {
					if u == ssa.CallInstruction(cl) {
						return true
					}
				}
				return false
			}
			if atomicAdd {
				ci := u.Instr.(ssa.CallInstruction)
				delta := ci.Common().Args[len(ci.Common().Args)-1]
				if cv, isCv := strip(delta).(*ssa.Convert); isCv {
					delta = cv.X
				}
				c.Cond(fromUnder(delta), key, pos, "size.Add(count returned by the underlying Write)", "size is updated with "+vstr(delta)+" instead of the count the underlying writer reported")
				continue
			}
			ok := vBin(token.ADD, vField(vParam(bw, 0), "size"), fromUnder)(st.Val)
			c.Cond(ok, key, pos, "size += count returned by the underlying Write", "size is updated with "+vstr(st.Val)+" instead of the count the underlying writer reported")
		}
		if nSize == 0 {
			c.Bad(p.FuncKey(bw)+":size.store", p.FuncPos(bw), "Write() never updates size")
		}
		// every byte count the underlying writer reports is added, also when it comes with an error
		isSizeStore := func(in ssa.Instruction) bool {
			if ci, isC := in.(ssa.CallInstruction); isC && len(ci.Common().Args) > 0 {
				switch callName(ci.Common()) {
				case "(*sync/atomic.Int64).Add", "(*sync/atomic.Int32).Add", "sync/atomic.AddInt64", "sync/atomic.AddInt32":
					return fieldOf(strip(ci.Common().Args[0])) == fSize
				}
			}
			st, ok := in.(*ssa.Store)
			return ok && fieldOf(strip(st.Addr)) == fSize
		}
		for _, u := range under["Write"] {
			if u.Parent() != bw {
				continue
			}
			in, path := Query{Fn: bw, Avoid: isSizeStore}.After(u, isReturn)
			if in == nil {
				c.OK(p.FuncKey(bw)+":size-on-every-path", p.Pos(u.Pos()), "every path from the underlying Write to return adds the reported count to size", numInstrs(bw))
			} else {
				c.Bad(p.FuncKey(bw)+":size-on-every-path", p.Pos(u.Pos()), "a path returns after the underlying Write without adding the forwarded byte count to size (e.g. a partial write reported together with an error)", blockPath(path))
			}
		}

	}

	// ---- R5 Flush
	c.Rule("R5", "E1 guard-cut", "underlying Flush only after Written() held or WriteHeader(200) through the wrapper", 1)
	checkImplicit200(c, mF, under["Flush"], "Flush")
}

// addrOfLoad returns the address operand if v is a load, else v.
func addrOfLoad(v ssa.Value) ssa.Value {
	if u, ok := v.(*ssa.UnOp); ok && u.Op == token.MUL {
		return u.X
	}
	return v
}

// appendsOnly: the variadic slice argument of append holds exactly the value m.
func appendsOnly(sl ssa.Value, m VM) bool {
	s, ok := sl.(*ssa.Slice)
	if !ok {
		return false
	}
	al, ok := s.X.(*ssa.Alloc)
	if !ok {
		return false
	}
	arr, ok := derefT(al.Type()).Underlying().(*types.Array)
	if !ok || arr.Len() != 1 {
		return false
	}
	for _, r := range referrers(al) {
		if ia, ok := r.(*ssa.IndexAddr); ok {
			for _, rr := range referrers(ia) {
				if st, ok := rr.(*ssa.Store); ok && st.Addr == ssa.Value(ia) {
					return m(st.Val)
				}
			}
		}
	}
	return false
}

func checkImplicit200(c *Check, m *ssa.Function, unders []ssa.CallInstruction, what string) {
	checkImplicit200X(c, m, unders, what, nil)
}

// delegationsToWrapper: calls in a method of the wrapper that hand the wrapper itself (possibly inside a
// struct that hides its other methods) to io.Copy / io.CopyN / io.CopyBuffer as the destination: the bytes
// then go through the wrapper's own Write, with all its bookkeeping.
func delegationsToWrapper(m *ssa.Function) []ssa.Instruction {
	var out []ssa.Instruction
	if len(m.Params) == 0 {
		return nil
	}
	recv := ssa.Value(m.Params[0])
	holdsRecv := func(v ssa.Value) bool {
		v = strip(v)
		if v == recv {
			return true
		}
		// struct{io.Writer}{w}: a local struct whose only stored field value is the receiver
		if ld, isLd := v.(*ssa.UnOp); isLd && ld.Op == token.MUL {
			v = ld.X
		}
		al, isAl := v.(*ssa.Alloc)
		if !isAl {
			return false
		}
		n, ok := 0, true
		for _, r := range referrers(al) {
			if fa, isFA := r.(*ssa.FieldAddr); isFA {
				for _, rr := range referrers(fa) {
					if st, isSt := rr.(*ssa.Store); isSt && st.Addr == ssa.Value(fa) {
						n++
						if strip(st.Val) != recv {
							ok = false
						}
					}
				}
			}
		}
		return ok && n == 1
	}
	allInstrs(m, func(in ssa.Instruction) {
		ci, ok := in.(ssa.CallInstruction)
		if !ok {
			return
		}
		switch callName(ci.Common()) {
		case "io.Copy", "io.CopyN", "io.CopyBuffer":
			if holdsRecv(ci.Common().Args[0]) {
				out = append(out, in)
			}
		}
	})
	return out
}

func checkImplicit200X(c *Check, m *ssa.Function, unders []ssa.CallInstruction, what string, delegates []ssa.Instruction) {
	p := c.P
	// "a status line was sent": Written(), or Status() != 0 (Written's own definition, checked under R6)
	cut := union(
		edgesWhere(m, cBool(vCall(rwT+".Written", vParam(m, 0))), true),
		edgesWhere(m, cCmp(token.NEQ, vCall(rwT+".Status", vParam(m, 0)), vConstInt(0)), true),
	)
	implicit := func(in ssa.Instruction) bool {
		ci, ok := in.(ssa.CallInstruction)
		if !ok || callName(ci.Common()) != rwT+".WriteHeader" {
			return false
		}
		a := ci.Common().Args
		return vParam(m, 0)(a[0]) && vConstInt(200)(a[1])
	}
	for _, u := range unders {
		if u.Parent() != m {
			continue
		}
		in, path := Query{Fn: m, Cut: cut, Avoid: implicit}.FromEntry(isInstr(u))
		key := p.FuncKey(m) + ":implicit-200"
		if in == nil {
			c.OK(key, p.Pos(u.Pos()), "every path to the underlying "+what+" has Written()==true or passes WriteHeader(200) through the wrapper", numInstrs(m))
		} else {
			c.Bad(key, p.Pos(u.Pos()), "a path reaches the underlying "+what+" before any status line and without the implicit WriteHeader(200) through the wrapper", blockPath(path))
		}
	}
	// the operation commits the response whatever the underlying writer can do: no return
	// without a status line having been sent (e.g. Flush on a writer that is no http.Flusher)
	key := p.FuncKey(m) + ":commits"
	commitOrDelegate := func(in ssa.Instruction) bool { return implicit(in) || inSet(delegates)(in) }
	if in, path := (Query{Fn: m, Cut: cut, Avoid: commitOrDelegate}).FromEntry(isReturn); in == nil {
		c.OK(key, p.FuncPos(m), what+" returns only after a status line was sent (Written() already, or the implicit WriteHeader(200))", numInstrs(m))
	} else {
		c.Bad(key, p.Pos(in.Pos()), what+" can return without having committed the status: Status() stays 0 and a later WriteHeader is still honoured although a write/flush came first", blockPath(path))
	}
}

// checkDescendingHookLoop verifies that fn invokes beforeFuncs[i] with i
// running len-1, len-2, …, 0.
func checkDescendingHookLoop(c *Check, fn *ssa.Function, fHooks *types.Var) {
	p := c.P
	found := false
	allInstrs(fn, func(in ssa.Instruction) {
		ci, ok := in.(ssa.CallInstruction)
		if !ok || ci.Common().IsInvoke() {
			return
		}
		ld, ok := ci.Common().Value.(*ssa.UnOp)
		if !ok || ld.Op != token.MUL {
			return
		}
		ia, ok := ld.X.(*ssa.IndexAddr)
		if !ok || fieldOf(addrOfLoad(ia.X)) != fHooks {
			return
		}
		found = true
		key := p.FuncKey(fn) + ":hook-loop"
		pos := p.Pos(in.Pos())
		// index = φ + c0 with φ = (len(hooks) + a, φ − 1): the indices visited are len+a+c0, len+a+c0−1, …
		il := linOf(ia.Index)
		var phi *ssa.Phi
		for v, cf := range il.t {
			if ph, isPhi := v.(*ssa.Phi); isPhi && cf == 1 && len(il.t) == 1 && len(ph.Edges) == 2 {
				phi = ph
			}
		}
		if phi == nil {
			c.Undecided(key, pos, "hook index is not a two-edge loop variable: "+vstr(ia.Index))
			return
		}
		c0 := il.k
		isHooksLen := vLen(func(v ssa.Value) bool { return fieldOf(addrOfLoad(v)) == fHooks })
		initOK, stepOK := false, false
		for _, e := range phi.Edges {
			// first index len−1  ⇔  init + c0 = len − 1
			if linSum(-1-c0, isHooksLen)(linOf(e)) {
				initOK = true
			}
			if linSum(-1, vIs(phi))(linOf(e)) {
				stepOK = true
			}
		}
		// the call is made only while index >= 0, i.e. not (φ + c0 < 0)
		g := edgesWhere(fn, cLinLess(linSum(c0, vIs(phi))), false)
		g2 := EdgeSet{}
		guarded, _ := guardedBy(fn, union(g, g2), isInstr(in))
		if initOK && stepOK && guarded && len(g)+len(g2) > 0 {
			c.OK(key, pos, "hooks invoked as beforeFuncs[i], i = len-1 … 0 step -1 (reverse registration order, each once)", numInstrs(fn))
		} else {
			c.Bad(key, pos, "hooks are not run in reverse registration order exactly once each: index "+vstr(ia.Index))
		}
		// argument is the writer itself
		if len(ci.Common().Args) == 1 && !vParam(fn, 0)(ci.Common().Args[0]) {
			c.Bad(key+":arg", pos, "hook is not given the wrapper itself")
		}
	})
	if !found {
		c.Bad(p.FuncKey(fn)+":hook-loop", p.FuncPos(fn), "no invocation of beforeFuncs[i] found in the hook runner")
	}
}

// headCond recognises "the request method is HEAD" on the writer recv: w.method == "HEAD",
// or a boolean field that is stored only by the constructor, from method == "HEAD".
func headCond(p *Prog, recv VM) CondM {
	direct := cCmp(token.EQL, vField(recv, "method"), vConstStr("HEAD"))
	return func(v ssa.Value) (bool, bool) {
		if ok, pos := direct(v); ok {
			return ok, pos
		}
		inner, pos := unNot(v)
		r, names, ok := fieldPath(inner)
		if !ok || len(names) != 1 || !recv(r) {
			return false, false
		}
		f := p.Field("flamego", "responseWriter", names[0])
		if f == nil {
			return false, false
		}
		if b, isB := f.Type().Underlying().(*types.Basic); !isB || b.Kind() != types.Bool {
			return false, false
		}
		ctor := p.Fn("flamego", "NewResponseWriter")
		if ctor == nil {
			return false, false
		}
		n := 0
		good := true
		for _, u := range p.FieldUses(f) {
			if u.Kind != "store" {
				continue
			}
			st, isSt := u.Instr.(*ssa.Store)
			if !isSt {
				good = false
				continue
			}
			n++
			if st.Parent() != ctor {
				good = false
				continue
			}
			if m, ps := cCmp(token.EQL, vParam(ctor, 0), vConstStr("HEAD"))(st.Val); !m || !ps {
				good = false
			}
		}
		if n == 0 || !good {
			return false, false
		}
		return true, pos
	}
}

func isAtomicLoad(n string) bool {
	return n == "sync/atomic.LoadInt32" || n == "(*sync/atomic.Int32).Load"
}

func isAtomicStore(n string) bool {
	return n == "sync/atomic.StoreInt32" || n == "(*sync/atomic.Int32).Store"
}

// vAtomicLoad matches atomic.LoadInt32(addr) / addr.Load() for an address matched by addr.
func vAtomicLoad(addr VM) VM {
	return vOr(vCall("sync/atomic.LoadInt32", addr), vCall("(*sync/atomic.Int32).Load", addr))
}

// committedBefore: within a method of the wrapper, every path to u has Written()==true (or Status() != 0)
// or passes WriteHeader(200) through the wrapper.
func committedBefore(m *ssa.Function, u ssa.CallInstruction) bool {
	if m.Signature.Recv() == nil || len(m.Params) == 0 {
		return false
	}
	cut := union(
		edgesWhere(m, cBool(vCall(rwT+".Written", vParam(m, 0))), true),
		edgesWhere(m, cCmp(token.NEQ, vCall(rwT+".Status", vParam(m, 0)), vConstInt(0)), true),
	)
	implicit := func(in ssa.Instruction) bool {
		ci, ok := in.(ssa.CallInstruction)
		if !ok || callName(ci.Common()) != rwT+".WriteHeader" {
			return false
		}
		a := ci.Common().Args
		return vParam(m, 0)(a[0]) && vConstInt(200)(a[1])
	}
	in, _ := Query{Fn: m, Cut: cut, Avoid: implicit}.FromEntry(isInstr(u))
	return in == nil
}

// isEmptyFreshSlice: make([]T, 0, n) in either SSA shape (MakeSlice, or new [n]T sliced [:0]).
func isEmptyFreshSlice(v ssa.Value) bool {
	switch x := strip(v).(type) {
	case *ssa.MakeSlice:
		return vConstInt(0)(x.Len)
	case *ssa.Slice:
		if al, ok := x.X.(*ssa.Alloc); ok && x.Low == nil && x.High != nil && vConstInt(0)(x.High) {
			_, isArr := derefT(al.Type()).Underlying().(*types.Array)
			return isArr
		}
	}
	return false
}

// isStdUnwrap: fn is exactly `func (w *responseWriter) Unwrap() http.ResponseWriter { return w.ResponseWriter }`:
// that name and signature, one block, no call, no store.
func isStdUnwrap(fn *ssa.Function) bool {
	if fn.Name() != "Unwrap" || fn.Signature.Recv() == nil || fn.Signature.Params().Len() != 0 || fn.Signature.Results().Len() != 1 {
		return false
	}
	if fn.Signature.Results().At(0).Type().String() != "net/http.ResponseWriter" {
		return false
	}
	if len(fn.Blocks) != 1 {
		return false
	}
	ok := true
	allInstrs(fn, func(in ssa.Instruction) {
		switch in.(type) {
		case ssa.CallInstruction, *ssa.Store, *ssa.MapUpdate, *ssa.Send:
			ok = false
		}
	})
	return ok
}

// isBodyWriter: a method of responseWriter with the results (int, error) — Write, or a sibling such as
// WriteString (io.StringWriter). Every such method that reaches the underlying writer's body is held to
// the obligations of R4.
func isBodyWriter(fn *ssa.Function) bool {
	if fn == nil || fn.Signature.Recv() == nil || namedName(derefT(fn.Signature.Recv().Type())) != "responseWriter" {
		return false
	}
	r := fn.Signature.Results()
	return r.Len() == 2 && (r.At(0).Type().String() == "int" || r.At(0).Type().String() == "int64") && r.At(1).Type().String() == "error"
}

// forwardsOf: v (the embedded writer converted to io.Writer) is used only as the destination of
// io.WriteString calls; those calls are returned.
func forwardsOf(v ssa.Value) []ssa.CallInstruction {
	var out []ssa.CallInstruction
	for _, r := range referrers(v) {
		ci, ok := r.(ssa.CallInstruction)
		if !ok {
			if _, isDbg := r.(*ssa.DebugRef); isDbg {
				continue
			}
			return nil
		}
		if callName(ci.Common()) != "io.WriteString" || len(ci.Common().Args) != 2 || ci.Common().Args[0] != v {
			return nil
		}
		out = append(out, ci)
	}
	return out
}
