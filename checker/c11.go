package main

// C11 Group/Combo/Routes/Any/AutoHead equal their flat expansion.

import (
	"go/constant"
	"go/token"
	"go/types"
	"strings"

	"golang.org/x/tools/go/ssa"
)

func init() { register("C11", checkC11) }

var verbNames = []string{"Get", "Patch", "Post", "Put", "Delete", "Options", "Head", "Connect", "Trace"}

func checkC11(c *Check) {
	p := c.P
	c.Explain = "push/pop ordering around the group callback, provenance of the concatenated path and handler list, append-hazard analysis on long-lived slices, verb→method tables of router and ComboRoute, AutoHead gating, Routes expansion and Combo duplicate refusal"
	c.NotDec = []string{"behavioural equality with the flat expansion for all programs (follows only together with C01/C03)", "double application of a custom HandlerWrapper under Routes/AutoHead (not part of the statement)"}

	// ---- R1 group stack discipline
	c.Rule("R1", "E2 order", "Group pushes (path, handlers) before calling fn and pops exactly the last entry on every path after it", 3)
	fGroups := p.Field("flamego", "router", "groups")
	gm := p.Meth("flamego", "router", "Group")
	// the stack may be kept as two parallel slices (paths, handler lists) instead of a slice of structs
	var fPaths, fHandlerLists *types.Var
	if fGroups == nil && gm != nil {
		allInstrs(gm, func(in ssa.Instruction) {
			st, ok := in.(*ssa.Store)
			if !ok {
				return
			}
			f := fieldOf(strip(st.Addr))
			a := asCall(st.Val)
			if f == nil || a == nil || callName(&a.Call) != "builtin.append" || fieldOf(addrOfLoad(strip(a.Call.Args[0]))) != f {
				return
			}
			if appendsOnly(a.Call.Args[1], vParam(gm, 1)) {
				fPaths = f
			}
			if appendsOnly(a.Call.Args[1], vParam(gm, 3)) {
				fHandlerLists = f
			}
		})
		if fPaths != nil && fHandlerLists != nil {
			c.P.roleNotes = append(c.P.roleNotes, "the group stack is kept as parallel slices "+fPaths.Name()+" / "+fHandlerLists.Name())
		}
	}
	stacks := []*types.Var{fGroups}
	if fGroups == nil && fPaths != nil && fHandlerLists != nil {
		stacks = []*types.Var{fPaths, fHandlerLists}
	}
	for _, fGroups := range stacks {
		if g := gm; g != nil && fGroups != nil {
			key := p.FuncKey(g)
			if len(stacks) > 1 {
				key += ":" + fGroups.Name()
			}
			parallel := len(stacks) > 1
			isGroups := func(v ssa.Value) bool { return fieldOf(addrOfLoad(strip(v))) == fGroups }
			var push, pop []ssa.Instruction
			var fnCall ssa.Instruction
			allInstrs(g, func(in ssa.Instruction) {
				switch x := in.(type) {
				case *ssa.Store:
					if fieldOf(strip(x.Addr)) != fGroups {
						return
					}
					if a := asCall(x.Val); a != nil && callName(&a.Call) == "builtin.append" && isGroups(a.Call.Args[0]) {
						// pushed element: group{path: routePath, handlers: handlers}
						okElem := appendsOnly(a.Call.Args[1], func(v ssa.Value) bool {
							if parallel {
								return (fGroups == fPaths && vParam(g, 1)(v)) || (fGroups == fHandlerLists && vParam(g, 3)(v))
							}
							al := cellOf(v)
							if al == nil {
								return false
							}
							okP, okH := false, false
							for _, r := range referrers(al) {
								if fa, ok := r.(*ssa.FieldAddr); ok {
									for _, rr := range referrers(fa) {
										if st, ok := rr.(*ssa.Store); ok && st.Addr == ssa.Value(fa) {
											if fieldOf(fa).Name() == "path" && vParam(g, 1)(st.Val) {
												okP = true
											}
											if fieldOf(fa).Name() == "handlers" && vParam(g, 3)(st.Val) {
												okH = true
											}
										}
									}
								}
							}
							return okP && okH
						})
						c.Cond(okElem, key+":push-element", p.Pos(x.Pos()), "pushed group = {path: routePath, handlers: handlers}", "the pushed group does not hold the given path and handlers")
						push = append(push, in)
						return
					}
					if sl, ok := strip(x.Val).(*ssa.Slice); ok && isGroups(sl.X) && sl.Low == nil && sl.High != nil && vBin(token.SUB, vLen(isGroups), vConstInt(1))(sl.High) {
						pop = append(pop, in)
						return
					}
					c.Bad(key+":groups-store", p.Pos(x.Pos()), "unexpected store to the group stack: "+vstr(x.Val))
				case ssa.CallInstruction:
					if callName(x.Common()) == "dynamic" && vParam(g, 2)(x.Common().Value) {
						fnCall = in
					}
				}
			})
			// the pop may live in a deferred literal registered before fn() (restores the scope on panic too)
			deferredPop := false
			allInstrs(g, func(in ssa.Instruction) {
				d, ok := in.(*ssa.Defer)
				if !ok {
					return
				}
				mc, ok := strip(d.Call.Value).(*ssa.MakeClosure)
				if !ok {
					return
				}
				lit := mc.Fn.(*ssa.Function)
				allInstrs(lit, func(x ssa.Instruction) {
					st, ok := x.(*ssa.Store)
					if !ok || fieldOf(strip(st.Addr)) != fGroups {
						return
					}
					if sl, ok := strip(st.Val).(*ssa.Slice); ok && isGroups(sl.X) && sl.Low == nil && sl.High != nil && vBin(token.SUB, vLen(isGroups), vConstInt(1))(sl.High) {
						if fnCall != nil {
							if ok2, _ := mustPrecede(g, isInstr(in), fnCall); ok2 {
								deferredPop = true
							}
						}
					}
				})
			})
			if fnCall == nil || len(push) == 0 {
				c.Bad(key+":push-before-fn", p.FuncPos(g), "Group does not push a group and call fn")
			} else {
				ok, path := mustPrecede(g, inSet(push), fnCall)
				if ok {
					c.OK(key+":push-before-fn", p.Pos(fnCall.Pos()), "push dominates fn()", numInstrs(g))
				} else {
					c.Bad(key+":push-before-fn", p.Pos(fnCall.Pos()), "fn() can run before the group is pushed: routes inside the group miss its prefix and handlers", path)
				}
				ok, path = mustFollow(g, fnCall, inSet(pop))
				twice := false
				for _, po := range pop {
					if in, _ := (Query{Fn: g}).After(po, inSet(pop)); in != nil {
						twice = true
					}
				}
				if deferredPop && len(pop) == 0 {
					c.OK(key+":pop-after-fn", p.Pos(fnCall.Pos()), "groups = groups[:len-1] in a literal deferred before fn() (also runs when fn panics)", numInstrs(g))
				} else if ok && len(pop) > 0 && !twice {
					c.OK(key+":pop-after-fn", p.Pos(fnCall.Pos()), "groups = groups[:len-1] on every path after fn(), once", numInstrs(g))
				} else {
					c.Bad(key+":pop-after-fn", p.Pos(fnCall.Pos()), "leaving a group does not restore the enclosing scope (pop missing, not last-only, or repeated)", path)
				}
			}
			// no other writer of the stack
			for _, u := range p.FieldUses(fGroups) {
				if u.Kind == "store" && u.Fn != g && u.Fn.Parent() != g && !u.Fresh {
					c.Bad(p.FuncKey(u.Fn)+":groups-store", p.Pos(u.Instr.Pos()), "the group stack is modified outside Group()")
				}
			}
		} else {
			c.Anchor("router.Group / router.groups")
		}
	}

	// ---- R2 concatenation in Route
	c.Rule("R2", "E3 provenance", "Route registers groupPath(outer→inner) + routePath with handlers = fresh slice ← group handlers in stack order ← the route's own", 3)
	if rt := p.Meth("flamego", "router", "Route"); rt != nil {
		key := p.FuncKey(rt)
		recv := vParam(rt, 0)
		groups := vField(recv, "groups")
		var elemCell *ssa.Alloc
		var idx ssa.Value
		allInstrs(rt, func(in ssa.Instruction) {
			if st, ok := in.(*ssa.Store); ok {
				if i, ok := elemIndex(st.Val, groups); ok && ascendingIndex(i) {
					if al, ok := st.Addr.(*ssa.Alloc); ok {
						elemCell, idx = al, i
					}
				}
			}
		})
		_ = idx
		// the element of an ascending walk over the stack: a loop copy, groups[i].f directly, or
		// paths[i] / handlerLists[i] of the parallel representation
		stackOf := func(name string) VM {
			if fGroups == nil && fPaths != nil && fHandlerLists != nil {
				f := fPaths
				if name == "handlers" {
					f = fHandlerLists
				}
				return func(v ssa.Value) bool { return fieldOf(addrOfLoad(strip(v))) == f && recv(fieldRoot(v)) }
			}
			return nil
		}
		gField := func(name string) VM {
			return func(v ssa.Value) bool {
				if st := stackOf(name); st != nil {
					// loop copy of the element (for _, p := range r.groupPaths) or direct index
					if i, ok := elemIndex(v, st); ok && ascendingIndex(i) {
						return true
					}
					return false
				}
				r, ns, ok := fieldPath(v)
				if !ok || len(ns) != 1 || ns[0] != name {
					return false
				}
				if elemCell != nil && r == ssa.Value(elemCell) {
					return true
				}
				if ia, isIA := r.(*ssa.IndexAddr); isIA && groups(ia.X) && ascendingIndex(ia.Index) {
					return true
				}
				return false
			}
		}
		haveLoop := elemCell != nil
		if !haveLoop {
			allInstrs(rt, func(in ssa.Instruction) {
				if v, ok := in.(ssa.Value); ok && (gField("path")(v) || gField("handlers")(v)) {
					haveLoop = true
				}
			})
		}
		if !haveLoop {
			c.Undecided(key+":group-loop", p.FuncPos(rt), "no ascending loop over the group stack found")
		} else {
			// path: addRoute(method, φ(routePath, acc + routePath), …), acc = φ("", acc + g.path)
			okPath := false
			for _, ci := range callsNamed(rt, "(*flamego.router).addRoute") {
				pv := ci.Common().Args[2]
				sawPlain, sawConcat := false, false
				otherLeaf := false
				var concatAt ssa.Instruction
				phiLeaves(pv, func(l ssa.Value) {
					if vParam(rt, 2)(l) {
						sawPlain = true
						return
					}
					if b, ok := l.(*ssa.BinOp); ok && b.Op == token.ADD && vParam(rt, 2)(b.Y) {
						concatAt = b
						if acc, ok := strip(b.X).(*ssa.Phi); ok {
							i0, st, skipped := false, false, false
							accLeaves(acc, func(e ssa.Value) {
								if vConstStr("")(e) {
									i0 = true
								} else if bb, ok := strip(e).(*ssa.BinOp); ok && bb.Op == token.ADD && strip(bb.X) == ssa.Value(acc) && gField("path")(bb.Y) {
									st = true
								} else {
									skipped = true // an iteration can leave the accumulator as it was, or set it to something else
								}
							})
							if i0 && st && !skipped {
								sawConcat = true
								return
							}
						}
					}
					if cl := asCall(l); cl != nil && strings.HasSuffix(callName(&cl.Call), ").String") {
						return // the builder form below
					}
					otherLeaf = true
				})
				// the prefix walk may be unconditional (no groups: "" + routePath); the plain path is registered
				// only where the stack was tested empty
				plainOK := func() bool {
					if !sawPlain {
						return true
					}
					if concatAt == nil {
						return false
					}
					anyStack := func(v ssa.Value) bool {
						if groups(v) {
							return true
						}
						f := fieldOf(addrOfLoad(strip(v)))
						return f != nil && (f == fPaths || f == fHandlerLists) && recv(fieldRoot(v))
					}
					empty := edgesWhere(rt, cCmp(token.GTR, vLen(anyStack), vConstInt(0)), false)
					if len(empty) == 0 {
						return false
					}
					in, _ := Query{Fn: rt, Cut: empty, Avoid: func(x ssa.Instruction) bool { return x.Block() == concatAt.Block() }}.FromEntry(isInstr(ci))
					return in == nil
				}
				okPath = sawConcat && !otherLeaf && plainOK()
				if !okPath && !sawConcat && !otherLeaf {
					// the same text assembled in a local strings.Builder / bytes.Buffer: the group paths written in
					// one ascending walk, then the route's own path, then String()
					phiLeaves(pv, func(l ssa.Value) {
						cl := asCall(l)
						if cl == nil {
							return
						}
						if n := callName(&cl.Call); n != "(*strings.Builder).String" && n != "(*bytes.Buffer).String" {
							return
						}
						buf, isAl := strip(cl.Call.Args[0]).(*ssa.Alloc)
						if !isAl {
							return
						}
						var gw, pw []ssa.Instruction
						other := false
						for _, r := range referrers(buf) {
							wc, isCall := r.(ssa.CallInstruction)
							if !isCall {
								continue
							}
							n := callName(wc.Common())
							switch {
							case strings.HasSuffix(n, ").WriteString"):
								a := wc.Common().Args[1]
								if gField("path")(a) {
									gw = append(gw, wc)
								} else if vParam(rt, 2)(a) {
									pw = append(pw, wc)
								} else {
									other = true
								}
							case strings.HasSuffix(n, ").Grow"), strings.HasSuffix(n, ").String"), strings.HasSuffix(n, ").Len"), strings.HasSuffix(n, ").Cap"):
							default:
								other = true
							}
						}
						if other || len(gw) != 1 || len(pw) != 1 {
							return
						}
						// order: no group write after the own path; String() only behind the own path
						if x, _ := (Query{Fn: rt}).After(pw[0], isInstr(gw[0])); x != nil {
							return
						}
						if ok, _ := mustPrecede(rt, isInstr(pw[0]), cl); !ok {
							return
						}
						// the group write is not skipped within an iteration
						if from, isI := strip(gw[0].(ssa.CallInstruction).Common().Args[1]).(ssa.Instruction); isI {
							if skip, _ := iterationSkips(rt, from, gw[0]); skip {
								return
							}
						}
						sawConcat = true
						concatAt = cl
					})
					okPath = sawConcat && plainOK()
				}
				c.Cond(vParam(rt, 1)(ci.Common().Args[1]), key+":method", p.Pos(ci.Pos()), "method passed through", "Route registers under a different method than given")
			}
			c.Cond(okPath, key+":path", p.FuncPos(rt), "path = φ(routePath, (\"\" + g0.path + g1.path + …) + routePath)", "the registered path is not outer-to-inner group prefixes followed by the route's own path")
			// handlers
			hp := handlersParamIndex(rt)
			var cell *ssa.Alloc
			allInstrs(rt, func(in ssa.Instruction) {
				if st, ok := in.(*ssa.Store); ok && vParam(rt, hp)(st.Val) {
					cell, _ = st.Addr.(*ssa.Alloc)
				}
			})
			okH := false
			why := "handlers variable not found"
			var leaves []ssa.Value
			if cell != nil {
				for _, st := range cellStores(cell, 0) {
					phiLeaves(st.Val, func(l ssa.Value) { leaves = append(leaves, l) })
				}
			} else {
				// the parameter is not captured (the chain closure was built by a helper that took a copy): the
				// value that is validated and handed on
				for _, ci := range callsNamed(rt, "flamego.validateAndWrapHandlers") {
					phiLeaves(ci.Common().Args[0], func(l ssa.Value) { leaves = append(leaves, l) })
				}
			}
			if len(leaves) > 0 {
				for _, lv := range leaves {
					if vParam(rt, hp)(lv) {
						continue
					}
					if u, isU := lv.(*ssa.UnOp); isU && u.Op == token.MUL && u.X == ssa.Value(cell) {
						continue // unchanged
					}
					why = "unexpected store " + vstr(lv)
					a := asCall(lv)
					if a == nil || callName(&a.Call) != "builtin.append" {
						continue
					}
					if cell != nil && cellOf(a.Call.Args[1]) != cell {
						continue
					}
					if cell == nil && !vParam(rt, hp)(a.Call.Args[1]) {
						continue
					}
					hs, ok := strip(a.Call.Args[0]).(*ssa.Phi)
					if !ok {
						why = "the route's handlers are not appended onto the accumulated group handlers"
						continue
					}
					i0, st2, skipped := false, false, false
					accLeaves(hs, func(e ssa.Value) {
						if a2 := asCall(e); a2 != nil && callName(&a2.Call) == "builtin.append" && strip(a2.Call.Args[0]) == ssa.Value(hs) && gField("handlers")(a2.Call.Args[1]) {
							st2 = true
						} else if isFresh(e) {
							i0 = true
						} else {
							skipped = true
						}
					})
					if i0 && st2 && !skipped {
						okH = true
					} else {
						why = "group handlers are not accumulated as fresh ← g0.handlers ← g1.handlers …"
					}
				}
			}
			c.Cond(okH, key+":handlers", p.FuncPos(rt), "handlers = append(fresh ← g.handlers (stack order), own...)", "handler concatenation is not (fresh slice, outer group, inner group, route's own): "+why)
		}
	} else {
		c.Anchor("router.Route")
	}

	// ---- R3 append hazard on registration-phase slices
	c.Rule("R3", "E5 append hazard", "append(x, …) with x read from a long-lived object (ComboRoute.handlers, group.handlers, Flame.handlers, router.groups, …) is stored back to the same location; otherwise two results share x's spare capacity", 2)
	nApp := 0
	for _, fn := range p.Funcs() {
		if fn.Pkg != p.SSA["flamego"] {
			continue
		}
		allInstrs(fn, func(in ssa.Instruction) {
			call, ok := in.(*ssa.Call)
			if !ok || callName(&call.Call) != "builtin.append" {
				return
			}
			base := call.Call.Args[0]
			var fld *types.Var
			phiLeaves(base, func(l ssa.Value) {
				if u, ok := l.(*ssa.UnOp); ok && u.Op == token.MUL {
					if f := fieldOf(u.X); f != nil {
						if root, _ := addrRoot(u.X); !isLocalAlloc(root) {
							fld = f
						}
					}
				}
			})
			if fld == nil {
				return
			}
			nApp++
			key := p.FuncKey(fn) + ":append-on-" + fld.Name()
			back := false
			for _, r := range referrers(call) {
				if st, ok := r.(*ssa.Store); ok && fieldOf(strip(st.Addr)) == fld {
					back = true
				}
			}
			c.Cond(back, key, p.Pos(call.Pos()), "result stored back into "+fld.Name(), "append onto the long-lived slice "+fld.Name()+" whose result is used elsewhere: later appends overwrite it through the shared backing array (e.g. Combo(path, hs...).Get(a).Post(b) makes GET run b)")
		})
	}
	if nApp == 0 {
		c.Bad("flamego:append-sites", "?", "no append on a long-lived slice found (anchor drift)")
	}

	// ---- R4 verb tables
	c.Rule("R4", "E7 tables", "each router verb registers the http.Method constant equal to its upper-cased name with its own path and handlers; each ComboRoute verb binds the same-named router method and the same constant; Any registers \"*\"; the method table has the nine verbs", 20)
	verbConst := map[string]string{}
	for _, v := range verbNames {
		verbConst[v] = strings.ToUpper(v)
	}
	for _, v := range verbNames {
		if m := p.Meth("flamego", "router", v); m != nil {
			ok := false
			for _, ci := range callsNamed(m, "(*flamego.router).Route") {
				a := ci.Common().Args
				if vParam(m, 0)(a[0]) && vConstStr(verbConst[v])(a[1]) && vParam(m, 1)(a[2]) && vParam(m, 2)(a[3]) {
					ok = true
				}
			}
			c.Cond(ok, p.FuncKey(m)+":verb", p.FuncPos(m), v+" → Route(\""+verbConst[v]+"\", routePath, handlers)", "router."+v+" does not register method "+verbConst[v]+" with its own path and handlers")
		} else {
			c.Anchor("router." + v)
		}
		if m := p.Meth("flamego", "ComboRoute", v); m != nil {
			ok := false
			for _, ci := range callsNamed(m, "(*flamego.ComboRoute).route") {
				a := ci.Common().Args
				bound := false
				if mc, isMC := strip(a[1]).(*ssa.MakeClosure); isMC {
					if f, isF := mc.Fn.(*ssa.Function); isF && f.Object() != nil && f.Object().Name() == v && len(mc.Bindings) == 1 && vField(vParam(m, 0), "router")(mc.Bindings[0]) {
						bound = true
					}
				}
				if bound && vConstStr(verbConst[v])(a[2]) && vParam(m, 1)(a[3]) {
					ok = true
				}
			}
			c.Cond(ok, p.FuncKey(m)+":verb", p.FuncPos(m), "ComboRoute."+v+" → route(router."+v+", \""+verbConst[v]+"\", handlers)", "ComboRoute."+v+" does not bind router."+v+" with method "+verbConst[v])
		} else {
			c.Anchor("ComboRoute." + v)
		}
	}
	if m := p.Meth("flamego", "router", "Any"); m != nil {
		ok := false
		for _, ci := range callsNamed(m, "(*flamego.router).Route") {
			a := ci.Common().Args
			ok = vConstStr("*")(a[1]) && vParam(m, 1)(a[2]) && vParam(m, 2)(a[3])
		}
		c.Cond(ok, p.FuncKey(m)+":verb", p.FuncPos(m), "Any → Route(\"*\", …)", "Any does not register the wildcard method")
	}
	// httpMethods table
	if g, ok := p.SSA["flamego"].Members["httpMethods"].(*ssa.Global); ok {
		got := map[string]bool{}
		if init := p.SSA["flamego"].Func("init"); init != nil {
			allInstrs(init, func(in ssa.Instruction) {
				if st, ok := in.(*ssa.Store); ok {
					if ia, ok := st.Addr.(*ssa.IndexAddr); ok {
						if al, ok := ia.X.(*ssa.Alloc); ok {
							// is this array the backing of httpMethods?
							for _, r := range referrers(al) {
								if sl, ok := r.(*ssa.Slice); ok {
									for _, rr := range referrers(sl) {
										if s2, ok := rr.(*ssa.Store); ok && s2.Addr == ssa.Value(g) {
											if cst, ok := st.Val.(*ssa.Const); ok && cst.Value != nil && cst.Value.Kind() == constant.String {
												got[constant.StringVal(cst.Value)] = true
											}
										}
									}
								}
							}
						}
					}
				}
			})
		}
		okT := len(got) == len(verbNames)
		for _, v := range verbNames {
			if !got[verbConst[v]] {
				okT = false
			}
		}
		c.Cond(okT, "flamego.httpMethods:table", p.Pos(g.Pos()), "httpMethods = the nine verb constants, distinct", "the method table does not list exactly the nine verbs: \"*\" / Any no longer expands to all of them")
	} else {
		c.Anchor("flamego.httpMethods")
	}

	// ---- R8 multi-method registration keeps one shortcut entry per method
	c.Rule("R8", "shared with C10 (R1, R2, R3)", "Any/Routes register each method separately, also in the shortcut table: entries are keyed by the method whose tree holds the leaf and evicted per method", 6)
	c.Share("C10", []string{"R1", "R2", "R3"}, 6)

	// ---- R5 AutoHead
	c.Rule("R5", "E5 + E1", "autoHead is read only by Get; the extra Head registration is guarded by it and uses the same path and handlers", 2)
	fAH := p.Field("flamego", "router", "autoHead")
	ahm := p.Meth("flamego", "router", "AutoHead")
	var ahOn *ssa.Const // non-boolean representation: the value AutoHead(true) stores
	if fAH == nil && ahm != nil {
		// the switch may be kept in another representation (an enum): the one router field AutoHead() stores
		var cands []*types.Var
		allInstrs(ahm, func(in ssa.Instruction) {
			if st, ok := in.(*ssa.Store); ok {
				if f := fieldOf(strip(st.Addr)); f != nil {
					cands = append(cands, f)
				}
			}
		})
		if len(cands) >= 1 {
			same := true
			for _, f := range cands {
				if f != cands[0] {
					same = false
				}
			}
			if same {
				fAH = cands[0]
				vTrue := edgesWhere(ahm, cBool(vParam(ahm, 1)), true)
				allInstrs(ahm, func(in ssa.Instruction) {
					st, ok := in.(*ssa.Store)
					if !ok || fieldOf(strip(st.Addr)) != fAH {
						return
					}
					if cst, isC := strip(st.Val).(*ssa.Const); isC {
						if g, _ := guardedBy(ahm, vTrue, isInstr(in)); g && len(vTrue) > 0 {
							ahOn = cst
						}
					}
					if ph, isPhi := strip(st.Val).(*ssa.Phi); isPhi {
						for i, e := range ph.Edges {
							if cst, isC := e.(*ssa.Const); isC && edgeGuarded(ahm, vTrue, ph.Block().Preds[i], ph.Block()) {
								ahOn = cst
							}
						}
					}
				})
				c.P.roleNotes = append(c.P.roleNotes, "the AutoHead switch is kept in field "+fAH.Name())
			}
		}
	}
	if fAH != nil {
		get := p.Meth("flamego", "router", "Get")
		for _, u := range p.FieldUses(fAH) {
			key := p.FuncKey(u.Fn) + ":autoHead." + u.Kind
			switch u.Kind {
			case "load":
				c.Cond(u.Fn == get, key, p.Pos(u.Instr.Pos()), "autoHead read in Get only", "autoHead influences a method other than Get")
			case "store":
				c.Cond(u.Fn.Name() == "AutoHead" || u.Fresh, key, p.Pos(u.Instr.Pos()), "set by AutoHead()", "autoHead is written outside AutoHead()")
			}
		}
		if get != nil {
			ahField := func(v ssa.Value) bool { return fieldOf(addrOfLoad(strip(v))) == fAH }
			on := edgesWhere(get, cBool(ahField), true)
			if ahOn != nil {
				on = edgesWhere(get, cCmp(token.EQL, ahField, func(v ssa.Value) bool {
					cst, ok := strip(v).(*ssa.Const)
					return ok && cst.Value != nil && ahOn.Value != nil && constant.Compare(cst.Value, token.EQL, ahOn.Value)
				}), true)
			}
			found := false
			for _, ci := range callsIn(get, func(n string, cm *ssa.CallCommon) bool {
				return n == "(*flamego.router).Head" || (n == "(*flamego.router).Route" && vConstStr("HEAD")(cm.Args[1]))
			}) {
				found = true
				a := ci.Common().Args
				same := vParam(get, 1)(a[len(a)-2]) && vParam(get, 2)(a[len(a)-1])
				ok, path := guardedBy(get, on, isInstr(ci))
				if ok && len(on) > 0 && same {
					c.OK(p.FuncKey(get)+":auto-head", p.Pos(ci.Pos()), "HEAD registered only when autoHead, same path and handlers", numInstrs(get))
				} else {
					c.Bad(p.FuncKey(get)+":auto-head", p.Pos(ci.Pos()), "the automatic HEAD registration is not gated by autoHead or uses another path/handlers", path)
				}
				// … and whenever it is on: no further condition (a memo, a counter, a lookup) may skip it
				skipped := false
				for e := range on {
					if e.S < len(e.B.Succs) {
						if in, pth := (Query{Fn: get, Avoid: isInstr(ci)}).Reach(e.B.Succs[e.S], 0, func(x ssa.Instruction) bool { _, isRet := x.(*ssa.Return); return isRet }); in != nil {
							skipped = true
							c.Bad(p.FuncKey(get)+":auto-head-always", p.Pos(ci.Pos()), "with autoHead on, Get can return without registering HEAD: the implicit HEAD route depends on something other than the switch and this registration (flat expansion always registers it)", blockPath(pth))
						}
					}
				}
				if !skipped && len(on) > 0 {
					c.OK(p.FuncKey(get)+":auto-head-always", p.Pos(ci.Pos()), "every path from the autoHead edge to a return registers HEAD", numInstrs(get))
				}
			}
			if !found {
				c.Bad(p.FuncKey(get)+":auto-head", p.FuncPos(get), "Get never registers HEAD: AutoHead has no effect")
			}
		}
	} else {
		c.Anchor("router.autoHead")
	}

	// ---- R6 Routes
	c.Rule("R6", "E3 provenance", "Routes calls Route once per collected method (comma list entries, trimmed, plus leading string handlers) with the given path and the remaining handlers; no early exit", 1)
	if m := p.Meth("flamego", "router", "Routes"); m != nil {
		key := p.FuncKey(m)
		rcs := callsNamed(m, "(*flamego.router).Route")
		if len(rcs) != 1 {
			c.Undecided(key+":expansion", p.FuncPos(m), "expected one Route call in a loop")
		} else {
			rc := rcs[0]
			a := rc.Common().Args
			mi, isElem := elemIndex(a[1], vAny)
			okLoop := isElem && ascendingIndex(mi)
			var ms ssa.Value
			if isElem {
				ms = strip(a[1]).(*ssa.UnOp).X.(*ssa.IndexAddr).X
			}
			// ms derives from Split(methods, ",") entries trimmed and from string handlers
			isSplit := vCall("strings.Split", vParam(m, 2), vConstStr(","))
			okMs := ms != nil && derivesFrom(ms, vCall("strings.TrimSpace"), nil) && derivesFrom(ms, isSplit, nil)
			if ms != nil && !okMs && derivesFrom(ms, isSplit, nil) {
				// trimmed in place: list[i] = TrimSpace(list[i]) for every i of the Split result, before it is used
				allInstrs(m, func(in ssa.Instruction) {
					st, ok := in.(*ssa.Store)
					if !ok {
						return
					}
					ia, ok := st.Addr.(*ssa.IndexAddr)
					if !ok || !isSplit(ia.X) || !ascendingIndex(ia.Index) {
						return
					}
					tc := asCall(st.Val)
					if tc == nil || callName(&tc.Call) != "strings.TrimSpace" {
						return
					}
					// the trimmed value is this element
					src := strip(tc.Call.Args[0])
					sameElem := false
					if j, isE := elemIndex(src, isSplit); isE && strip(j) == strip(ia.Index) {
						sameElem = true
					}
					if !sameElem {
						return
					}
					// every iteration stores: from the element the loop hands out (not from the address computed next
					// to the store, which a condition may enclose together with it)
					var from ssa.Instruction = ia
					if si, isI := src.(ssa.Instruction); isI {
						from = si
					}
					if skip, _ := iterationSkips(m, from, st); skip {
						return
					}
					// … and not only after entries have been registered
					if x, _ := (Query{Fn: m}).After(rc, isInstr(st)); x == nil {
						okMs = true
					}
				})
			}
			okStr := false
			if ms != nil {
				okStr = derivesFrom(ms, func(v ssa.Value) bool {
					e, ok := strip(v).(*ssa.Extract)
					if !ok || e.Index != 0 {
						return false
					}
					ta, ok := e.Tuple.(*ssa.TypeAssert)
					return ok && isStringT(ta.AssertedType)
				}, nil)
			}
			okPath := vParam(m, 1)(a[2])
			okH := true
			phiLeaves(a[3], func(l ssa.Value) {
				if vParam(m, 3)(l) {
					return
				}
				if sl, ok := l.(*ssa.Slice); ok && vParam(m, 3)(sl.X) && sl.High == nil {
					return
				}
				okH = false
			})
			// no early exit: after rc, return only through loop exhaustion
			exh := EdgeSet{}
			if isElem {
				exh = edgesWhere(m, cCmp(token.LSS, vIs(mi), vLen(vIs(ms))), false)
			}
			in, path := Query{Fn: m, Cut: exh}.After(rc, isReturn)
			good := okLoop && okMs && okStr && okPath && okH && in == nil && len(exh) > 0
			if good {
				c.OK(key+":expansion", p.Pos(rc.Pos()), "for every m in (Split(methods, \",\") trimmed ++ leading string handlers): Route(m, routePath, remaining handlers)", numInstrs(m))
			} else {
				c.Bad(key+":expansion", p.Pos(rc.Pos()), "Routes does not register every listed method with the given path and handlers", blockPath(path))
			}
		}
	} else {
		c.Anchor("router.Routes")
	}

	// ---- R7 Combo duplicate method
	c.Rule("R7", "E1 guard-cut", "ComboRoute registers a method only on the not-yet-added edge, records it, and panics on the already-added edge", 2)
	if m := p.Meth("flamego", "ComboRoute", "route"); m != nil {
		key := p.FuncKey(m)
		added := vField(vParam(m, 0), "added")
		member := p.vMember(added, vParam(m, 2))
		lk := len(edgesWhere(m, cBool(member), true)) > 0
		var reg ssa.Instruction
		allInstrs(m, func(in ssa.Instruction) {
			if ci, ok := in.(ssa.CallInstruction); ok && callName(ci.Common()) == "dynamic" && vParam(m, 1)(ci.Common().Value) {
				reg = in
			}
		})
		if !lk || reg == nil {
			c.Bad(key+":duplicate-method", p.FuncPos(m), "no lookup of the method in the added set guards the registration")
		} else {
			fresh := edgesWhere(m, cBool(member), false)
			dup := edgesWhere(m, cBool(member), true)
			ok, path := guardedBy(m, fresh, isInstr(reg))
			bad := false
			for e := range dup {
				if in, _ := (Query{Fn: m}).Reach(e.B.Succs[e.S], 0, func(in ssa.Instruction) bool { return isReturn(in) || in == reg }); in != nil {
					bad = true
				}
			}
			if ok && !bad && len(fresh) > 0 {
				c.OK(key+":duplicate-method", p.Pos(reg.Pos()), "registration only on the not-added edge; the added edge panics", numInstrs(m))
			} else {
				c.Bad(key+":duplicate-method", p.Pos(reg.Pos()), "Combo accepts the same method twice", path)
			}
			rec := false
			allInstrs(m, func(in ssa.Instruction) {
				if mu, ok := in.(*ssa.MapUpdate); ok && added(mu.Map) && vParam(m, 2)(mu.Key) {
					if ok2, _ := mustFollowOrPrecede(m, reg, in); ok2 {
						rec = true
					}
				}
			})
			c.Cond(rec, key+":records-method", p.Pos(reg.Pos()), "added[method] recorded on the registering path", "the registered method is not recorded: a second registration of it is not refused")
			// passes routePath and fresh concatenation
			a := reg.(ssa.CallInstruction).Common().Args
			c.Cond(vField(vParam(m, 0), "routePath")(a[0]), key+":path", p.Pos(reg.Pos()), "registers the combo's own path", "ComboRoute registers a different path")
			okCat := concatByCopy(m, a[1], vField(vParam(m, 0), "handlers"), vParam(m, 3), reg)
			if a2 := asCall(a[1]); a2 != nil && callName(&a2.Call) == "builtin.append" && vParam(m, 3)(a2.Call.Args[1]) {
				if a1 := asCall(a2.Call.Args[0]); a1 != nil && callName(&a1.Call) == "builtin.append" && vField(vParam(m, 0), "handlers")(a1.Call.Args[1]) && isFresh(a1.Call.Args[0]) {
					okCat = true
				}
			}
			c.Cond(okCat, key+":handlers", p.Pos(reg.Pos()), "handlers = append(append(fresh, common...), own...)", "ComboRoute's handler list is not (fresh slice, common handlers, method's own): "+vstr(a[1]))
		}
	} else {
		c.Anchor("ComboRoute.route")
	}
}

func isLocalAlloc(v ssa.Value) bool {
	_, ok := v.(*ssa.Alloc)
	return ok
}

// mustFollowOrPrecede: b is executed on every path that executes a (either order).
func mustFollowOrPrecede(fn *ssa.Function, a, b ssa.Instruction) (bool, string) {
	if ok, _ := mustPrecede(fn, isInstr(b), a); ok {
		return true, ""
	}
	return mustFollow(fn, a, isInstr(b))
}

// concatByCopy: v = make([]T, len(A)+len(B)); copy(v, A); copy(v[len(A):], B), both copies on
// every path to `before`, and nothing else stored into v.
func concatByCopy(fn *ssa.Function, v ssa.Value, A, B VM, before ssa.Instruction) bool {
	ms, ok := strip(v).(*ssa.MakeSlice)
	if !ok || !linSum(0, vLen(A), vLen(B))(linOf(ms.Len)) {
		return false
	}
	var c1, c2 ssa.Instruction
	other := false
	for _, r := range referrers(ms) {
		switch x := r.(type) {
		case ssa.CallInstruction:
			if callName(x.Common()) == "builtin.copy" && strip(x.Common().Args[0]) == ssa.Value(ms) && A(x.Common().Args[1]) {
				c1 = x
			}
		case *ssa.Slice:
			for _, r2 := range referrers(x) {
				if ci, isC := r2.(ssa.CallInstruction); isC && callName(ci.Common()) == "builtin.copy" && strip(ci.Common().Args[0]) == ssa.Value(x) && B(ci.Common().Args[1]) {
					if x.High == nil && x.Low != nil && linSum(0, vLen(A))(linOf(x.Low)) {
						c2 = ci
					}
				}
			}
		case *ssa.IndexAddr:
			other = true
		}
	}
	if c1 == nil || c2 == nil || other {
		return false
	}
	ok1, _ := mustPrecede(fn, isInstr(c1), before)
	ok2, _ := mustPrecede(fn, isInstr(c2), before)
	return ok1 && ok2
}

// fieldRoot returns the root value of a field read (nil when v is none).
func fieldRoot(v ssa.Value) ssa.Value {
	r, _, ok := fieldPath(v)
	if !ok {
		return nil
	}
	return r
}

// accLeaves visits the values a loop accumulator φ can take: its edges, looking through nested φs; the
// accumulator itself reached through a nested φ (an iteration that leaves it unchanged) is reported too.
func accLeaves(acc *ssa.Phi, f func(ssa.Value)) {
	seen := map[*ssa.Phi]bool{acc: true}
	var walk func(ph *ssa.Phi, top bool)
	walk = func(ph *ssa.Phi, top bool) {
		for _, e := range ph.Edges {
			e = strip(e)
			if e == ssa.Value(acc) {
				f(e)
				continue
			}
			if in, ok := e.(*ssa.Phi); ok {
				if !seen[in] {
					seen[in] = true
					walk(in, false)
				}
				continue
			}
			f(e)
		}
	}
	walk(acc, true)
}

// copyOf: v is a private copy of the slice A, complete before the instruction `before`:
// make([]T, len(A)) + copy(v, A), append(fresh-empty, A...), or slices.Clone(A). Handing v to a callee
// (element-wise wrapping) is not a write of the list structure; an indexed store here is.
func copyOf(fn *ssa.Function, v ssa.Value, A VM, before ssa.Instruction) bool {
	v = strip(v)
	if cl := asCall(v); cl != nil {
		switch callName(&cl.Call) {
		case "slices.Clone":
			return A(cl.Call.Args[0])
		case "builtin.append":
			return A(cl.Call.Args[1]) && isEmptyFreshSlice(cl.Call.Args[0])
		}
		return false
	}
	ms, ok := v.(*ssa.MakeSlice)
	if !ok || !linSum(0, vLen(A))(linOf(ms.Len)) {
		return false
	}
	var c1 ssa.Instruction
	n := 0
	for _, r := range referrers(ms) {
		switch x := r.(type) {
		case ssa.CallInstruction:
			if callName(x.Common()) == "builtin.copy" && strip(x.Common().Args[0]) == ssa.Value(ms) {
				n++
				if A(x.Common().Args[1]) {
					c1 = x
				}
			}
		case *ssa.IndexAddr, *ssa.Slice:
			return false
		}
	}
	if c1 == nil || n != 1 {
		return false
	}
	ok1, _ := mustPrecede(fn, isInstr(c1), before)
	return ok1
}
