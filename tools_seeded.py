#!/usr/bin/env python3
"""Confirm and evaluate an independently produced seeded change.

usage: tools_seeded.py <property> <srcdir> <id> [--demo-dir DIR]

 1. in a scratch worktree of /repo (under /tmp, removed afterwards): the patch applies and builds,
    the 358 baseline tests still pass, the demonstration FAILS with the patch and PASSES without it;
 2. the patch is applied to /repo itself, every check's quick command is run, and the patch is undone;
 3. patch, demonstration and meta.json are stored under /verif/seeded/<id>/.
"""
import json, os, subprocess, sys, shutil, re

ENV = dict(os.environ, GOFLAGS="-mod=mod", GOPROXY="off", GOSUMDB="off", GOTOOLCHAIN="local", GOWORK="off")
PROPS = ["C%02d" % i for i in range(1, 19)]


def sh(cmd, cwd=None, check=False):
    r = subprocess.run(cmd, shell=True, cwd=cwd, env=ENV, capture_output=True, text=True)
    if check and r.returncode != 0:
        raise SystemExit("FAILED: %s\n%s\n%s" % (cmd, r.stdout[-2000:], r.stderr[-2000:]))
    return r


def main():
    prop, src, sid = sys.argv[1], sys.argv[2], sys.argv[3]
    demo_dir = "."
    if "--demo-dir" in sys.argv:
        demo_dir = sys.argv[sys.argv.index("--demo-dir") + 1]
    race = "--race" in sys.argv
    patch = os.path.join(src, "patch.diff")
    demo = os.path.join(src, "demo_test.go")
    notes = open(os.path.join(src, "notes.txt")).read() if os.path.exists(os.path.join(src, "notes.txt")) else ""
    wt = "/tmp/sv_" + sid
    sh("git -C /repo worktree remove --force %s" % wt)
    sh("git -C /repo worktree add -q --detach %s HEAD" % wt, check=True)
    meta = {"id": sid, "property": prop, "source": "independent sub-agent given only the property text and a scratch worktree",
            "needs_to_manifest": notes.strip()[:1500]}
    try:
        demo_dst = os.path.join(wt, demo_dir, "zz_seed_demo_test.go")
        run_demo = "go test %s -count=1 -run TestSeed ./%s" % ("-race" if race else "", demo_dir)
        # without the patch: demo passes
        shutil.copy(demo, demo_dst)
        r0 = sh(run_demo, cwd=wt)
        meta["demo_passes_without_change"] = r0.returncode == 0
        os.remove(demo_dst)
        # with the patch
        sh("git apply %s" % patch, cwd=wt, check=True)
        b = sh("go build ./...", cwd=wt)
        meta["builds"] = b.returncode == 0
        bl = sh("python3 /verif/tools_baseline.py %s" % wt)
        meta["baseline_358_pass_with_change"] = bl.returncode == 0
        meta["baseline_output"] = bl.stdout.strip().splitlines()[-1] if bl.stdout.strip() else ""
        shutil.copy(demo, demo_dst)
        r1 = sh(run_demo, cwd=wt)
        meta["demo_fails_with_change"] = r1.returncode != 0
        meta["demo_cmd"] = run_demo
    finally:
        sh("git -C /repo worktree remove --force %s" % wt)
        sh("rm -rf %s" % wt)
    confirmed = meta.get("builds") and meta.get("baseline_358_pass_with_change") and meta.get("demo_fails_with_change") and meta.get("demo_passes_without_change")
    meta["confirmed"] = bool(confirmed)
    # run the checks against /repo with the patch applied
    fired = {}
    st = sh("git -C /repo status --porcelain")
    if st.stdout.strip():
        raise SystemExit("/repo is not clean")
    sh("git -C /repo apply %s" % patch, check=True)
    try:
        for p in PROPS:
            r = sh("./bin/flamecheck -property %s -tier quick -no-evidence" % p, cwd="/verif")
            rules = sorted(set(re.findall(r"rule=(C\d+\.\w+)", r.stdout)))
            if r.returncode != 0:
                fired[p] = {"exit": r.returncode, "rules": rules,
                            "first": next((l.strip() for l in r.stdout.splitlines() if l.strip().startswith("rule=")), "")[:400]}
    finally:
        sh("git -C /repo checkout -- .", check=True)
    meta["checks_fired"] = fired
    meta["detected_by_own_property_check"] = prop in fired
    meta["detected_by_any_check"] = bool(fired)
    out = "/verif/seeded/" + sid
    os.makedirs(out, exist_ok=True)
    shutil.copy(patch, os.path.join(out, "patch.diff"))
    shutil.copy(demo, os.path.join(out, "demo_test.go"))
    meta["what_was_run"] = [
        "scratch worktree of /repo HEAD under /tmp (removed): demo without patch (must pass), git apply patch, go build ./..., tools_baseline.py (358 baseline tests), demo with patch (must fail)",
        "git -C /repo apply patch.diff; bin/flamecheck -property Cxx -tier quick -no-evidence for all 18 properties; git -C /repo checkout -- .",
    ]
    meta["demo_dir"] = demo_dir
    json.dump(meta, open(os.path.join(out, "meta.json"), "w"), indent=1)
    print(sid, "confirmed" if confirmed else "NOT-CONFIRMED", "| own check:", "FIRED" if prop in fired else "silent", "| fired:", {k: v["rules"] for k, v in fired.items()})
    if not confirmed:
        print("  ", {k: meta.get(k) for k in ["builds", "baseline_358_pass_with_change", "demo_fails_with_change", "demo_passes_without_change", "baseline_output"]})


if __name__ == "__main__":
    main()
