package main

// The request-phase function set REQ: module functions reachable while a
// request is being served. Call edges: static callees, interface invokes
// resolved by class hierarchy within the module, function values referenced
// (closures, bound methods), function literals of included functions, and the
// declared reflection bridges (injector.Invoke → every FastInvoker.Invoke;
// handlers returned by the exported middleware constructors).

import (
	"go/types"
	"sort"

	"golang.org/x/tools/go/ssa"
)

func (p *Prog) inModule(f *ssa.Function) bool {
	if f == nil {
		return false
	}
	for f.Parent() != nil {
		f = f.Parent()
	}
	if f.Pkg == nil {
		// synthetic wrappers (bound methods, thunks) of module methods
		if f.Object() != nil && f.Object().Pkg() != nil {
			_, ok := pkgShort[f.Object().Pkg().Path()]
			return ok
		}
		return false
	}
	_, ok := pkgShort[f.Pkg.Pkg.Path()]
	return ok
}

// callees of one call within the module.
func (p *Prog) moduleCallees(c *ssa.CallCommon) []*ssa.Function {
	if c.IsInvoke() {
		iface, ok := c.Value.Type().Underlying().(*types.Interface)
		if !ok {
			return nil
		}
		return p.Implementations(iface, c.Method.Name())
	}
	if f := c.StaticCallee(); f != nil {
		if f.Synthetic != "" && f.Object() != nil {
			// bound method / thunk: resolve to the declared method
			if d := p.Prog.FuncValue(f.Object().(*types.Func)); d != nil {
				return []*ssa.Function{d}
			}
		}
		return []*ssa.Function{f}
	}
	return nil
}

// REQ computes (once) the request-phase function set.
func (p *Prog) REQ() map[*ssa.Function]bool {
	if p.req != nil {
		return p.req
	}
	req := map[*ssa.Function]bool{}
	var work []*ssa.Function
	add := func(f *ssa.Function) {
		if f == nil || req[f] || !p.inModule(f) || len(f.Blocks) == 0 {
			return
		}
		req[f] = true
		work = append(work, f)
	}
	// roots
	add(p.Meth("flamego", "Flame", "ServeHTTP"))
	add(p.Meth("flamego", "router", "ServeHTTP"))
	add(p.Meth("flamego", "router", "URLPath"))
	// bridge: router.contextCreator is a function-valued field set at construction time
	add(p.Meth("flamego", "Flame", "createContext"))
	add(p.Fn("flamego", "newContext"))
	perRequest := []string{"context", "responseWriter", "render", "Request", "RequestBody"}
	for _, fn := range p.Funcs() {
		if r := fn.Signature.Recv(); r != nil && fn.Parent() == nil && fn.Pkg == p.SSA["flamego"] {
			tn := namedName(derefT(r.Type()))
			for _, pr := range perRequest {
				if tn == pr {
					add(fn)
				}
			}
		}
	}
	if fi := p.Named("inject", "FastInvoker"); fi != nil {
		for _, f := range p.Implementations(fi.Underlying().(*types.Interface), "Invoke") {
			add(f)
		}
	}
	// request-scope injector methods
	for _, fn := range p.Funcs() {
		if r := fn.Signature.Recv(); r != nil && fn.Parent() == nil && namedName(derefT(r.Type())) == "injector" {
			add(fn)
		}
	}
	// handlers returned by exported middleware constructors: every function
	// literal nested in Logger, Recovery, Static, Renderer, defaultReturnHandler
	for _, name := range []string{"Logger", "Recovery", "Static", "Renderer", "defaultReturnHandler"} {
		if f := p.Fn("flamego", name); f != nil {
			for _, l := range withLits(f)[1:] {
				add(l)
			}
		}
	}
	// the chain closures created at registration (router.Route$1, NotFound$1) run at request time
	for _, name := range []string{"Route", "NotFound"} {
		if f := p.Meth("flamego", "router", name); f != nil {
			for _, l := range withLits(f)[1:] {
				add(l)
			}
		}
	}
	for len(work) > 0 {
		f := work[len(work)-1]
		work = work[:len(work)-1]
		for _, a := range f.AnonFuncs {
			add(a)
		}
		allInstrs(f, func(in ssa.Instruction) {
			if ci, ok := in.(ssa.CallInstruction); ok {
				for _, cal := range p.moduleCallees(ci.Common()) {
					add(cal)
				}
			}
			// function values referenced
			for _, op := range in.Operands(nil) {
				if op == nil || *op == nil {
					continue
				}
				switch x := (*op).(type) {
				case *ssa.Function:
					if x.Synthetic != "" && x.Object() != nil {
						if fo, ok := x.Object().(*types.Func); ok {
							add(p.Prog.FuncValue(fo))
						}
					}
					add(x)
				case *ssa.MakeClosure:
					if fn, ok := x.Fn.(*ssa.Function); ok {
						if fn.Synthetic != "" && fn.Object() != nil {
							if fo, ok := fn.Object().(*types.Func); ok {
								add(p.Prog.FuncValue(fo))
							}
						}
						add(fn)
					}
				}
			}
		})
	}
	p.req = req
	return req
}

// REQList returns REQ sorted by key.
func (p *Prog) REQList() []*ssa.Function {
	var out []*ssa.Function
	for f := range p.REQ() {
		if f.Synthetic != "" {
			continue // promotion wrappers / bound-method thunks: traversed, not analysed as source
		}
		out = append(out, f)
	}
	sort.Slice(out, func(i, j int) bool { return p.FuncKey(out[i]) < p.FuncKey(out[j]) })
	return out
}

// ReachFrom returns the module functions reachable from the roots over the same
// edges as REQ (static callees, invokes by class hierarchy, literals, function values).
func (p *Prog) ReachFrom(roots ...*ssa.Function) []*ssa.Function {
	seen := map[*ssa.Function]bool{}
	var work, out []*ssa.Function
	add := func(f *ssa.Function) {
		if f == nil || seen[f] || !p.inModule(f) || len(f.Blocks) == 0 {
			return
		}
		seen[f] = true
		work = append(work, f)
		if f.Synthetic == "" {
			out = append(out, f)
		}
	}
	for _, r := range roots {
		add(r)
	}
	for len(work) > 0 {
		f := work[len(work)-1]
		work = work[:len(work)-1]
		for _, a := range f.AnonFuncs {
			add(a)
		}
		allInstrs(f, func(in ssa.Instruction) {
			if ci, ok := in.(ssa.CallInstruction); ok {
				for _, cal := range p.moduleCallees(ci.Common()) {
					add(cal)
				}
			}
			for _, op := range in.Operands(nil) {
				if op == nil || *op == nil {
					continue
				}
				switch x := (*op).(type) {
				case *ssa.Function:
					add(x)
				case *ssa.MakeClosure:
					if fn, ok := x.Fn.(*ssa.Function); ok {
						add(fn)
					}
				}
			}
		})
	}
	sort.Slice(out, func(i, j int) bool { return p.FuncKey(out[i]) < p.FuncKey(out[j]) })
	return out
}
