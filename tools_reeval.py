#!/usr/bin/env python3
"""Re-runs all 18 quick checks against every stored seeded change, applied IN MEMORY (flamecheck -patch),
and updates meta.json (checks_fired, detected_by_own_property_check). /repo is not touched."""
import json, subprocess, re, glob, os, sys
from concurrent.futures import ThreadPoolExecutor
PROPS = ["C%02d" % i for i in range(1, 19)]
def run(args):
    d, p = args
    r = subprocess.run("./bin/flamecheck -patch %s/patch.diff -property %s -tier quick -no-evidence" % (d, p), shell=True, cwd="/verif", capture_output=True, text=True)
    if r.returncode != 0:
        return d, p, sorted(set(re.findall(r"rule=(C\d+\.\w+)", r.stdout)))
    return d, p, None
dirs = [os.path.dirname(f) for f in sorted(glob.glob('/verif/seeded/*/meta.json'))]
jobs = [(d, p) for d in dirs for p in PROPS]
res = {}
with ThreadPoolExecutor(max_workers=14) as ex:
    for d, p, fired in ex.map(run, jobs):
        if fired is not None:
            res.setdefault(d, {})[p] = fired
bad = 0
for d in dirs:
    f = d + '/meta.json'
    m = json.load(open(f))
    prop = m['property']
    fired = res.get(d, {})
    if 'checks_fired_first_version' not in m:
        old = m.get('checks_fired', {})
        m['checks_fired_first_version'] = {k: (v['rules'] if isinstance(v, dict) else v) for k, v in old.items()}
    m['checks_fired'] = fired
    m['detected_by_own_property_check'] = prop in fired
    m['detected_by_any_check'] = bool(fired)
    json.dump(m, open(f, 'w'), indent=1)
    if prop not in fired:
        bad += 1
        print(m['id'], 'own: SILENT', fired)
print('seeded changes:', len(dirs), 'own-check misses:', bad)
