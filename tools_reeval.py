#!/usr/bin/env python3
"""Re-runs all 18 quick checks against every stored seeded change (applied to /repo, then undone) and updates meta.json."""
import json, subprocess, re, glob, os, sys
PROPS = ["C%02d" % i for i in range(1, 19)]
st = subprocess.run("git -C /repo status --porcelain", shell=True, capture_output=True, text=True).stdout.strip()
if st:
    raise SystemExit("/repo not clean")
bad = 0
for f in sorted(glob.glob('/verif/seeded/*/meta.json')):
    d = os.path.dirname(f)
    m = json.load(open(f))
    prop = m['property']
    subprocess.run("git -C /repo apply %s/patch.diff" % d, shell=True, check=True)
    fired = {}
    try:
        for p in PROPS:
            r = subprocess.run("./bin/flamecheck -property %s -tier quick -no-evidence" % p, shell=True, cwd="/verif", capture_output=True, text=True)
            if r.returncode != 0:
                fired[p] = sorted(set(re.findall(r"rule=(C\d+\.\w+)", r.stdout)))
    finally:
        subprocess.run("git -C /repo checkout -- .", shell=True, check=True)
    if 'checks_fired_first_version' not in m:
        old = m.get('checks_fired', {})
        m['checks_fired_first_version'] = {k: (v['rules'] if isinstance(v, dict) else v) for k, v in old.items()}
    m['checks_fired'] = fired
    m['detected_by_own_property_check'] = prop in fired
    m['detected_by_any_check'] = bool(fired)
    json.dump(m, open(f, 'w'), indent=1)
    if prop not in fired:
        bad += 1
    print(m['id'], 'own:', 'FIRED' if prop in fired else 'SILENT', fired if prop not in fired else ','.join(fired[prop]))
print('own-check misses:', bad)
