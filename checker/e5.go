package main

// Engine E5: effect / ownership analysis. Type-based ownership (no pointer
// analysis is available): every store, map update, delete and append in a
// function set is attributed to the named struct type that contains the
// written location (or to a global / captured variable) and classified.

import (
	"fmt"
	"go/ast"
	"go/importer"
	"go/parser"
	"go/token"
	"go/types"
	"strings"

	"golang.org/x/tools/go/ssa"
	"golang.org/x/tools/go/ssa/ssautil"
)

type effectFinding struct {
	Fn    *ssa.Function
	Instr ssa.Instruction
	Kind  string // shared-store | shared-map-write | global-write | captured-write | append-hazard | escape
	What  string
}

type effectConfig struct {
	// classify returns "shared", "request", "dual" or "" (not a module type).
	classify func(n *types.Named) string
	// setupCaptured reports whether a function literal was created outside the analysed phase
	// (its free variables are long-lived).
	setupCaptured func(lit *ssa.Function) bool
	// isRequestValueType: values of this type must not be stored into shared objects.
	isRequestValueType func(t types.Type) bool
	// resolve returns the module callees of a call (static, or interface invoke by class hierarchy);
	// nil: calls are opaque.
	resolve func(c *ssa.CallCommon) []*ssa.Function
}

// originLeaves visits the values v may stand for: φ-leaves, and for a call of a module function
// the values that function returns at that position (bounded depth), so a slice handed out by
// a getter or a memoising helper is traced back to the storage it was read from.
func originLeaves(v ssa.Value, cfg effectConfig, depth int, seen map[ssa.Value]bool, visit func(ssa.Value)) {
	phiLeaves(v, func(l ssa.Value) {
		if seen[l] {
			return
		}
		seen[l] = true
		visit(l)
		if depth <= 0 || cfg.resolve == nil {
			return
		}
		idx := 0
		cv := strip(l)
		if e, ok := cv.(*ssa.Extract); ok {
			idx = e.Index
			cv = strip(e.Tuple)
		}
		call, ok := cv.(*ssa.Call)
		if !ok {
			return
		}
		for _, cal := range cfg.resolve(&call.Call) {
			allInstrs(cal, func(in ssa.Instruction) {
				if r, ok := in.(*ssa.Return); ok && idx < len(r.Results) {
					originLeaves(r.Results[idx], cfg, depth-1, seen, visit)
				}
			})
		}
	})
}

// ownerOfValue finds the named struct type from a field of which value v was loaded
// (through lookups, index operations and slices); global reports a package-level variable.
func ownerOfValue(v ssa.Value) (owner *types.Named, global *ssa.Global, free *ssa.FreeVar) {
	cur := v
	for i := 0; i < 32; i++ {
		switch x := cur.(type) {
		case *ssa.ChangeType:
			cur = x.X
		case *ssa.MakeInterface:
			cur = x.X
		case *ssa.Lookup:
			cur = x.X
		case *ssa.Index:
			cur = x.X
		case *ssa.IndexAddr:
			cur = x.X
		case *ssa.Slice:
			cur = x.X
		case *ssa.Extract:
			cur = x.Tuple
		case *ssa.Field:
			if n, ok := x.X.Type().(*types.Named); ok {
				return n, nil, nil
			}
			cur = x.X
		case *ssa.FieldAddr:
			if n, ok := derefT(x.X.Type()).(*types.Named); ok {
				return n, nil, nil
			}
			cur = x.X
		case *ssa.UnOp:
			if x.Op != token.MUL {
				return nil, nil, nil
			}
			cur = x.X
		case *ssa.Global:
			return nil, x, nil
		case *ssa.FreeVar:
			return nil, nil, x
		default:
			return nil, nil, nil
		}
	}
	return nil, nil, nil
}

// onceLiteral reports whether lit is used only as the argument of
// (*sync.Once).Do on a sync.Once field, and returns the object owning that field.
func onceLiteral(lit *ssa.Function) (owner ssa.Value, ok bool) {
	par := lit.Parent()
	if par == nil {
		return nil, false
	}
	n := 0
	allInstrs(par, func(in ssa.Instruction) {
		mc, isMC := in.(*ssa.MakeClosure)
		if !isMC || mc.Fn != lit {
			return
		}
		for _, r := range referrers(mc) {
			ci, isCall := r.(ssa.CallInstruction)
			if !isCall || callName(ci.Common()) != "(*sync.Once).Do" {
				n = -100
				continue
			}
			fa, isFA := strip(ci.Common().Args[0]).(*ssa.FieldAddr)
			if !isFA {
				n = -100
				continue
			}
			owner = strip(fa.X)
			n++
		}
	})
	return owner, n == 1
}

func runEffects(fns []*ssa.Function, cfg effectConfig) []effectFinding {
	var out []effectFinding
	// counters: fields of shared objects bumped by an atomic Add whose result is discarded are
	// tolerated as write-only metrics; reading one in the analysed (request-phase) functions
	// makes requests observe each other
	bumped := map[*types.Var]ssa.Instruction{}
	for _, fn := range fns {
		allInstrs(fn, func(in ssa.Instruction) {
			ci, ok := in.(ssa.CallInstruction)
			if !ok || len(ci.Common().Args) == 0 {
				return
			}
			if n := callName(ci.Common()); isContainerMutator(n) && isPureCounterBump(ci, n) {
				if f := fieldOf(strip(ci.Common().Args[0])); f != nil {
					if o, g, _ := ownerOfValue(ci.Common().Args[0]); (o != nil && cfg.classify(o) == "shared") || g != nil {
						bumped[f] = in
					}
				}
			}
		})
	}
	if len(bumped) > 0 {
		for _, fn := range fns {
			allInstrs(fn, func(in ssa.Instruction) {
				ci, ok := in.(ssa.CallInstruction)
				if !ok || len(ci.Common().Args) == 0 {
					return
				}
				n := callName(ci.Common())
				isRead := strings.HasPrefix(n, "sync/atomic.Load") || (strings.HasPrefix(n, "(*sync/atomic.") && strings.HasSuffix(n, ").Load"))
				if !isRead {
					return
				}
				if f := fieldOf(strip(ci.Common().Args[0])); f != nil && bumped[f] != nil {
					out = append(out, effectFinding{fn, in, "shared-store", "counter " + f.Name() + " is bumped by every request and read here while serving one: requests observe each other"})
				}
			})
			// plain (non-atomic) reads of the counter field
			allInstrs(fn, func(in ssa.Instruction) {
				u, ok := in.(*ssa.UnOp)
				if !ok || u.Op != token.MUL {
					return
				}
				if f := fieldOf(u.X); f != nil && bumped[f] != nil {
					if _, isBasic := f.Type().Underlying().(*types.Basic); isBasic {
						out = append(out, effectFinding{fn, in, "shared-store", "counter " + f.Name() + " is bumped atomically by every request but read non-atomically here"})
					}
				}
			})
		}
	}
	for _, fn := range fns {
		onceOwner, inOnce := onceLiteral(fn)
		inCapturedOnce := capturedOnceLiteral(fn, cfg)
		sameAsOnceOwner := func(addr ssa.Value) bool {
			if !inOnce {
				return false
			}
			// the written object is the one that owns the Once (both reached through the same captured variable)
			cur := addr
			for i := 0; i < 16; i++ {
				switch x := cur.(type) {
				case *ssa.FieldAddr:
					if strip(x.X) == onceOwner || sameCaptured(strip(x.X), onceOwner) {
						return true
					}
					cur = x.X
				case *ssa.UnOp:
					cur = x.X
				case *ssa.IndexAddr:
					cur = x.X
				default:
					return false
				}
			}
			return false
		}
		allInstrs(fn, func(in ssa.Instruction) {
			switch x := in.(type) {
			case *ssa.Store:
				root, _ := addrRoot(x.Addr)
				if _, isAlloc := root.(*ssa.Alloc); isAlloc && fieldOrElemOfLocal(x.Addr) {
					// initialisation of an object allocated in this activation
					checkEscape(&out, fn, in, x.Val, nil, cfg)
					return
				}
				if fv := rawFreeVarRoot(x.Addr); fv != nil && fn.Parent() != nil && longLivedCapture(fv, cfg) && !inOnce && !(inCapturedOnce && !derivesFromRequest(x.Val, cfg)) {
					if _, direct := x.Addr.(*ssa.FreeVar); !direct {
					// whatever its type, an object reached through a variable captured when the handler was
					// constructed is shared by all requests
						out = append(out, effectFinding{fn, in, "captured-write", "store into an object reached through " + fv.Name() + ", a variable captured when the handler was constructed (one object shared by all requests)"})
						return
					}
				}
				owner := ownerNamed(x.Addr)
				if owner != nil {
					switch cfg.classify(owner) {
					case "shared":
						if sameAsOnceOwner(x.Addr) {
							return
						}
						out = append(out, effectFinding{fn, in, "shared-store", "store to field of shared type " + owner.Obj().Name()})
						checkEscape(&out, fn, in, x.Val, owner, cfg)
					}
					return
				}
				switch r := root.(type) {
				case *ssa.Global:
					out = append(out, effectFinding{fn, in, "global-write", "store to package-level variable " + r.Name()})
				case *ssa.FreeVar:
					if fn.Parent() != nil && longLivedCapture(r, cfg) && !inOnce && !(inCapturedOnce && !derivesFromRequest(x.Val, cfg)) {
						out = append(out, effectFinding{fn, in, "captured-write", "store through variable " + r.Name() + " captured when the handler was constructed (shared by all requests)"})
					}
				}
			case *ssa.MapUpdate:
				reportMapWrite(&out, fn, in, x.Map, cfg, inOnce)
				// a slice read from shared state handed to a per-request or foreign container: whoever
				// appends to the entry writes the shared backing array
				if _, isSlice := x.Value.Type().Underlying().(*types.Slice); isSlice {
					if o, g, _ := ownerOfValue(x.Map); g == nil && (o == nil || cfg.classify(o) != "shared") {
						src := ""
						originLeaves(x.Value, cfg, 4, map[ssa.Value]bool{}, func(l ssa.Value) {
							if _, isCall := strip(l).(*ssa.Call); isCall {
								return
							}
							if _, isSl := strip(l).(*ssa.Slice); isSl {
								return
							}
							if lo, lg, _ := ownerOfValue(l); lo != nil && cfg.classify(lo) == "shared" {
								src = "shared type " + lo.Obj().Name()
							} else if lg != nil {
								src = "package-level variable " + lg.Name()
							}
						})
						if src != "" {
							out = append(out, effectFinding{fn, in, "append-hazard", "a slice read from " + src + " is stored as-is into a per-request container (" + shortName(x.Map.Type().String()) + "): appending to that entry writes the shared backing array"})
						}
					}
				}
			case ssa.CallInstruction:
				if n := callName(x.Common()); isContainerMutator(n) && len(x.Common().Args) > 0 && !isPureCounterBump(x, n) {
					recv := x.Common().Args[0]
					o, g, _ := ownerOfValue(recv)
					fv := rawFreeVarRoot(recv)
					switch {
					case o != nil && cfg.classify(o) == "shared":
						out = append(out, effectFinding{fn, in, "shared-store", n + " on a container held by shared type " + o.Obj().Name()})
					case g != nil:
						out = append(out, effectFinding{fn, in, "global-write", n + " on package-level " + g.Name()})
					case fv != nil && fn.Parent() != nil && longLivedCapture(fv, cfg) && !inOnce:
						out = append(out, effectFinding{fn, in, "captured-write", n + " on " + fv.Name() + ", captured when the handler was constructed (state shared by all requests)"})
					}
				}
				switch callName(x.Common()) {
				case "builtin.delete":
					reportMapWrite(&out, fn, in, x.Common().Args[0], cfg, inOnce)
				case "builtin.append":
					call, isCall := x.(*ssa.Call)
					if !isCall {
						return
					}
					base := x.Common().Args[0]
					hazard := ""
					originLeaves(base, cfg, 4, map[ssa.Value]bool{}, func(l ssa.Value) {
						o, g, fv := ownerOfValue(l)
						switch {
						case o != nil && cfg.classify(o) == "shared":
							hazard = "slice read from shared type " + o.Obj().Name()
						case g != nil:
							hazard = "slice read from package-level variable " + g.Name()
						case fv != nil && fn.Parent() != nil && cfg.setupCaptured(fn):
							hazard = "slice captured at construction time (" + fv.Name() + ")"
						}
					})
					if hazard != "" {
						_ = call
						out = append(out, effectFinding{fn, in, "append-hazard", "append onto a " + hazard + ": concurrent requests write the same spare capacity"})
					}
				}
			}
		})
	}
	return out
}

func sameCaptured(a, b ssa.Value) bool {
	la, ok1 := a.(*ssa.UnOp)
	lb, ok2 := b.(*ssa.UnOp)
	return ok1 && ok2 && la.X == lb.X
}

// fieldOrElemOfLocal: the address is the local allocation itself or a field /
// element inside it (not something reached through a pointer stored in it).
func fieldOrElemOfLocal(a ssa.Value) bool {
	cur := a
	for i := 0; i < 32; i++ {
		switch x := cur.(type) {
		case *ssa.Alloc:
			return true
		case *ssa.FieldAddr:
			cur = x.X
		case *ssa.IndexAddr:
			// element of a local array only
			if _, isArr := derefT(x.X.Type()).Underlying().(*types.Array); !isArr {
				return false
			}
			cur = x.X
		default:
			return false
		}
	}
	return false
}

func reportMapWrite(out *[]effectFinding, fn *ssa.Function, in ssa.Instruction, m ssa.Value, cfg effectConfig, inOnce bool) {
	o, g, fv := ownerOfValue(m)
	switch {
	case o != nil && cfg.classify(o) == "shared":
		*out = append(*out, effectFinding{fn, in, "shared-map-write", "write to a map held by shared type " + o.Obj().Name()})
	case g != nil:
		*out = append(*out, effectFinding{fn, in, "global-write", "write to package-level map " + g.Name()})
	case fv != nil && fn.Parent() != nil && longLivedCapture(fv, cfg) && !inOnce:
		*out = append(*out, effectFinding{fn, in, "captured-write", "write to map " + fv.Name() + " captured when the handler was constructed (shared by all requests)"})
	}
}

func checkEscape(out *[]effectFinding, fn *ssa.Function, in ssa.Instruction, val ssa.Value, owner *types.Named, cfg effectConfig) {
	if owner == nil || cfg.isRequestValueType == nil {
		return
	}
	if cfg.isRequestValueType(val.Type()) {
		*out = append(*out, effectFinding{fn, in, "escape", "a per-request object (" + shortName(val.Type().String()) + ") is stored into shared type " + owner.Obj().Name()})
	}
}

// ------------------------------------------------------------ positive controls

const effectControlSrc = `package ctl

import "sync"

type shared struct {
	xs    []int
	m     map[string]int
	last  *perreq
	count int
}
type perreq struct{ n int }

var global int
var table = map[string]int{}

func writeShared(s *shared)            { s.count++ }
func mapWriteShared(s *shared)         { s.m["k"] = 1 }
func deleteShared(s *shared)           { delete(s.m, "k") }
func appendShared(s *shared) []int     { return append(s.xs, 1) }
func escape(s *shared, p *perreq)      { s.last = p }
func globalWrite()                     { global = 1 }
func globalMapWrite()                  { table["k"] = 1 }
func okLocal() *shared                 { s := &shared{}; s.count = 1; return s }
func okRequest(p *perreq)              { p.n = 2 }
func makeHandler() func() {
	cache := map[string]int{}
	return func() { cache["k"]++ }
}
func makeCache() func(k string) {
	var m sync.Map
	return func(k string) { m.Store(k, 1) }
}
func makeRenderer() func(n int) *perreq {
	r := &perreq{}
	return func(n int) *perreq { r.n = n; return r }
}
`

// effectControls runs the engine on an in-memory fixture; every listed
// function must produce (or not produce) a finding.
func effectControls() (fired []string, err error) {
	fset := token.NewFileSet()
	f, err := parser.ParseFile(fset, "ctl.go", effectControlSrc, 0)
	if err != nil {
		return nil, err
	}
	pkg := types.NewPackage("ctl", "ctl")
	spkg, _, err := ssautil.BuildPackage(&types.Config{Importer: importer.Default()}, fset, pkg, []*ast.File{f}, ssa.InstantiateGenerics)
	if err != nil {
		return nil, err
	}
	var fns []*ssa.Function
	for _, m := range spkg.Members {
		if fn, ok := m.(*ssa.Function); ok {
			fns = append(fns, withLits(fn)...)
		}
	}
	cfg := effectConfig{
		classify: func(n *types.Named) string {
			switch n.Obj().Name() {
			case "shared":
				return "shared"
			case "perreq":
				return "request"
			}
			return ""
		},
		setupCaptured:      func(lit *ssa.Function) bool { return true },
		isRequestValueType: func(t types.Type) bool { return strings.Contains(t.String(), "perreq") },
	}
	got := map[string][]string{}
	for _, fd := range runEffects(fns, cfg) {
		name := fd.Fn.Name()
		got[name] = append(got[name], fd.Kind)
	}
	want := map[string]string{
		"writeShared": "shared-store", "mapWriteShared": "shared-map-write", "deleteShared": "shared-map-write",
		"appendShared": "append-hazard", "escape": "escape", "globalWrite": "global-write", "globalMapWrite": "global-write",
		"makeHandler$1": "captured-write", "makeRenderer$1": "captured-write", "makeCache$1": "captured-write",
	}
	for fn, kind := range want {
		ok := false
		for _, k := range got[fn] {
			if k == kind {
				ok = true
			}
		}
		if !ok {
			return fired, fmt.Errorf("positive control %s did not produce %s (got %v)", fn, kind, got[fn])
		}
		fired = append(fired, "E5:"+fn+"→"+kind)
	}
	for _, fn := range []string{"okLocal", "okRequest"} {
		if len(got[fn]) > 0 {
			return fired, fmt.Errorf("negative control %s produced %v", fn, got[fn])
		}
		fired = append(fired, "E5:"+fn+"→silent")
	}
	return fired, nil
}

// rawFreeVarRoot walks an address expression without seeing through variable
// cells and returns the captured variable it is reached through, if any.
func rawFreeVarRoot(a ssa.Value) *ssa.FreeVar {
	cur := a
	for i := 0; i < 32; i++ {
		switch x := cur.(type) {
		case *ssa.FreeVar:
			return x
		case *ssa.FieldAddr:
			cur = x.X
		case *ssa.IndexAddr:
			cur = x.X
		case *ssa.UnOp:
			if x.Op != token.MUL {
				return nil
			}
			cur = x.X
		case *ssa.ChangeType:
			cur = x.X
		default:
			return nil
		}
	}
	return nil
}

// isContainerMutator: methods of standard containers that modify the receiver.
func isContainerMutator(name string) bool {
	switch name {
	case "(*sync.Map).Store", "(*sync.Map).LoadOrStore", "(*sync.Map).Delete", "(*sync.Map).LoadAndDelete", "(*sync.Map).Swap", "(*sync.Map).CompareAndSwap", "(*sync.Map).CompareAndDelete", "(*sync.Map).Range",
		"(*sync.Pool).Put", "(*sync.Pool).Get",
		"(*sync/atomic.Value).Store", "(*sync/atomic.Value).Swap", "(*sync/atomic.Value).CompareAndSwap",
		"(*container/list.List).PushBack", "(*container/list.List).PushFront", "(*container/list.List).Remove", "(*container/list.List).MoveToFront":
		return true
	}
	if strings.HasPrefix(name, "(*sync/atomic.") && (strings.HasSuffix(name, ").Store") || strings.HasSuffix(name, ").Add") || strings.HasSuffix(name, ").Swap") || strings.HasSuffix(name, ").CompareAndSwap")) {
		return true
	}
	return false
}

// isPureCounterBump: atomic Add whose result is discarded (a metrics counter): race-free,
// and nothing in this request can observe what other requests did to it.
func isPureCounterBump(ci ssa.CallInstruction, name string) bool {
	if !strings.HasPrefix(name, "(*sync/atomic.") || !strings.HasSuffix(name, ").Add") {
		if !(strings.HasPrefix(name, "sync/atomic.Add")) {
			return false
		}
	}
	v, ok := ci.(ssa.Value)
	if !ok {
		return true
	}
	return len(referrers(v)) == 0
}

// longLivedCapture: the free variable (possibly of a literal nested in a request-phase literal) is bound,
// through the chain of enclosing literals, to a variable of a function that is NOT part of the analysed
// phase: it was captured when the handler was constructed and is shared by all requests.
func longLivedCapture(fv *ssa.FreeVar, cfg effectConfig) bool {
	cur := fv
	for i := 0; i < 8 && cur != nil; i++ {
		lit := cur.Parent()
		if lit == nil || lit.Parent() == nil {
			return false
		}
		if cfg.setupCaptured(lit) {
			return true
		}
		b := freeVarBinding(cur)
		next, isFV := b.(*ssa.FreeVar)
		if !isFV {
			return false // bound to a variable of a request-phase function: per request
		}
		cur = next
	}
	return false
}

// capturedOnceLiteral: lit is used only as the argument of (*sync.Once).Do on a Once that is a long-lived
// captured variable (a lazily initialised value of a middleware instance).
func capturedOnceLiteral(lit *ssa.Function, cfg effectConfig) bool {
	par := lit.Parent()
	if par == nil {
		return false
	}
	n := 0
	allInstrs(par, func(in ssa.Instruction) {
		mc, isMC := in.(*ssa.MakeClosure)
		if !isMC || mc.Fn != lit {
			return
		}
		for _, r := range referrers(mc) {
			ci, isCall := r.(ssa.CallInstruction)
			if !isCall || callName(ci.Common()) != "(*sync.Once).Do" {
				n = -100
				continue
			}
			fv, isFV := strip(ci.Common().Args[0]).(*ssa.FreeVar)
			if !isFV || !longLivedCapture(fv, cfg) {
				n = -100
				continue
			}
			n++
		}
	})
	return n == 1
}

// derivesFromRequest: v is computed from a parameter of a request-phase function literal (the values the
// injector hands a handler), directly or through captured variables, loads, calls and conversions.
func derivesFromRequest(v ssa.Value, cfg effectConfig) bool {
	seen := map[ssa.Value]bool{}
	var rec func(v ssa.Value, d int) bool
	rec = func(v ssa.Value, d int) bool {
		if v == nil || d > 10 || seen[v] {
			return false
		}
		seen[v] = true
		switch x := v.(type) {
		case *ssa.Parameter:
			// a parameter of a function literal on the way to the store: what the injector hands the handler
			f := x.Parent()
			return f != nil && f.Parent() != nil
		case *ssa.FreeVar:
			return rec(freeVarBinding(x), d+1)
		case *ssa.Alloc:
			for _, st := range cellStores(x, 0) {
				if rec(st.Val, d+1) {
					return true
				}
			}
			return false
		case *ssa.Const, *ssa.Global, *ssa.Function:
			return false
		case ssa.Instruction:
			for _, op := range x.Operands(nil) {
				if op != nil && *op != nil && rec(*op, d+1) {
					return true
				}
			}
		}
		return false
	}
	return rec(v, 0)
}

