package main

// Engine E8: index safety. The Go compiler's prove pass is used as a static
// analysis oracle: positions it lists as "Found IsInBounds/IsSliceInBounds"
// (built with inlining disabled so that every position is in module code) are
// the only index/slice operations that still need an argument; all others are
// compiler-proven.

import (
	"encoding/json"
	"fmt"
	"go/token"
	"os"
	"os/exec"
	"path/filepath"
	"regexp"
	"sort"
	"strings"

	"golang.org/x/tools/go/ssa"
)

var bceLine = regexp.MustCompile(`^(\S+\.go):(\d+):(\d+): Found (IsInBounds|IsSliceInBounds)`)

// Unproven returns "rel/file.go:line:col" -> kind for every bounds check the
// compiler could not remove in module code.
func (p *Prog) Unproven() (map[string]string, error) {
	if p.unproven != nil {
		return p.unproven, nil
	}
	args := []string{"build", "-gcflags=" + modPath + "/...=-l -d=ssa/check_bce/debug=1"}
	var tmp string
	if len(p.Overlay) > 0 {
		var err error
		tmp, err = os.MkdirTemp("", "flamecheck-ov")
		if err != nil {
			return nil, err
		}
		defer os.RemoveAll(tmp)
		repl := map[string]string{}
		i := 0
		for f, b := range p.Overlay {
			i++
			tf := filepath.Join(tmp, fmt.Sprintf("f%d.go", i))
			if err := os.WriteFile(tf, b, 0o644); err != nil {
				return nil, err
			}
			repl[f] = tf
		}
		jb, _ := json.Marshal(map[string]interface{}{"Replace": repl})
		of := filepath.Join(tmp, "overlay.json")
		if err := os.WriteFile(of, jb, 0o644); err != nil {
			return nil, err
		}
		args = append(args, "-overlay", of)
	}
	args = append(args, "./...")
	cmd := exec.Command("go", args...)
	cmd.Dir = p.Repo
	var extra []string
	if p.GOARCH != "" {
		extra = append(extra, "GOARCH="+p.GOARCH, "CGO_ENABLED=0")
	}
	cmd.Env = goEnv(extra...)
	out, err := cmd.CombinedOutput()
	if err != nil {
		return nil, fmt.Errorf("go build (prove pass listing) failed: %v: %s", err, string(out))
	}
	res := map[string]string{}
	for _, line := range strings.Split(string(out), "\n") {
		m := bceLine.FindStringSubmatch(strings.TrimSpace(line))
		if m == nil {
			continue
		}
		f := m[1]
		if filepath.IsAbs(f) {
			rel, err := filepath.Rel(p.Repo, f)
			if err != nil || strings.HasPrefix(rel, "..") {
				continue // dependency code
			}
			f = rel
		}
		f = strings.TrimPrefix(f, "./")
		// overlay temp files are reported under their replaced names by the go command
		res[fmt.Sprintf("%s:%s:%s", f, m[2], m[3])] = m[4]
	}
	if len(res) == 0 {
		return nil, fmt.Errorf("prove-pass listing is empty: the oracle did not run (output: %.200s)", string(out))
	}
	p.unproven = res
	return res, nil
}

// posKey renders pos as rel/file.go:line:col.
func (p *Prog) posKey(pos token.Pos) string {
	ps := p.Fset.Position(pos)
	rel, err := filepath.Rel(p.Repo, ps.Filename)
	if err != nil {
		rel = ps.Filename
	}
	return fmt.Sprintf("%s:%d:%d", rel, ps.Line, ps.Column)
}

type IndexSite struct {
	Fn       *ssa.Function
	Instr    ssa.Instruction
	Kind     string // index | slice
	Unproven bool
}

// IndexSites lists every index/slice operation of the given functions with the
// compiler's verdict.
func (p *Prog) IndexSites(fns []*ssa.Function) ([]IndexSite, error) {
	up, err := p.Unproven()
	if err != nil {
		return nil, err
	}
	used := map[string]bool{}
	var out []IndexSite
	for _, fn := range fns {
		allInstrs(fn, func(in ssa.Instruction) {
			kind := ""
			switch x := in.(type) {
			case *ssa.IndexAddr:
				kind = "index"
				// indexing a fixed-size array with a constant is a compile-time check
				_ = x
			case *ssa.Index:
				kind = "index"
			case *ssa.Slice:
				kind = "slice"
			case *ssa.Lookup:
				if _, isMap := x.X.Type().Underlying().(interface{ Key() interface{} }); isMap {
					return
				}
				if strings.HasPrefix(x.X.Type().Underlying().String(), "map[") {
					return
				}
				kind = "index"
			default:
				return
			}
			if !in.Pos().IsValid() {
				return
			}
			k := p.posKey(in.Pos())
			_, un := up[k]
			if un {
				used[k] = true
			}
			out = append(out, IndexSite{Fn: fn, Instr: in, Kind: kind, Unproven: un})
		})
	}
	sort.Slice(out, func(i, j int) bool { return out[i].Instr.Pos() < out[j].Instr.Pos() })
	return out, nil
}
