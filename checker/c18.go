package main

// C18 Request accessors are total and cookies round-trip byte for byte.

import (
	"fmt"
	"go/token"
	"strings"

	"golang.org/x/tools/go/ssa"
)

func init() { register("C18", checkC18) }

var accessorNames = []string{"Params", "Param", "ParamInt", "ParamInt64", "Query", "QueryTrim", "QueryStrings", "QueryUnescape", "QueryBool", "QueryInt", "QueryInt64", "QueryFloat64", "SetCookie", "Cookie"}

func checkC18(c *Check) {
	p := c.P
	c.Explain = "totality of the accessor methods (compiler prove pass for index safety, no unchecked assertion / explicit panic, callees limited to a table of total functions), sibling agreement of the default rule, the parse-function table, and the escape/unescape pairing of cookies"
	c.NotDec = []string{"that url.QueryEscape output survives net/http's cookie sanitiser byte for byte (standard-library behaviour)", "numeric parsing semantics of strconv"}
	c.Trusted = []string{"strconv, net/url, net/http accessors listed in the callee table do not panic", "Go compiler prove pass"}

	var fns []*ssa.Function
	byName := map[string]*ssa.Function{}
	for _, n := range accessorNames {
		m := p.Meth("flamego", "context", n)
		if m == nil {
			c.Rule("R1", "E8 + E5", "anchors", 1)
			c.Anchor("context." + n)
			continue
		}
		fns = append(fns, m)
		byName[n] = m
	}

	// ---- R1 totality
	c.Rule("R1", "E8 + E5", "accessors: every index operation is compiler-proven, no unchecked type assertion, no explicit panic, only total callees", 14)
	sites, err := p.IndexSites(fns)
	if err != nil {
		c.Bad("accessors:prove-pass", "?", err.Error())
	}
	// the accessors dereference the wrapped *http.Request unconditionally: every Request wrapper that is built
	// holds the constructor's own parameter (net/http's request) or a value tested against nil — a value taken
	// from the injector may be a typed nil
	{
		n := 0
		for _, fn := range p.Funcs() {
			if fn.Pkg != p.SSA["flamego"] {
				continue
			}
			allInstrs(fn, func(in ssa.Instruction) {
				st, isSt := in.(*ssa.Store)
				if !isSt {
					return
				}
				fa, isFA := st.Addr.(*ssa.FieldAddr)
				if !isFA || namedName(derefT(fa.X.Type())) != "Request" || fieldOf(fa) == nil || fieldOf(fa).Name() != "Request" || !fieldOf(fa).Embedded() {
					return
				}
				n++
				key := p.FuncKey(fn) + ":wrapped-request"
				if _, isParam := strip(st.Val).(*ssa.Parameter); isParam {
					c.OK(key, p.Pos(st.Pos()), "the wrapper holds the constructor's own request parameter", 1)
					return
				}
				nonNil := edgesWhere(fn, cCmp(token.EQL, vIs(st.Val), vNil), false)
				if g, _ := guardedBy(fn, nonNil, isInstr(st)); g && len(nonNil) > 0 {
					c.OK(key, p.Pos(st.Pos()), "the wrapped request is tested against nil before it is stored", 1)
					return
				}
				c.Bad(key, p.Pos(st.Pos()), "a Request wrapper is built around a value that may be nil (e.g. a typed nil taken from the injector): every Query*/Cookie accessor dereferences it and panics")
			})
		}
		if n == 0 {
			c.Undecided("flamego.Request:wrapped-request", "request.go", "no construction of the Request wrapper found")
		}
	}
	unp := map[*ssa.Function]int{}
	tot := map[*ssa.Function]int{}
	for _, s := range sites {
		tot[s.Fn]++
		if s.Unproven {
			unp[s.Fn]++
			c.Bad(p.FuncKey(s.Fn)+":index", p.Pos(s.Instr.Pos()), "index/slice operation the compiler cannot prove in bounds: an accessor can panic on some request data")
		}
	}
	total := map[string]bool{
		"strconv.Atoi": true, "strconv.ParseInt": true, "strconv.ParseBool": true, "strconv.ParseFloat": true,
		"(net/url.Values).Get": true, "(*net/url.URL).Query": true, "net/url.QueryUnescape": true, "net/url.QueryEscape": true,
		"strings.TrimSpace": true, "(*net/http.Request).Cookie": true, "(*net/http.Cookie).String": true,
		"(net/http.Header).Add": true, "(net/http.Header).Set": true, "builtin.len": true, "builtin.append": true,
		"(net/http.ResponseWriter).Header": true,
		// never panic for any argument: errors.Is/As on a strconv error, url.ParseQuery (what URL.Query() calls)
		"errors.Is": true, "errors.As": true, "net/url.ParseQuery": true,
		// http.SetCookie(w, c): w.Header().Add("Set-Cookie", c.String()) unless the rendering is empty (invalid name)
		"net/http.SetCookie": true,
	}
	for _, fn := range fns {
		key := p.FuncKey(fn)
		bad := false
		allInstrs(fn, func(in ssa.Instruction) {
			switch x := in.(type) {
			case *ssa.Panic:
				bad = true
				c.Bad(key+":panic", p.Pos(x.Pos()), "explicit panic in an accessor")
			case *ssa.TypeAssert:
				if !x.CommaOk {
					bad = true
					c.Bad(key+":assert", p.Pos(x.Pos()), "unchecked type assertion in an accessor")
				}
			case *ssa.MapUpdate:
				if vNil(x.Map) {
					bad = true
					c.Bad(key+":nil-map", p.Pos(x.Pos()), "write to a nil map")
				}
			case ssa.CallInstruction:
				n := callName(x.Common())
				if total[n] {
					return
				}
				if cal := x.Common().StaticCallee(); cal != nil && p.inModule(cal) {
					return
				}
				// sync/atomic on the address of a package variable or of a field (never nil): total
				if (strings.HasPrefix(n, "sync/atomic.") || strings.HasPrefix(n, "(*sync/atomic.")) && len(x.Common().Args) > 0 {
					switch a := x.Common().Args[0].(type) {
					case *ssa.Global:
						return
					case *ssa.FieldAddr:
						if _, isG := a.X.(*ssa.Global); isG {
							return
						}
						if r, _ := addrRoot(a); r != nil {
							if _, isP := r.(*ssa.Parameter); isP {
								return
							}
							if _, isG := r.(*ssa.Global); isG {
								return
							}
						}
					}
				}
				if x.Common().IsInvoke() && strings.Contains(n, "flamego.") {
					return
				}
				bad = true
				c.Bad(key+":callee", p.Pos(in.Pos()), "accessor calls "+n+", which is not in the table of total functions")
			}
		})
		if !bad && unp[fn] == 0 {
			c.OK(key+":total", p.FuncPos(fn), fmt.Sprintf("%d index sites compiler-proven; no panic, unchecked assertion or partial callee", tot[fn]), numInstrs(fn))
		}
	}

	// ---- R2 default rule
	c.Rule("R2", "E6 sibling agreement", "Query, QueryBool, QueryInt, QueryInt64, QueryFloat64 return defaultVal[0] exactly when the value is empty and a default was given; QueryTrim/QueryUnescape delegate to Query with the defaults; QueryStrings falls back only when the key is absent", 7)
	for _, n := range []string{"Query", "QueryBool", "QueryInt", "QueryInt64", "QueryFloat64"} {
		fn := byName[n]
		if fn == nil {
			continue
		}
		key := p.FuncKey(fn) + ":default"
		recv, name := vParam(fn, 0), vParam(fn, 1)
		defP := vParam(fn, 2)
		var v VM
		if n == "Query" {
			v = vCall("(net/url.Values).Get", queryValsVM(fn), name)
		} else {
			v = func(x ssa.Value) bool {
				cl := asCall(x)
				return cl != nil && cl.Call.StaticCallee() == byName["Query"] && recv(cl.Call.Args[0]) && name(cl.Call.Args[1]) && (len(cl.Call.Args) < 3 || vNil(cl.Call.Args[2]))
			}
		}
		empty := edgesWhere(fn, cEmptyStr(v), true)
		if n == "Query" {
			// an empty raw query string has no values at all: the same region, decided earlier
			empty = union(empty, edgesWhere(fn, cEmptyStr(vFieldNamed("RawQuery")), true))
		}
		has := edgesWhere(fn, cCmp(token.GTR, vLen(defP), vConstInt(0)), true)
		isDef := vElem(defP, vConstInt(0))
		var defRets, otherRets []ssa.Instruction
		allInstrs(fn, func(in ssa.Instruction) {
			if r, ok := in.(*ssa.Return); ok {
				if isDef(r.Results[0]) {
					defRets = append(defRets, in)
				} else {
					otherRets = append(otherRets, in)
				}
			}
		})
		g1, _ := guardedBy(fn, empty, inSet(defRets))
		g2, _ := guardedBy(fn, has, inSet(defRets))
		// converse: in the region where both hold no other return is reachable
		conv := len(empty) > 0 && len(has) > 0
		for e := range has {
			// only has-edges that are themselves inside the empty region
			if ok, _ := guardedBy(fn, empty, func(in ssa.Instruction) bool { return in.Block() == e.B.Succs[e.S] }); !ok {
				continue
			}
			if in, _ := (Query{Fn: fn}).Reach(e.B.Succs[e.S], 0, inSet(otherRets)); in != nil {
				conv = false
			}
		}
		// … and no other return inside the empty region unless the default is known to be absent
		hasNot := edgesWhere(fn, cCmp(token.GTR, vLen(defP), vConstInt(0)), false)
		hasC := cCmp(token.GTR, vLen(defP), vConstInt(0))
		emptyC := cEmptyStr(v)
		var rawC CondM
		if n == "Query" {
			rawC = cEmptyStr(vFieldNamed("RawQuery"))
		}
		isOther := inSet(otherRets)
		needPaths := false
		for e := range empty {
			if e.S < len(e.B.Succs) {
				if in, _ := (Query{Fn: fn, Cut: hasNot}).Reach(e.B.Succs[e.S], 0, isOther); in != nil {
					needPaths = true
				}
			}
		}
		if needPaths {
			// path by path from the entry, flags resolved along the path (useDefault := v == "" && hasDefault): a
			// path on which the value is known empty and never known non-empty, and the default never known
			// absent, must not end in another return
			eachEntryPathToReturn(fn, func(path []*ssa.BasicBlock, r *ssa.Return) bool {
				if !isOther(r) {
					return true
				}
				et, ef := condOnPath(path, emptyC)
				if rawC != nil {
					rt, _ := condOnPath(path, rawC)
					et = et || rt
				}
				_, hf := condOnPath(path, hasC)
				if et && !ef && !hf {
					conv = false
					return false
				}
				return true
			})
		}
		if len(defRets) > 0 && g1 && g2 && conv {
			c.OK(key, p.FuncPos(fn), "return defaultVal[0] ⇔ value == \"\" ∧ len(defaultVal) > 0", numInstrs(fn))
		} else {
			c.Bad(key, p.FuncPos(fn), n+" does not follow the shared default rule (default returned iff the value is empty and a default was given); its siblings do")
		}
	}
	for _, n := range []string{"QueryTrim", "QueryUnescape"} {
		fn := byName[n]
		if fn == nil {
			continue
		}
		ok := false
		for _, ci := range callsIn(fn, func(_ string, cm *ssa.CallCommon) bool { return cm.StaticCallee() == byName["Query"] }) {
			a := ci.Common().Args
			ok = vParam(fn, 0)(a[0]) && vParam(fn, 1)(a[1]) && vParam(fn, 2)(a[2])
		}
		c.Cond(ok, p.FuncKey(fn)+":default", p.FuncPos(fn), "delegates to Query(name, defaultVal...)", n+" does not delegate to Query with the caller's defaults")
	}
	if fn := byName["QueryStrings"]; fn != nil {
		key := p.FuncKey(fn) + ":default"
		var next *ssa.Next
		allInstrs(fn, func(in ssa.Instruction) {
			if n, ok := in.(*ssa.Next); ok {
				next = n
			}
		})
		okQ := false
		if next == nil {
			// vs, ok := c.Request().URL.Query()[name]: present ⇒ vs; default / empty only when absent
			var lk *ssa.Lookup
			allInstrs(fn, func(in ssa.Instruction) {
				if l, ok := in.(*ssa.Lookup); ok && l.CommaOk && queryValsVM(fn)(l.X) && vParam(fn, 1)(l.Index) {
					lk = l
				}
			})
			if lk != nil {
				present := edgesWhere(fn, cBool(vExtract(1, vIs(lk))), true)
				absent := edgesWhere(fn, cBool(vExtract(1, vIs(lk))), false)
				okQ = len(present) > 0 && len(absent) > 0
				other := func(in ssa.Instruction) bool {
					r, ok := in.(*ssa.Return)
					return ok && !vExtract(0, vIs(lk))(r.Results[0])
				}
				for e := range present {
					if in, _ := (Query{Fn: fn}).Reach(e.B.Succs[e.S], 0, other); in != nil {
						okQ = false
					}
				}
				if ok, _ := guardedBy(fn, absent, other); !ok {
					okQ = false
				}
			}
		}
		if next != nil {
			found := edgesWhere(fn, cCmp(token.EQL, vExtract(1, vIs(next)), vParam(fn, 1)), true)
			exh := edgesWhere(fn, cBool(vExtract(0, vIs(next))), false)
			okQ = len(found) > 0 && len(exh) > 0
			for e := range found {
				if in, _ := (Query{Fn: fn}).Reach(e.B.Succs[e.S], 0, func(in ssa.Instruction) bool {
					r, ok := in.(*ssa.Return)
					return ok && !vExtract(2, vIs(next))(r.Results[0])
				}); in != nil {
					okQ = false
				}
			}
			// default/empty result only after exhaustion
			if ok, _ := guardedBy(fn, exh, func(in ssa.Instruction) bool {
				r, ok := in.(*ssa.Return)
				return ok && !vExtract(2, vIs(next))(r.Results[0])
			}); !ok {
				okQ = false
			}
		}
		c.Cond(okQ, key, p.FuncPos(fn), "present key ⇒ its values; default / empty list only when absent", "QueryStrings does not return the values of a present key, or falls back although the key is present")
	}

	// ---- R3 parse table
	c.Rule("R3", "E7 table", "typed accessors use the documented standard parser with base 10 and the documented bit size, and yield the parser's value with errors ignored (zero)", 6)
	table := []struct {
		meth, fn string
		args     []int64
	}{
		{"ParamInt", "strconv.Atoi", nil},
		{"ParamInt64", "strconv.ParseInt", []int64{10, 64}},
		{"QueryInt", "strconv.ParseInt", []int64{10, 0}},
		{"QueryInt64", "strconv.ParseInt", []int64{10, 64}},
		{"QueryBool", "strconv.ParseBool", nil},
		{"QueryFloat64", "strconv.ParseFloat", []int64{64}},
	}
	for _, t := range table {
		fn := byName[t.meth]
		if fn == nil {
			continue
		}
		key := p.FuncKey(fn) + ":parser"
		recv, name := vParam(fn, 0), vParam(fn, 1)
		src := func(x ssa.Value) bool {
			// Param's own definition, c.params[name], read directly (a helper on the Params type inlined)
			if lk, isL := strip(x).(*ssa.Lookup); isL && !lk.CommaOk && vField(recv, "params")(lk.X) && name(lk.Index) && strings.HasPrefix(t.meth, "Param") {
				return true
			}
			cl := asCall(x)
			if cl == nil {
				return false
			}
			cal := cl.Call.StaticCallee()
			return (cal == byName["Param"] || cal == byName["Query"]) && recv(cl.Call.Args[0]) && name(cl.Call.Args[1])
		}
		ok := false
		var call *ssa.Call
		allInstrs(fn, func(in ssa.Instruction) {
			cl, isC := in.(*ssa.Call)
			if !isC || strings.HasPrefix(callName(&cl.Call), "strconv.") == false {
				return
			}
			if t.fn == "strconv.Atoi" && callName(&cl.Call) == "strconv.ParseInt" && src(cl.Call.Args[0]) && vConstInt(10)(cl.Call.Args[1]) && vConstInt(0)(cl.Call.Args[2]) {
				// Atoi(s) is documented as ParseInt(s, 10, 0) converted to int
				ok = true
				call = cl
				return
			}
			if t.fn == "strconv.ParseInt" && len(t.args) == 2 && t.args[0] == 10 && t.args[1] == 0 && callName(&cl.Call) == "strconv.Atoi" && src(cl.Call.Args[0]) {
				// and the other way round: ParseInt(s, 10, 0) converted to int is Atoi(s)
				ok = true
				call = cl
				return
			}
			if callName(&cl.Call) != t.fn {
				call = cl
				return
			}
			a := cl.Call.Args
			good := src(a[0])
			for i, want := range t.args {
				if !vConstInt(want)(a[1+i]) {
					good = false
				}
			}
			if good {
				ok = true
				call = cl
			}
		})
		retOK := false
		swallowed := ""
		if call != nil {
			isErrRange := func(v ssa.Value) bool {
				u, isU := strip(v).(*ssa.UnOp)
				if !isU || u.Op != token.MUL {
					return false
				}
				g, isG := u.X.(*ssa.Global)
				return isG && g.Name() == "ErrRange" && g.Pkg != nil && g.Pkg.Pkg.Path() == "strconv"
			}
			// strconv's value is the answer also where it reports an error (clamped / ±Inf on ErrRange, zero on
			// malformed text): once the text was parsed, another value may be returned only where the error is
			// known not to be a range error
			notRange := edgesWhere(fn, cBool(vCall("errors.Is", vExtract(1, vIs(call)), isErrRange)), false)
			allInstrs(fn, func(in ssa.Instruction) {
				if r, isR := in.(*ssa.Return); isR {
					rv := strip(r.Results[0])
					if cv, isCv := rv.(*ssa.Convert); isCv && isIntT(cv.Type()) {
						rv = cv.X
					}
					if vExtract(0, vIs(call))(rv) {
						retOK = true
						return
					}
					if t.fn == "strconv.ParseBool" && vConstBool(false)(rv) {
						return // ParseBool's value is false with every error it reports
					}
					if x, _ := (Query{Fn: fn, Cut: notRange}).After(call, isInstr(r)); x != nil {
						swallowed = p.Pos(r.Pos())
					}
				}
			})
		}
		if ok && retOK && swallowed != "" {
			c.Bad(key, p.FuncPos(fn), t.meth+" parses the text but can return another value than strconv's ("+swallowed+"): an out-of-range number no longer reads as the clamped value / ±Inf that the standard parsing rules give")
			continue
		}
		want := t.fn
		for _, a := range t.args {
			want += fmt.Sprintf(", %d", a)
		}
		c.Cond(ok && retOK, key, p.FuncPos(fn), t.meth+" = "+want+" on the value, result returned, error ignored", t.meth+" does not parse with "+want+" (base 10 / documented size) or does not return the parsed value")
	}

	// ---- R4 cookie escape pair
	c.Rule("R4", "E7 pairing", "SetCookie writes url.QueryEscape(value) into the Set-Cookie header; Cookie returns url.QueryUnescape(value), the raw value when unescaping fails, and \"\" when the cookie is absent", 2)
	if fn := byName["SetCookie"]; fn != nil {
		key := p.FuncKey(fn) + ":escape"
		okE := false
		var store ssa.Instruction
		allInstrs(fn, func(in ssa.Instruction) {
			if st, ok := in.(*ssa.Store); ok {
				if f := fieldOf(strip(st.Addr)); f != nil && f.Name() == "Value" {
					if vCall("net/url.QueryEscape", vFieldNamed("Value"))(st.Val) {
						okE = true
						store = in
					}
				}
			}
		})
		okOrder := false
		for _, ci := range callsNamed(fn, "(*net/http.Cookie).String") {
			if store != nil {
				okOrder, _ = mustPrecede(fn, isInstr(store), ci)
			}
			hdr := false
			for _, r := range referrers(ci.(*ssa.Call)) {
				if hc, ok := r.(ssa.CallInstruction); ok && (callName(hc.Common()) == "(net/http.Header).Add" || callName(hc.Common()) == "(net/http.Header).Set") && vConstStr("Set-Cookie")(hc.Common().Args[1]) {
					hdr = true
				}
			}
			okOrder = okOrder && hdr
		}
		// or handed to net/http's own SetCookie, which renders the same cookie into the same header
		for _, ci := range callsNamed(fn, "net/http.SetCookie") {
			if store == nil {
				continue
			}
			// the cookie passed is the one whose Value was escaped
			ck := strip(ci.Common().Args[1])
			if root, _ := addrRoot(strip(store.(*ssa.Store).Addr)); root != nil && root == ck {
				if ok, _ := mustPrecede(fn, isInstr(store), ci); ok {
					okOrder = true
				}
			}
		}
		c.Cond(okE && okOrder, key, p.FuncPos(fn), "cookie.Value = url.QueryEscape(cookie.Value) before it is rendered into Set-Cookie", "the cookie value is not query-escaped before being rendered (bytes that net/http strips from cookie values are lost) — the pair with Cookie()'s QueryUnescape is broken")
	}
	if fn := byName["Cookie"]; fn != nil {
		key := p.FuncKey(fn) + ":unescape"
		var un *ssa.Call
		allInstrs(fn, func(in ssa.Instruction) {
			if cl, ok := in.(*ssa.Call); ok && callName(&cl.Call) == "net/url.QueryUnescape" && vFieldNamed("Value")(cl.Call.Args[0]) {
				un = cl
			}
		})
		if un == nil {
			c.Bad(key, p.FuncPos(fn), "Cookie() does not apply url.QueryUnescape to the cookie value: the pair with SetCookie's QueryEscape is broken")
		} else {
			okErr := edgesWhere(fn, cCmp(token.EQL, vExtract(1, vIs(un)), vNil), true)
			badErr := edgesWhere(fn, cCmp(token.EQL, vExtract(1, vIs(un)), vNil), false)
			good := len(okErr) > 0 && len(badErr) > 0
			for e := range okErr {
				if in, _ := (Query{Fn: fn}).Reach(e.B.Succs[e.S], 0, func(in ssa.Instruction) bool {
					r, ok := in.(*ssa.Return)
					return ok && !vExtract(0, vIs(un))(r.Results[0])
				}); in != nil {
					good = false
				}
			}
			for e := range badErr {
				if in, _ := (Query{Fn: fn}).Reach(e.B.Succs[e.S], 0, func(in ssa.Instruction) bool {
					r, ok := in.(*ssa.Return)
					return ok && !vFieldNamed("Value")(r.Results[0])
				}); in != nil {
					good = false
				}
			}
			c.Cond(good, key, p.Pos(un.Pos()), "unescaped value on success, raw value on failure", "Cookie() does not return the unescaped value on success and the raw value on failure")
		}
		// absent cookie → ""
		var ck *ssa.Call
		allInstrs(fn, func(in ssa.Instruction) {
			if cl, ok := in.(*ssa.Call); ok && callName(&cl.Call) == "(*net/http.Request).Cookie" {
				ck = cl
			}
		})
		if ck == nil {
			c.Bad(p.FuncKey(fn)+":absent", p.FuncPos(fn), "Cookie() no longer reads the cookie through net/http's (*http.Request).Cookie (a shadowing or memoising wrapper decides which cookie is seen)")
		}
		if ck != nil {
			missing := edgesWhere(fn, cCmp(token.NEQ, vExtract(1, vIs(ck)), vNil), true)
			good := len(missing) > 0 && vParam(fn, 1)(ck.Call.Args[1])
			for e := range missing {
				if in, _ := (Query{Fn: fn}).Reach(e.B.Succs[e.S], 0, func(in ssa.Instruction) bool {
					r, ok := in.(*ssa.Return)
					return ok && !vConstStr("")(r.Results[0])
				}); in != nil {
					good = false
				}
			}
			c.Cond(good, p.FuncKey(fn)+":absent", p.Pos(ck.Pos()), "absent cookie ⇒ \"\" (no nil dereference)", "an absent cookie does not yield the empty string")
		}
	}
}

// queryValsVM: the parsed query of the request, or φ(nil, parsed query) where the nil map is chosen only
// on the RawQuery == "" edge (reading a nil url.Values behaves like reading the empty one; choosing it for
// a request that has a query string would hide its parameters).
func queryValsVM(fn *ssa.Function) VM {
	rawEmpty := edgesWhere(fn, cEmptyStr(vFieldNamed("RawQuery")), true)
	base := vCall("(*net/url.URL).Query")
	return func(v ssa.Value) bool {
		v = strip(v)
		if base(v) {
			return true
		}
		ph, ok := v.(*ssa.Phi)
		if !ok {
			return false
		}
		sawQ := false
		for i, e := range ph.Edges {
			e = strip(e)
			if base(e) {
				sawQ = true
				continue
			}
			if vNil(e) && len(rawEmpty) > 0 && edgeGuarded(fn, rawEmpty, ph.Block().Preds[i], ph.Block()) {
				continue
			}
			return false
		}
		return sawQ
	}
}
