package main

// Table extraction for C06: lexer rules (composite literal in parser.go),
// grammar (parser struct tags), and the two grammar blocks of the route README.

import (
	"fmt"
	"go/ast"
	"go/constant"
	"go/token"
	"go/types"
	"os"
	"path/filepath"
	"reflect"
	"regexp/syntax"
	"sort"
	"strings"
	"unicode"
)

// ------------------------------------------------------------ lexer rules

type lexRule struct {
	Name    string
	Pattern string
	Action  string // "", "push", "pop"
	Arg     string
	Include string
	Pos     token.Pos

	set  [256]bool // first-character set
	plus bool      // pattern is class+
}

type lexTable struct {
	States    map[string][]lexRule
	Order     []string
	Lookahead int64
	Pos       token.Pos
}

func (p *Prog) evalString(pk *types.Info, e ast.Expr) (string, bool) {
	tv, ok := pk.Types[e]
	if !ok || tv.Value == nil {
		return "", false
	}
	if tv.Value.Kind() == constant.Int {
		// a byte or rune constant ('/'), as given to WriteByte / WriteRune
		if b, isB := tv.Type.Underlying().(*types.Basic); isB && (b.Kind() == types.Uint8 || b.Kind() == types.Int32 || b.Kind() == types.UntypedRune) {
			if n, exact := constant.Int64Val(tv.Value); exact && n >= 0 && n < 128 {
				return string(rune(n)), true
			}
		}
		return "", false
	}
	if tv.Value.Kind() != constant.String {
		return "", false
	}
	return constant.StringVal(tv.Value), true
}

func calleeName(info *types.Info, call *ast.CallExpr) string {
	switch f := call.Fun.(type) {
	case *ast.SelectorExpr:
		if o := info.Uses[f.Sel]; o != nil && o.Pkg() != nil {
			return o.Pkg().Path() + "." + o.Name()
		}
	case *ast.Ident:
		if o := info.Uses[f]; o != nil && o.Pkg() != nil {
			return o.Pkg().Path() + "." + o.Name()
		}
	case *ast.IndexExpr:
		if s, ok := f.X.(*ast.SelectorExpr); ok {
			if o := info.Uses[s.Sel]; o != nil && o.Pkg() != nil {
				return o.Pkg().Path() + "." + o.Name()
			}
		}
	}
	return ""
}

const lexerPkg = "github.com/alecthomas/participle/v2/lexer"
const participlePkg = "github.com/alecthomas/participle/v2"

func extractLexer(p *Prog) (*lexTable, error) {
	pk := p.Pkgs["route"]
	info := pk.TypesInfo
	lt := &lexTable{States: map[string][]lexRule{}, Lookahead: 1}
	found := false
	for _, f := range pk.Syntax {
		ast.Inspect(f, func(n ast.Node) bool {
			switch x := n.(type) {
			case *ast.CallExpr:
				if calleeName(info, x) == participlePkg+".UseLookahead" && len(x.Args) == 1 {
					if tv, ok := info.Types[x.Args[0]]; ok && tv.Value != nil {
						lt.Lookahead, _ = constant.Int64Val(tv.Value)
					}
				}
			case *ast.CompositeLit:
				tv, ok := info.Types[x]
				if !ok {
					return true
				}
				if named, ok := tv.Type.(*types.Named); !ok || named.Obj().Name() != "Rules" || named.Obj().Pkg().Path() != lexerPkg {
					return true
				}
				found = true
				lt.Pos = x.Pos()
				for _, el := range x.Elts {
					kv, ok := el.(*ast.KeyValueExpr)
					if !ok {
						continue
					}
					state, ok := p.evalString(info, kv.Key)
					if !ok {
						continue
					}
					lt.Order = append(lt.Order, state)
					rules, _ := kv.Value.(*ast.CompositeLit)
					if rules == nil {
						continue
					}
					for _, re := range rules.Elts {
						switch r := re.(type) {
						case *ast.CallExpr:
							if calleeName(info, r) == lexerPkg+".Include" && len(r.Args) == 1 {
								if s, ok := p.evalString(info, r.Args[0]); ok {
									lt.States[state] = append(lt.States[state], lexRule{Include: s, Pos: r.Pos()})
								}
							}
						case *ast.CompositeLit:
							var lr lexRule
							lr.Pos = r.Pos()
							for i, fe := range r.Elts {
								var key string
								val := fe
								if kv2, ok := fe.(*ast.KeyValueExpr); ok {
									key = kv2.Key.(*ast.Ident).Name
									val = kv2.Value
								} else {
									key = []string{"Name", "Pattern", "Action"}[i]
								}
								switch key {
								case "Name":
									lr.Name, _ = p.evalString(info, val)
								case "Pattern":
									lr.Pattern, _ = p.evalString(info, val)
								case "Action":
									val = resolveLocal(info, pk.Syntax, val)
									if _, isCall := val.(*ast.CallExpr); !isCall {
										if id, isId := val.(*ast.Ident); !isId || id.Name != "nil" {
											lr.Action = "unknown:" + exprString(val)
										}
									}
									if call, ok := val.(*ast.CallExpr); ok {
										switch calleeName(info, call) {
										case lexerPkg + ".Push":
											lr.Action = "push"
											if len(call.Args) == 1 {
												lr.Arg, _ = p.evalString(info, call.Args[0])
											}
										case lexerPkg + ".Pop":
											lr.Action = "pop"
										default:
											lr.Action = "unknown:" + calleeName(info, call)
										}
									}
								}
							}
							lt.States[state] = append(lt.States[state], lr)
						}
					}
				}
			}
			return true
		})
	}
	if !found {
		return nil, fmt.Errorf("no lexer.Rules literal found in package route")
	}
	for st, rules := range lt.States {
		for i := range rules {
			if rules[i].Include != "" {
				continue
			}
			set, plus, err := patternClass(rules[i].Pattern)
			if err != nil {
				return nil, fmt.Errorf("lexer rule %s/%s: %v", st, rules[i].Name, err)
			}
			rules[i].set, rules[i].plus = set, plus
		}
	}
	return lt, nil
}

// patternClass understands the two pattern shapes the route lexer uses:
// a single character (class) and class+.
func patternClass(pat string) (set [256]bool, plus bool, err error) {
	re, err := syntax.Parse(pat, syntax.Perl)
	if err != nil {
		return set, false, err
	}
	node := re
	if node.Op == syntax.OpPlus {
		plus = true
		node = node.Sub[0]
	}
	switch node.Op {
	case syntax.OpLiteral:
		if len(node.Rune) != 1 || node.Rune[0] > 255 {
			return set, false, fmt.Errorf("pattern %q is not a single byte", pat)
		}
		set[node.Rune[0]] = true
	case syntax.OpCharClass:
		for i := 0; i+1 < len(node.Rune); i += 2 {
			for r := node.Rune[i]; r <= node.Rune[i+1] && r < 256; r++ {
				set[r] = true
			}
		}
	default:
		return set, false, fmt.Errorf("pattern %q is neither a character (class) nor class+", pat)
	}
	return set, plus, nil
}

// expand returns the rules of a state with includes expanded in place.
func (lt *lexTable) expand(state string, depth int) []lexRule {
	var out []lexRule
	if depth > 4 {
		return out
	}
	for _, r := range lt.States[state] {
		if r.Include != "" {
			out = append(out, lt.expand(r.Include, depth+1)...)
		} else {
			out = append(out, r)
		}
	}
	return out
}

// ------------------------------------------------------------ grammar AST (token level)

type gNode interface{}
type gLit struct{ Val string }  // token whose value is Val
type gTok struct{ Type string } // token of lexer type
type gRef struct{ Name string } // production
type gSeq []gNode
type gAlt []gNode
type gRep struct {
	X  gNode
	Op byte // * + ?
}

type grammar struct {
	Prods map[string]gNode
	Order []string
	// NonEmptyFields: struct.field -> true when the tag guarantees at least one element
	FieldRep map[string]byte // "Struct.Field" -> '*', '+', '?' or 1 (exactly once)
	FieldTok map[string]string
}

func normG(n gNode) gNode {
	switch x := n.(type) {
	case gSeq:
		var out gSeq
		for _, y := range x {
			y = normG(y)
			if s, ok := y.(gSeq); ok {
				out = append(out, s...)
			} else {
				out = append(out, y)
			}
		}
		if len(out) == 1 {
			return out[0]
		}
		return out
	case gAlt:
		var out gAlt
		for _, y := range x {
			y = normG(y)
			if s, ok := y.(gAlt); ok {
				out = append(out, s...)
			} else {
				out = append(out, y)
			}
		}
		if len(out) == 1 {
			return out[0]
		}
		return out
	case gRep:
		return gRep{normG(x.X), x.Op}
	}
	return n
}

func gString(n gNode) string {
	switch x := n.(type) {
	case gLit:
		return fmt.Sprintf("%q", x.Val)
	case gTok:
		return "<" + strings.ToLower(x.Type) + ">"
	case gRef:
		return x.Name
	case gSeq:
		var ps []string
		for _, y := range x {
			s := gString(y)
			if _, isAlt := y.(gAlt); isAlt {
				s = "(" + s + ")"
			}
			ps = append(ps, s)
		}
		return strings.Join(ps, " ")
	case gAlt:
		var ps []string
		for _, y := range x {
			ps = append(ps, gString(y))
		}
		return strings.Join(ps, " | ")
	case gRep:
		s := gString(x.X)
		switch x.X.(type) {
		case gSeq, gAlt:
			s = "(" + s + ")"
		}
		return s + string(x.Op)
	}
	return "?"
}

// ---- participle struct tags

type tagTok struct {
	kind  string // lit, ident, capstruct, at, (, ), |, *, +, ?, !
	val   string
	field string
	elem  string // for capstruct: the field's element struct type
}

func lexTag(tag, field, elem string) ([]tagTok, error) {
	var out []tagTok
	i := 0
	for i < len(tag) {
		ch := tag[i]
		switch {
		case ch == ' ' || ch == '\t' || ch == '\n':
			i++
		case ch == '\'' || ch == '"':
			j := i + 1
			var sb strings.Builder
			for j < len(tag) && tag[j] != ch {
				if tag[j] == '\\' && j+1 < len(tag) {
					j++
				}
				sb.WriteByte(tag[j])
				j++
			}
			if j >= len(tag) {
				return nil, fmt.Errorf("unterminated literal in tag %q", tag)
			}
			out = append(out, tagTok{kind: "lit", val: sb.String(), field: field})
			i = j + 1
		case ch == '@':
			if i+1 < len(tag) && tag[i+1] == '@' {
				out = append(out, tagTok{kind: "capstruct", field: field, elem: elem})
				i += 2
			} else {
				out = append(out, tagTok{kind: "at", field: field})
				i++
			}
		case strings.ContainsRune("()|*+?!", rune(ch)):
			out = append(out, tagTok{kind: string(ch), field: field})
			i++
		case unicode.IsLetter(rune(ch)) || ch == '_':
			j := i
			for j < len(tag) && (unicode.IsLetter(rune(tag[j])) || unicode.IsDigit(rune(tag[j])) || tag[j] == '_') {
				j++
			}
			out = append(out, tagTok{kind: "ident", val: tag[i:j], field: field})
			i = j
		default:
			return nil, fmt.Errorf("unexpected %q in tag %q", ch, tag)
		}
	}
	return out, nil
}

type tagParser struct {
	toks []tagTok
	pos  int
	g    *grammar
	strc string
}

func (tp *tagParser) peek() *tagTok {
	if tp.pos < len(tp.toks) {
		return &tp.toks[tp.pos]
	}
	return nil
}

func (tp *tagParser) parseExpr() (gNode, error) {
	var alts gAlt
	for {
		s, err := tp.parseSeq()
		if err != nil {
			return nil, err
		}
		alts = append(alts, s)
		if t := tp.peek(); t != nil && t.kind == "|" {
			tp.pos++
			continue
		}
		break
	}
	if len(alts) == 1 {
		return alts[0], nil
	}
	return alts, nil
}

func (tp *tagParser) parseSeq() (gNode, error) {
	var seq gSeq
	for {
		t := tp.peek()
		if t == nil || t.kind == "|" || t.kind == ")" {
			break
		}
		n, err := tp.parseTerm()
		if err != nil {
			return nil, err
		}
		seq = append(seq, n)
	}
	return seq, nil
}

func (tp *tagParser) parseTerm() (gNode, error) {
	t := tp.peek()
	var n gNode
	captureField := ""
	if t.kind == "at" {
		captureField = t.field
		tp.pos++
		t = tp.peek()
		if t == nil {
			return nil, fmt.Errorf("dangling @")
		}
	}
	switch t.kind {
	case "lit":
		n = gLit{t.val}
		tp.pos++
	case "ident":
		n = gTok{t.val}
		tp.pos++
	case "capstruct":
		n = gRef{t.elem}
		captureField = t.field
		tp.pos++
	case "(":
		tp.pos++
		e, err := tp.parseExpr()
		if err != nil {
			return nil, err
		}
		if c := tp.peek(); c == nil || c.kind != ")" {
			return nil, fmt.Errorf("missing )")
		}
		tp.pos++
		n = e
	default:
		return nil, fmt.Errorf("unexpected %q in tag", t.kind)
	}
	op := byte(1)
	if p := tp.peek(); p != nil && (p.kind == "*" || p.kind == "+" || p.kind == "?") {
		op = p.kind[0]
		tp.pos++
		n = gRep{n, op}
	}
	if captureField != "" {
		k := tp.strc + "." + captureField
		// the weakest guarantee wins when a field is captured in several places
		cur, seen := tp.g.FieldRep[k]
		if !seen || op == '*' || (op == '?' && cur != '*') {
			tp.g.FieldRep[k] = op
		}
		if tk, ok := unwrapTok(n); ok {
			tp.g.FieldTok[k] = tk
		}
	}
	return n, nil
}

func unwrapTok(n gNode) (string, bool) {
	switch x := n.(type) {
	case gTok:
		return x.Type, true
	case gRep:
		return unwrapTok(x.X)
	}
	return "", false
}

// extractTagGrammar builds one production per struct with parser tags.
func extractTagGrammar(p *Prog) (*grammar, error) {
	g := &grammar{Prods: map[string]gNode{}, FieldRep: map[string]byte{}, FieldTok: map[string]string{}}
	pk := p.Pkgs["route"]
	sc := pk.Types.Scope()
	names := sc.Names()
	sort.Strings(names)
	for _, name := range names {
		tn, ok := sc.Lookup(name).(*types.TypeName)
		if !ok {
			continue
		}
		st, ok := tn.Type().Underlying().(*types.Struct)
		if !ok {
			continue
		}
		var toks []tagTok
		has := false
		for i := 0; i < st.NumFields(); i++ {
			tag, ok := reflect.StructTag(st.Tag(i)).Lookup("parser")
			if !ok || strings.TrimSpace(tag) == "-" {
				continue
			}
			has = true
			elem := ""
			ft := st.Field(i).Type()
			for {
				switch x := ft.(type) {
				case *types.Pointer:
					ft = x.Elem()
					continue
				case *types.Slice:
					ft = x.Elem()
					continue
				}
				break
			}
			if n, ok := ft.(*types.Named); ok {
				elem = n.Obj().Name()
			}
			ts, err := lexTag(tag, st.Field(i).Name(), elem)
			if err != nil {
				return nil, fmt.Errorf("%s.%s: %v", name, st.Field(i).Name(), err)
			}
			toks = append(toks, ts...)
		}
		if !has {
			continue
		}
		tp := &tagParser{toks: toks, g: g, strc: name}
		e, err := tp.parseExpr()
		if err != nil {
			return nil, fmt.Errorf("struct %s: %v", name, err)
		}
		if tp.pos != len(toks) {
			return nil, fmt.Errorf("struct %s: trailing tokens in tags", name)
		}
		g.Prods[name] = normG(e)
		g.Order = append(g.Order, name)
	}
	if len(g.Prods) == 0 {
		return nil, fmt.Errorf("no parser tags found")
	}
	return g, nil
}

// ------------------------------------------------------------ README

func (p *Prog) readFile(rel string) (string, error) {
	abs := filepath.Join(p.Repo, rel)
	if b, ok := p.Overlay[abs]; ok {
		return string(b), nil
	}
	b, err := os.ReadFile(abs)
	return string(b), err
}

func readmeBlocks(p *Prog) ([]string, error) {
	txt, err := p.readFile("internal/route/README.md")
	if err != nil {
		return nil, err
	}
	var blocks []string
	lines := strings.Split(txt, "\n")
	in := false
	var cur []string
	for _, l := range lines {
		if strings.HasPrefix(strings.TrimSpace(l), "```") {
			if in {
				blocks = append(blocks, strings.Join(cur, "\n"))
				cur = nil
			}
			in = !in
			continue
		}
		if in {
			cur = append(cur, l)
		}
	}
	return blocks, nil
}

// ---- EBNF ("generated by the parser") block: Name = expr .
func parseEBNF(src string) (*grammar, error) {
	g := &grammar{Prods: map[string]gNode{}}
	for _, line := range strings.Split(src, "\n") {
		line = strings.TrimSpace(line)
		if line == "" {
			continue
		}
		eq := strings.Index(line, "=")
		if eq < 0 || !strings.HasSuffix(line, ".") {
			return nil, fmt.Errorf("EBNF line not of the form `Name = expr .`: %q", line)
		}
		name := strings.TrimSpace(line[:eq])
		body := strings.TrimSpace(strings.TrimSuffix(line[eq+1:], "."))
		toks, err := lexEBNF(body)
		if err != nil {
			return nil, err
		}
		ep := &ebnfParser{toks: toks}
		e, err := ep.expr()
		if err != nil {
			return nil, fmt.Errorf("%s: %v", name, err)
		}
		if ep.pos != len(toks) {
			return nil, fmt.Errorf("%s: trailing tokens", name)
		}
		g.Prods[name] = normG(e)
		g.Order = append(g.Order, name)
	}
	return g, nil
}

type eTok struct{ kind, val string }

func lexEBNF(s string) ([]eTok, error) {
	var out []eTok
	i := 0
	for i < len(s) {
		ch := s[i]
		switch {
		case ch == ' ' || ch == '\t':
			i++
		case ch == '"':
			j := i + 1
			var sb strings.Builder
			for j < len(s) && s[j] != '"' {
				if s[j] == '\\' && j+1 < len(s) {
					j++
				}
				sb.WriteByte(s[j])
				j++
			}
			if j >= len(s) {
				return nil, fmt.Errorf("unterminated string in %q", s)
			}
			out = append(out, eTok{"lit", sb.String()})
			i = j + 1
		case ch == '<':
			j := strings.IndexByte(s[i:], '>')
			if j < 0 {
				return nil, fmt.Errorf("unterminated <…> in %q", s)
			}
			out = append(out, eTok{"tok", s[i+1 : i+j]})
			i += j + 1
		case strings.ContainsRune("()|*+?", rune(ch)):
			out = append(out, eTok{string(ch), ""})
			i++
		case unicode.IsLetter(rune(ch)):
			j := i
			for j < len(s) && (unicode.IsLetter(rune(s[j])) || unicode.IsDigit(rune(s[j])) || s[j] == '_') {
				j++
			}
			out = append(out, eTok{"ref", s[i:j]})
			i = j
		default:
			return nil, fmt.Errorf("unexpected %q in EBNF %q", ch, s)
		}
	}
	return out, nil
}

type ebnfParser struct {
	toks []eTok
	pos  int
}

func (p *ebnfParser) peek() *eTok {
	if p.pos < len(p.toks) {
		return &p.toks[p.pos]
	}
	return nil
}

func (p *ebnfParser) expr() (gNode, error) {
	var alts gAlt
	for {
		var seq gSeq
		for {
			t := p.peek()
			if t == nil || t.kind == "|" || t.kind == ")" {
				break
			}
			var n gNode
			switch t.kind {
			case "lit":
				n = gLit{t.val}
				p.pos++
			case "tok":
				// participle prints token types lower-cased
				n = gTok{strings.ToLower(t.val)}
				p.pos++
			case "ref":
				n = gRef{t.val}
				p.pos++
			case "(":
				p.pos++
				e, err := p.expr()
				if err != nil {
					return nil, err
				}
				if c := p.peek(); c == nil || c.kind != ")" {
					return nil, fmt.Errorf("missing )")
				}
				p.pos++
				n = e
			default:
				return nil, fmt.Errorf("unexpected %q", t.kind)
			}
			if q := p.peek(); q != nil && (q.kind == "*" || q.kind == "+" || q.kind == "?") {
				n = gRep{n, q.kind[0]}
				p.pos++
			}
			seq = append(seq, n)
		}
		alts = append(alts, seq)
		if t := p.peek(); t != nil && t.kind == "|" {
			p.pos++
			continue
		}
		break
	}
	if len(alts) == 1 {
		return alts[0], nil
	}
	return alts, nil
}

// lowerToks lower-cases token type names (to compare tags with the README rendering).
func lowerToks(n gNode) gNode {
	switch x := n.(type) {
	case gTok:
		return gTok{strings.ToLower(x.Type)}
	case gSeq:
		var o gSeq
		for _, y := range x {
			o = append(o, lowerToks(y))
		}
		return o
	case gAlt:
		var o gAlt
		for _, y := range x {
			o = append(o, lowerToks(y))
		}
		return o
	case gRep:
		return gRep{lowerToks(x.X), x.Op}
	}
	return n
}

// ---- BNF block (character level): <name> ::= alternatives

type bNode interface{}
type bLit struct{ S string }
type bRange struct{ Lo, Hi byte }
type bRef struct{ Name string }
type bSeq []bNode
type bAlt []bNode
type bRep struct {
	X  bNode
	Op byte
}

type bnf struct {
	Prods map[string]bNode
	Order []string
}

func parseBNF(src string) (*bnf, error) {
	// strip comments
	for {
		i := strings.Index(src, "/*")
		if i < 0 {
			break
		}
		j := strings.Index(src[i:], "*/")
		if j < 0 {
			return nil, fmt.Errorf("unterminated comment in BNF block")
		}
		src = src[:i] + src[i+j+2:]
	}
	b := &bnf{Prods: map[string]bNode{}}
	for _, line := range strings.Split(src, "\n") {
		line = strings.TrimSpace(line)
		if line == "" {
			continue
		}
		sep := strings.Index(line, "::=")
		if sep < 0 {
			return nil, fmt.Errorf("BNF line without ::= : %q", line)
		}
		name := strings.Trim(strings.TrimSpace(line[:sep]), "<>")
		body := line[sep+3:]
		n, err := parseBNFExpr(body)
		if err != nil {
			return nil, fmt.Errorf("<%s>: %v", name, err)
		}
		b.Prods[name] = n
		b.Order = append(b.Order, name)
	}
	return b, nil
}

func parseBNFExpr(s string) (bNode, error) {
	var alts bAlt
	var seq bSeq
	i := 0
	flush := func() {
		alts = append(alts, seq)
		seq = nil
	}
	for i < len(s) {
		ch := s[i]
		var n bNode
		switch {
		case ch == ' ' || ch == '\t':
			i++
			continue
		case ch == '|':
			flush()
			i++
			continue
		case ch == '"':
			j := i + 1
			var sb strings.Builder
			for j < len(s) && s[j] != '"' {
				if s[j] == '\\' && j+1 < len(s) {
					j++
				}
				sb.WriteByte(s[j])
				j++
			}
			if j >= len(s) {
				return nil, fmt.Errorf("unterminated string")
			}
			n = bLit{sb.String()}
			i = j + 1
		case ch == '<':
			j := strings.IndexByte(s[i:], '>')
			if j < 0 {
				return nil, fmt.Errorf("unterminated <…>")
			}
			n = bRef{s[i+1 : i+j]}
			i += j + 1
		case ch == '[':
			// [a-z]
			if i+4 < len(s)+1 && i+4 <= len(s)-0 && s[i+2] == '-' && s[i+4] == ']' {
				n = bRange{s[i+1], s[i+3]}
				i += 5
			} else {
				return nil, fmt.Errorf("unsupported character class at %q", s[i:])
			}
		default:
			return nil, fmt.Errorf("unexpected %q in BNF", ch)
		}
		if i < len(s) && (s[i] == '*' || s[i] == '+' || s[i] == '?') {
			n = bRep{n, s[i]}
			i++
		}
		seq = append(seq, n)
	}
	flush()
	if len(alts) == 1 {
		return alts[0], nil
	}
	return alts, nil
}

// charSet computes the set of single bytes a production can produce when every
// alternative is a single character (used for <char> and <any>).
func (b *bnf) charSet(name string, depth int) (set [256]bool, ok bool) {
	n, exists := b.Prods[name]
	if !exists || depth > 6 {
		return set, false
	}
	var walk func(n bNode) bool
	walk = func(n bNode) bool {
		switch x := n.(type) {
		case bLit:
			if len(x.S) != 1 {
				return false
			}
			set[x.S[0]] = true
		case bRange:
			for c := int(x.Lo); c <= int(x.Hi); c++ {
				set[c] = true
			}
		case bRef:
			s2, ok := b.charSet(x.Name, depth+1)
			if !ok {
				return false
			}
			for i := range s2 {
				if s2[i] {
					set[i] = true
				}
			}
		case bAlt:
			for _, y := range x {
				if !walk(y) {
					return false
				}
			}
		case bSeq:
			if len(x) != 1 {
				return false
			}
			return walk(x[0])
		default:
			return false
		}
		return true
	}
	return set, walk(n)
}

// resolveLocal follows an identifier that is a local variable with exactly one
// definition (x := e / var x = e) and no other assignment to its initialiser.
func resolveLocal(info *types.Info, files []*ast.File, e ast.Expr) ast.Expr {
	for depth := 0; depth < 4; depth++ {
		id, ok := e.(*ast.Ident)
		if !ok {
			return e
		}
		obj, _ := info.Uses[id].(*types.Var)
		if obj == nil || obj.IsField() {
			return e
		}
		var init ast.Expr
		nAssign := 0
		for _, f := range files {
			if obj.Pos() < f.Pos() || obj.Pos() > f.End() {
				continue
			}
			ast.Inspect(f, func(n ast.Node) bool {
				switch x := n.(type) {
				case *ast.AssignStmt:
					for i, l := range x.Lhs {
						if li, isId := l.(*ast.Ident); isId && (info.Defs[li] == types.Object(obj) || info.Uses[li] == types.Object(obj)) {
							nAssign++
							if len(x.Lhs) == len(x.Rhs) {
								init = x.Rhs[i]
							}
						}
					}
				case *ast.ValueSpec:
					for i, n := range x.Names {
						if info.Defs[n] == types.Object(obj) {
							nAssign++
							if len(x.Values) == len(x.Names) {
								init = x.Values[i]
							}
						}
					}
				case *ast.UnaryExpr:
					if x.Op == token.AND {
						if xi, isId := x.X.(*ast.Ident); isId && info.Uses[xi] == types.Object(obj) {
							nAssign += 2
						}
					}
				}
				return true
			})
		}
		if nAssign != 1 || init == nil {
			return e
		}
		e = init
	}
	return e
}
