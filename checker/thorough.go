package main

// Thorough tier: (a) whole-program load (dependencies and stdlib bodies) with a
// VTA call graph used to cross-check the request-phase function set; (b) the
// same rules under the GOARCH=386 file selection; (c) the rule-liveness audit
// (seeded faults applied in memory). The audit tests the checker and never
// decides the verdict.

import (
	"fmt"
	"path/filepath"
	"sort"
	"sync"

	"golang.org/x/tools/go/callgraph"
	"golang.org/x/tools/go/callgraph/cha"
	"golang.org/x/tools/go/callgraph/vta"
	"golang.org/x/tools/go/ssa"
	"golang.org/x/tools/go/ssa/ssautil"
)

func thoroughExtras(c *Check) {
	p := c.P
	if !p.Whole {
		return
	}
	// (a) VTA cross-check of REQ
	all := ssautil.AllFunctions(p.Prog)
	cg := vta.CallGraph(all, cha.CallGraph(p.Prog))
	c.Extra["vta_nodes"] = len(cg.Nodes)
	root := p.Meth("flamego", "Flame", "ServeHTTP")
	reach := map[*ssa.Function]bool{}
	if root != nil && cg.Nodes[root] != nil {
		var walk func(n *callgraph.Node)
		walk = func(n *callgraph.Node) {
			if n == nil || reach[n.Func] {
				return
			}
			reach[n.Func] = true
			for _, e := range n.Out {
				walk(e.Callee)
			}
		}
		walk(cg.Nodes[root])
	}
	req := p.REQ()
	var missing []string
	nmod := 0
	for f := range reach {
		if !p.inModule(f) || f.Synthetic != "" || len(f.Blocks) == 0 {
			continue
		}
		nmod++
		top := f
		for top.Parent() != nil {
			top = top.Parent()
		}
		if !req[f] && !req[top] {
			missing = append(missing, p.FuncKey(f))
		}
	}
	sort.Strings(missing)
	c.Extra["vta_reachable_module_functions"] = nmod
	c.Extra["vta_reachable_not_in_req"] = missing
	usesREQ := map[string]bool{"C05": true, "C07": true, "C15": true}
	if usesREQ[c.Property] {
		c.Rule("T1", "call graph cross-check", "every module function that the whole-program VTA call graph reaches from Flame.ServeHTTP is in the request-phase set the rules analysed (the quick set is a CHA+bridges superset)", 1)
		if len(missing) == 0 {
			c.OK("REQ:superset-of-vta", "request phase", fmt.Sprintf("%d VTA-reachable module functions ⊆ REQ (%d)", nmod, len(req)), nmod)
		} else {
			c.Bad("REQ:superset-of-vta", "request phase", fmt.Sprintf("the request-phase set misses functions the VTA call graph reaches: %v", missing))
		}
	}
}

// thoroughArch re-runs the property's rules under GOARCH=386 file selection.
func thoroughArch(c *Check, f propFunc, repo string, ov map[string][]byte) {
	p2, err := LoadRepo(repo, false, "386", ov)
	if err != nil {
		c.Rule("T2", "GOARCH=386", "the rules hold for the 386 file selection", 1)
		c.Bad("GOARCH=386:load", "?", "cannot load the module for GOARCH=386: "+err.Error())
		return
	}
	c2 := NewCheck(p2, c.Property, "thorough-386", c.Seed)
	func() {
		defer func() {
			if r := recover(); r != nil {
				c2.curRule = c.Property + ".internal"
				c2.Bad("checker-panic", "?", fmt.Sprint(r))
			}
		}()
		f(c2)
	}()
	nv := 0
	c.Rule("T2", "GOARCH=386", "the same rules hold for the GOARCH=386 file selection (build-tagged files)", 1)
	for _, o := range c2.Obs {
		if o.Status == "violated" {
			nv++
			c.Bad(o.Construct+" [GOARCH=386 "+o.Rule+"]", o.Pos, o.How)
		}
	}
	c.Extra["goarch_386_obligations"] = len(c2.Obs)
	if nv == 0 {
		c.OK("GOARCH=386:all-rules", "module", fmt.Sprintf("%d obligations discharged under GOARCH=386", len(c2.Obs)), len(c2.Obs))
	}
}

// thoroughAudit runs the seeded faults of this property and records the outcome.
func thoroughAudit(c *Check, repo, verif string) {
	seeds, err := parseSeeds(filepath.Join(verif, "seeds", "seeds.txt"))
	if err != nil {
		c.Extra["audit_error"] = err.Error()
		return
	}
	var sel []*Seed
	for _, s := range seeds {
		if s.Property == c.Property {
			sel = append(sel, s)
		} else if s.Property == "ALL" {
			cp := *s
			cp.Property = c.Property
			cp.ID = s.ID + "@" + c.Property
			sel = append(sel, &cp)
		}
	}
	// VERIF_SEED only permutes the order
	if c.Seed != 0 && len(sel) > 1 {
		k := int(c.Seed % int64(len(sel)))
		if k < 0 {
			k = -k
		}
		sel = append(sel[k:], sel[:k]...)
	}
	results := make([]auditResult, len(sel))
	var wg sync.WaitGroup
	sem := make(chan struct{}, 12)
	for i, s := range sel {
		wg.Add(1)
		go func(i int, s *Seed) {
			defer wg.Done()
			sem <- struct{}{}
			defer func() { <-sem }()
			results[i] = runSeed(repo, s)
		}(i, s)
	}
	wg.Wait()
	counts := map[string]int{}
	var warn []string
	for _, r := range results {
		counts[r.status]++
		switch r.status {
		case "killed", "quiet", "skipped":
		default:
			w := fmt.Sprintf("AUDIT-WARNING %s rule-liveness seed=%s expect=%v fired=%v", r.status, r.seed.ID, r.seed.Expect, r.fired)
			fmt.Println(w)
			warn = append(warn, w)
		}
	}
	c.Extra["audit_seeds"] = len(sel)
	c.Extra["audit_killed"] = counts["killed"]
	c.Extra["audit_quiet_benign"] = counts["quiet"]
	c.Extra["audit_skipped"] = counts["skipped"]
	c.Extra["audit_failed"] = counts["survived"] + counts["false-alarm"] + counts["broken"]
	c.Extra["audit_warnings"] = warn
	c.Extra["audit_note"] = "seeded faults (and benign refactorings, which must stay quiet) are applied in memory through packages.Config.Overlay; the audit tests the checker and never decides the verdict"
}
