package main

// C04 Dependency injection resolves every parameter by type, nearest scope first.

import (
	"fmt"
	"go/token"
	"go/types"
	"strings"

	"golang.org/x/tools/go/ssa"
)

func init() { register("C04", checkC04) }

const reflectInterfaceKind = 20 // reflect.Interface

func checkC04(c *Check) {
	p := c.P
	c.Explain = "ordering (never-after) of the three lookup stages in Value, key/value provenance at registration, index agreement and error-before-call in both invoke paths (sibling agreement), shape of every FastInvoker.Invoke, guards in Apply, and freshness/parenting of the per-request scope"
	c.NotDec = []string{"reflect semantics (Implements, Call, Set)", "which implementor is chosen when several are registered in one scope (the property allows any)"}
	c.Trusted = []string{"package reflect"}

	injT := p.Named("inject", "injector")
	val := p.Meth("inject", "injector", "Value")
	if injT == nil || val == nil {
		c.Rule("R1", "E2", "anchors", 1)
		c.Anchor("inject.injector.Value")
		return
	}

	// ---- R1 lookup order
	c.Rule("R1", "E2 never-after + E1", "Value: exact hit returns; otherwise, for interface types only, the same injector's table is scanned for an implementor; the parent is asked only when nothing valid was found, and never before the scan", 6)
	{
		key := p.FuncKey(val)
		recv, tP := vParam(val, 0), vParam(val, 1)
		values := vField(recv, "values")
		var exact *ssa.Lookup
		var rng *ssa.Range
		var next *ssa.Next
		var parentCall ssa.CallInstruction
		allInstrs(val, func(in ssa.Instruction) {
			switch x := in.(type) {
			case *ssa.Lookup:
				if values(x.X) && tP(x.Index) {
					exact = x
				}
			case *ssa.Range:
				if values(x.X) {
					rng = x
				} else if _, isMap := x.X.Type().Underlying().(*types.Map); isMap {
					c.Bad(key+":scan-table", p.Pos(x.Pos()), "the implementor scan ranges over "+vstr(x.X)+" instead of the receiver's own table")
				}
			case *ssa.Next:
				next = x
			case ssa.CallInstruction:
				if x.Common().IsInvoke() && x.Common().Method.Name() == "Value" && vField(recv, "parent")(x.Common().Value) {
					parentCall = x
				}
			}
		})
		if exact == nil {
			c.Bad(key+":exact", p.FuncPos(val), "no exact lookup values[t]")
		} else {
			exValid := vCall("(reflect.Value).IsValid", vIs(exact))
			// exact hit is returned: on the valid edge every return yields the exact value
			hit := edgesWhere(val, cBool(exValid), true)
			okHit := len(hit) > 0
			for e := range hit {
				// on every path from the valid edge the result is the exact value (merges resolved along the path)
				eachPathToReturn(val, e, func(path []*ssa.BasicBlock, r *ssa.Return) bool {
					if resolveOnPath(path, r.Results[0]) != ssa.Value(exact) {
						okHit = false
						return false
					}
					return true
				})
				// and nothing else happens: no scan, no parent
				in2, _ := Query{Fn: val}.Reach(e.B.Succs[e.S], 0, func(in ssa.Instruction) bool {
					return (rng != nil && in == ssa.Instruction(rng)) || (parentCall != nil && in == ssa.Instruction(parentCall))
				})
				if in2 != nil {
					okHit = false
				}
			}
			c.Cond(okHit, key+":exact-first", p.Pos(exact.Pos()), "a valid exact registration is returned at once", "a value registered for exactly the requested type does not win: the scan or the parent can override it")
			if rng == nil || next == nil {
				c.Bad(key+":implementors", p.FuncPos(val), "no scan of the receiver's table for implementors")
			} else {
				miss := edgesWhere(val, cBool(exValid), false)
				isIface := edgesWhere(val, cCmp(token.EQL, vCall("(reflect.Type).Kind", tP), vConstInt(reflectInterfaceKind)), true)
				ok1, _ := guardedBy(val, miss, isInstr(rng))
				ok2, _ := guardedBy(val, isIface, isInstr(rng))
				c.Cond(ok1 && len(miss) > 0, key+":scan-after-exact-miss", p.Pos(rng.Pos()), "the scan runs only after the exact lookup missed", "implementors are scanned although an exact registration exists")
				c.Cond(ok2 && len(isIface) > 0, key+":scan-only-for-interfaces", p.Pos(rng.Pos()), "the scan is guarded by t.Kind() == reflect.Interface", "the implementor scan is not restricted to interface types (Implements panics for non-interface t)")
				// hit selection: value of the entry whose key implements t
				impl := edgesWhere(val, cBool(vCall("(reflect.Type).Implements", vExtract(1, vIs(next)), tP)), true)
				okSel := len(impl) > 0
				// the φ merging the scan result takes Extract(next,2) only through the Implements-true edge
				allInstrs(val, func(in ssa.Instruction) {
					ph, ok := in.(*ssa.Phi)
					if !ok {
						return
					}
					for i, e := range ph.Edges {
						if vExtract(2, vIs(next))(e) && !edgeGuarded(val, impl, ph.Block().Preds[i], ph.Block()) {
							okSel = false
						}
						if vExtract(2, vIs(next))(e) {
							_ = i
						}
					}
				})
				c.Cond(okSel, key+":implementor-selected", p.Pos(next.Pos()), "the scan yields the value of an entry whose key Implements(t)", "the scan can yield an entry whose type does not implement the requested interface")
				// converse: an entry is passed over only because its key does not implement t
				implNo := edgesWhere(val, cBool(vCall("(reflect.Type).Implements", vExtract(1, vIs(next)), tP)), false)
				if in, path := (Query{Fn: val, Cut: implNo}).After(next, isInstr(next)); in != nil {
					c.Bad(key+":implementor-not-filtered", p.Pos(next.Pos()), "an entry of the table can be passed over for a reason other than `!key.Implements(t)` (an extra filter in front of Implements): a registered implementor is not found", blockPath(path))
				} else {
					c.OK(key+":implementor-not-filtered", p.Pos(next.Pos()), "the scan moves on to the next entry only on the !Implements(t) edge", numInstrs(val))
				}
			}
			if parentCall == nil {
				c.Bad(key+":parent", p.FuncPos(val), "the parent scope is never consulted")
			} else {
				c.Cond(tP(parentCall.Common().Args[0]), key+":parent-arg", p.Pos(parentCall.Pos()), "parent.Value(t)", "the parent is asked for a different type")
				// guarded by !val.IsValid() of the merged value and parent != nil
				var merged VM = func(v ssa.Value) bool {
					ph, ok := strip(v).(*ssa.Phi)
					if !ok {
						// without a scan the exact value itself is the local result
						return rng == nil && strip(v) == ssa.Value(exact)
					}
					hasExact, hasScan := false, false
					other := false
					phiLeaves(ph, func(e ssa.Value) {
						switch {
						case e == ssa.Value(exact):
							hasExact = true
						case next != nil && vExtract(2, vIs(next))(e):
							hasScan = true
						case isZeroStructValue(e):
							// reflect.Value{}: "nothing found", as invalid as the exact miss it replaces
						default:
							other = true
						}
					})
					return hasExact && (hasScan || rng == nil) && !other
				}
				inval := edgesWhere(val, cBool(vCall("(reflect.Value).IsValid", merged)), false)
				nonNil := edgesWhere(val, cCmp(token.NEQ, vField(recv, "parent"), vNil), true)
				okG, _ := guardedBy(val, inval, isInstr(parentCall))
				okN, _ := guardedBy(val, nonNil, isInstr(parentCall))
				c.Cond(okG && len(inval) > 0 && okN && len(nonNil) > 0, key+":parent-last", p.Pos(parentCall.Pos()), "the parent is consulted only when the local result is invalid (and a parent exists)", "the parent scope can be consulted although this scope holds a value: outer registrations shadow nearer ones")
				if rng != nil {
					notIface := edgesWhere(val, cCmp(token.EQL, vCall("(reflect.Type).Kind", tP), vConstInt(reflectInterfaceKind)), false)
					in, path := Query{Fn: val, Cut: notIface, Avoid: isInstr(rng)}.FromEntry(isInstr(parentCall))
					if in == nil {
						c.OK(key+":scan-before-parent", p.Pos(parentCall.Pos()), "for interface types the parent is reached only after the local implementor scan", numInstrs(val))
					} else {
						c.Bad(key+":scan-before-parent", p.Pos(parentCall.Pos()), "for an interface type the parent can be consulted before the local implementor scan", blockPath(path))
					}
				}
			}
		}
	}

	// ---- R7 lookups do not write
	c.Rule("R7", "E5 effects", "resolving a value never changes a scope: Value, Invoke and Apply (and what they call inside the injector) store nothing into the injector — a hit in an outer scope or an implementor found by scanning is not recorded as a registration of the inner scope", 4)
	for _, fn := range p.Funcs() {
		r := fn.Signature.Recv()
		onInjector := r != nil && namedName(derefT(r.Type())) == "injector"
		if r == nil && fn.Parent() == nil && len(fn.Params) > 0 && namedName(derefT(fn.Params[0].Type())) == "injector" {
			onInjector = true // a helper taking the injector as its first parameter
		}
		if !onInjector || fn.Pkg != p.SSA["inject"] {
			continue
		}
		switch fn.Name() {
		case "Map", "MapTo", "Set", "SetParent":
			continue
		}
		key := p.FuncKey(fn) + ":read-only"
		bad := false
		allInstrs(fn, func(in ssa.Instruction) {
			switch x := in.(type) {
			case *ssa.MapUpdate:
				if o, _, _ := ownerOfValue(x.Map); o != nil && o.Obj().Name() == "injector" {
					bad = true
					c.Bad(key, p.Pos(x.Pos()), "the lookup path writes into the injector's table ("+vstr(x.Map)+"): a value resolved from an outer scope or by implementor scan becomes a registration of this scope (wrong precedence later, stale after re-registration, and a data race on the shared application scope)")
				}
			case *ssa.Store:
				if o := ownerNamed(x.Addr); o != nil && o.Obj().Name() == "injector" {
					bad = true
					c.Bad(key, p.Pos(x.Pos()), "the lookup path stores into the injector")
				}
			case ssa.CallInstruction:
				if callName(x.Common()) == "builtin.delete" {
					if o, _, _ := ownerOfValue(x.Common().Args[0]); o != nil && o.Obj().Name() == "injector" {
						bad = true
						c.Bad(key, p.Pos(in.Pos()), "the lookup path deletes from the injector's table")
					}
				}
			}
		})
		if !bad {
			c.OK(key, p.FuncPos(fn), "no store into the injector", numInstrs(fn))
		}
	}

	// ---- R8 handlers are invoked only through the injector
	c.Rule("R8", "E5 who-may-call", "FastInvoker.Invoke is called only by the injector's fast path, and the per-request context does not shadow any method of inject.Injector: every handler's arguments come from the scope chain", 2)
	if fi := p.Named("inject", "FastInvoker"); fi != nil {
		n := 0
		for _, fn := range p.Funcs() {
			allInstrs(fn, func(in ssa.Instruction) {
				ci, ok := in.(ssa.CallInstruction)
				if !ok {
					return
				}
				isFast := false
				if ci.Common().IsInvoke() && ci.Common().Method.Name() == "Invoke" && namedName(ci.Common().Value.Type()) == "FastInvoker" {
					isFast = true
				} else if f := ci.Common().StaticCallee(); f != nil && f.Name() == "Invoke" && f.Signature.Recv() != nil && p.inModule(f) && namedName(derefT(f.Signature.Recv().Type())) != "injector" {
					// direct call of a concrete fast invoker's Invoke
					if types.Implements(f.Signature.Recv().Type(), fi.Underlying().(*types.Interface)) {
						isFast = true
					}
				}
				if !isFast {
					return
				}
				n++
				okSite := fn.Name() == "fastInvoke" && fn.Pkg == p.SSA["inject"]
				c.Cond(okSite, p.FuncKey(fn)+":calls-FastInvoker.Invoke", p.Pos(in.Pos()), "fast invokers are called by injector.fastInvoke only", "a fast invoker is called outside the injector: its arguments bypass the scope chain (request-scope registrations are ignored)")
			})
		}
		if n == 0 {
			c.Anchor("a call of FastInvoker.Invoke")
		}
	}
	if inj := p.Named("inject", "Injector"); inj != nil {
		iface := inj.Underlying().(*types.Interface)
		shadow := []string{}
		for i := 0; i < iface.NumMethods(); i++ {
			if m := p.Meth("flamego", "context", iface.Method(i).Name()); m != nil {
				shadow = append(shadow, iface.Method(i).Name())
			}
		}
		c.Cond(len(shadow) == 0, "flamego.context:no-injector-shadowing", "context.go", "context declares none of inject.Injector's methods itself (they are the embedded scope's)", fmt.Sprintf("the per-request context shadows injector methods %v: resolution no longer goes through the scope chain", shadow))
	}

	// ---- R2 registration keys
	c.Rule("R2", "E3 provenance", "Map: values[TypeOf(v)] = ValueOf(v) for every argument; MapTo: values[InterfaceOf(ptr)] = ValueOf(v); Set: values[typ] = val; plain overwrite on the receiver's own table", 3)
	for _, spec := range []struct {
		meth string
		k, v func(fn *ssa.Function) VM
	}{
		{"Map", func(fn *ssa.Function) VM { return vCall("reflect.TypeOf", rangeElemOf(fn, 1)) }, func(fn *ssa.Function) VM { return vCall("reflect.ValueOf", rangeElemOf(fn, 1)) }},
		{"MapTo", func(fn *ssa.Function) VM { return vCall("inject.InterfaceOf", vParam(fn, 2)) }, func(fn *ssa.Function) VM { return vCall("reflect.ValueOf", vParam(fn, 1)) }},
		{"Set", func(fn *ssa.Function) VM { return vParam(fn, 1) }, func(fn *ssa.Function) VM { return vParam(fn, 2) }},
	} {
		fn := p.Meth("inject", "injector", spec.meth)
		if fn == nil {
			c.Anchor("injector." + spec.meth)
			continue
		}
		key := p.FuncKey(fn) + ":registers"
		var mus []*ssa.MapUpdate
		cond := false
		allInstrs(fn, func(in ssa.Instruction) {
			switch x := in.(type) {
			case *ssa.MapUpdate:
				mus = append(mus, x)
			case *ssa.Lookup:
				if _, isMap := x.X.Type().Underlying().(*types.Map); isMap {
					cond = true
				}
			}
		})
		ok := len(mus) == 1 && vField(vParam(fn, 0), "values")(mus[0].Map) && spec.k(fn)(mus[0].Key) && spec.v(fn)(mus[0].Value) && !cond
		if ok && spec.meth == "Map" {
			// no argument skipped: the update is executed in every iteration
			i, _ := elemIndex(asCall(mus[0].Key).Call.Args[0], vParam(fn, 1))
			exh := edgesWhere(fn, cCmp(token.LSS, vIs(i), vLen(vParam(fn, 1))), false)
			in, _ := Query{Fn: fn, Cut: exh, Avoid: isInstr(mus[0])}.FromEntry(isReturn)
			ok = in == nil && len(exh) > 0
		}
		how := "values[key] = value, unconditional overwrite"
		bad := "registration does not store under the documented key/value or is conditional on earlier contents (a later registration no longer replaces the earlier)"
		if len(mus) == 1 {
			bad += ": values[" + vstr(mus[0].Key) + "] = " + vstr(mus[0].Value)
		}
		c.Cond(ok, key, p.FuncPos(fn), how, bad)
	}

	// ---- R3 argument assembly
	c.Rule("R3", "E3 + E1 + E6 siblings", "both invoke paths: slot i = Value(t.In(i)) for the same i over 0..numIn-1; an unresolved argument returns an error naming the type and cannot reach the call; the call happens after the loop with the assembled slice and its results are returned unchanged", 2)
	for _, nm := range []string{"fastInvoke", "callInvoke"} {
		fn := p.Meth("inject", "injector", nm)
		if fn == nil {
			c.Anchor("injector." + nm)
			continue
		}
		checkInvokePath(c, fn, nm == "fastInvoke")
	}
	if inv := p.Meth("inject", "injector", "Invoke"); inv != nil {
		key := p.FuncKey(inv)
		okF, okC := false, false
		for _, ci := range callsNamed(inv, "(*inject.injector).fastInvoke", "(*inject.injector).callInvoke") {
			a := ci.Common().Args
			if len(a) < 3 {
				continue
			}
			// the arity is handed in, or read from the type by the invoke path itself (checkInvokePath)
			tOK := vCall("reflect.TypeOf", vParam(inv, 1))(a[2]) && (len(a) == 3 || vCall("(reflect.Type).NumIn", vCall("reflect.TypeOf", vParam(inv, 1)))(a[3]))
			if strings.HasSuffix(callName(ci.Common()), "fastInvoke") {
				// argument is the FastInvoker assertion of f
				ta, isTA := strip(a[1]).(*ssa.TypeAssert)
				if e, isE := strip(a[1]).(*ssa.Extract); isE {
					ta, isTA = e.Tuple.(*ssa.TypeAssert)
				}
				okF = tOK && isTA && vParam(inv, 1)(ta.X)
			} else {
				okC = tOK && vParam(inv, 1)(a[1])
			}
		}
		c.Cond(okF && okC, key+":dispatch", p.FuncPos(inv), "FastInvoker → fastInvoke(f, TypeOf(f), NumIn); otherwise callInvoke(f, TypeOf(f), NumIn)", "Invoke does not hand the function, its type and its arity to the two invoke paths")
	} else {
		c.Anchor("injector.Invoke")
	}

	// ---- R4 fast invokers
	c.Rule("R4", "E6 sibling agreement", "every FastInvoker.Invoke calls its function exactly once with args[i].(T) in position i for every parameter and returns its results in declaration order", 4)
	if fi := p.Named("inject", "FastInvoker"); fi != nil {
		for _, fn := range p.Implementations(fi.Underlying().(*types.Interface), "Invoke") {
			checkFastInvoker(c, fn)
		}
	} else {
		c.Anchor("inject.FastInvoker")
	}

	// ---- R9 every handler goes through the injector
	c.Rule("R9", "shared with C03 (R3, R4)", "the run loop hands the selected handler to Invoke on every iteration: no direct call of a handler (or of a wrapped function) bypasses the resolution of its parameters from the scopes", 5)
	c.Share("C03", []string{"R3", "R4"}, 5)

	// ---- R5 Apply
	c.Rule("R5", "E1 guard-cut", "Apply sets field i only when it is settable, tagged `inject` (tag of the same field i) and a valid value of the field's type was found; an unresolved tagged field returns an error", 2)
	if ap := p.Meth("inject", "injector", "Apply"); ap != nil {
		key := p.FuncKey(ap)
		// the value whose fields are visited has been dereferenced through EVERY pointer level: it is used
		// only where its own Kind() == Ptr test has failed (reflect.Indirect removes one level only)
		for _, nf := range callsNamed(ap, "(reflect.Value).NumField", "(reflect.Value).Field") {
			x := nf.Common().Args[0]
			const kindPtr = 22 // reflect.Ptr / reflect.Pointer
			g := union(
				edgesWhere(ap, cCmp(token.EQL, vCall("(reflect.Value).Kind", vIs(x)), vConstInt(kindPtr)), false),
				edgesWhere(ap, cCmp(token.NEQ, vCall("(reflect.Value).Kind", vIs(x)), vConstInt(kindPtr)), true),
			)
			if okG, _ := guardedBy(ap, g, isInstr(nf)); okG && len(g) > 0 {
				c.OK(key+":deref-all", p.Pos(nf.Pos()), "fields are visited on a value whose Kind() is known not to be Ptr (dereference loop)", 1)
			} else {
				c.Bad(key+":deref-all", p.Pos(nf.Pos()), "the struct whose tagged fields are filled is not reached through every pointer level (a loop `for v.Kind() == Ptr { v = v.Elem() }`): Apply(&p) with p already a pointer silently injects nothing and reports no missing dependency")
			}
			break
		}
		sets := callsNamed(ap, "(reflect.Value).Set")
		if len(sets) != 1 {
			c.Undecided(key+":set", p.FuncPos(ap), "expected exactly one reflect.Value.Set")
		} else {
			s := sets[0]
			f, v := s.Common().Args[0], s.Common().Args[1]
			fcall := asCall(f)
			okF := fcall != nil && callName(&fcall.Call) == "(reflect.Value).Field"
			var idx ssa.Value
			if okF {
				idx = fcall.Call.Args[1]
			}
			okV := vCall("(*inject.injector).Value", vParam(ap, 0), vCall("(reflect.Value).Type", vIs(f)))(v)
			canSet := edgesWhere(ap, cBool(vCall("(reflect.Value).CanSet", vIs(f))), true)
			valid := edgesWhere(ap, cBool(vCall("(reflect.Value).IsValid", vIs(v))), true)
			tagOK := EdgeSet{}
			if idx != nil {
				tagOK = edgesWhere(ap, cBool(vExtract(1, vCall("(reflect.StructTag).Lookup", func(t ssa.Value) bool {
					// Tag field of t.Field(i) for the same i
					r, ns, ok := fieldPath(t)
					if !ok || ns[len(ns)-1] != "Tag" {
						return false
					}
					if cl := asCall(r); cl != nil && callName(&cl.Call) == "(reflect.Type).Field" && strip(cl.Call.Args[0]) == strip(idx) {
						return true // t.Field(i).Tag read from the call's result directly
					}
					al, isAl := r.(*ssa.Alloc)
					if !isAl {
						return false
					}
					for _, st := range cellStores(al, 0) {
						if cl := asCall(st.Val); cl != nil && callName(&cl.Call) == "(reflect.Type).Field" && strip(cl.Call.Args[0]) == strip(idx) {
							return true
						}
					}
					return false
				}, vConstStr("inject")))), true)
			}
			g1, _ := guardedBy(ap, canSet, isInstr(s))
			g2, _ := guardedBy(ap, valid, isInstr(s))
			g3, _ := guardedBy(ap, tagOK, isInstr(s))
			c.Cond(okF && okV && g1 && g2 && g3 && len(canSet) > 0 && len(valid) > 0 && len(tagOK) > 0, key+":set", p.Pos(s.Pos()), "f.Set(Value(f.Type())) under CanSet ∧ tag(i) present ∧ IsValid", "Apply can set a field that is not settable/tagged, or with an invalid or wrongly typed value")
			// an error is reported only for a field that is settable and tagged: a field that cannot be injected
			// anyway must not fail the call (nor stop the fields after it from being filled)
			okErr := true
			nErr := 0
			allInstrs(ap, func(in ssa.Instruction) {
				r, isR := in.(*ssa.Return)
				if !isR || len(r.Results) != 1 || vNil(r.Results[0]) {
					return
				}
				nErr++
				e1, _ := guardedBy(ap, canSet, isInstr(r))
				e2, _ := guardedBy(ap, tagOK, isInstr(r))
				if !e1 || !e2 {
					okErr = false
				}
			})
			c.Cond(okErr && nErr > 0, key+":error-only-for-injectable", p.FuncPos(ap), "the missing-value error is returned only under CanSet ∧ tag(i) present", "Apply reports a missing value for a field that is not settable or not tagged (it could not be injected anyway): the call fails and the remaining fields stay unfilled")
			inval := edgesWhere(ap, cBool(vCall("(reflect.Value).IsValid", vIs(v))), false)
			bad := len(inval) == 0
			for e := range inval {
				in, _ := Query{Fn: ap}.Reach(e.B.Succs[e.S], 0, func(in ssa.Instruction) bool {
					r, ok := in.(*ssa.Return)
					return (ok && vNil(r.Results[0])) || in == ssa.Instruction(s)
				})
				if in != nil {
					bad = true
				}
			}
			c.Cond(!bad, key+":unresolved-errors", p.Pos(s.Pos()), "an unresolved tagged field returns a non-nil error", "an unresolved tagged field does not produce an error")
		}
	} else {
		c.Anchor("injector.Apply")
	}

	// ---- R6 scopes
	c.Rule("R6", "E3 provenance", "inject.New returns a fresh injector with a fresh table; newContext embeds a fresh injector and maps Context, http.ResponseWriter and *http.Request on the new context itself", 3)
	if nw := p.Fn("inject", "New"); nw != nil {
		ok := false
		allInstrs(nw, func(in ssa.Instruction) {
			if r, isR := in.(*ssa.Return); isR {
				if al, isAl := strip(r.Results[0]).(*ssa.Alloc); isAl && namedName(derefT(al.Type())) == "injector" {
					for _, rf := range referrers(al) {
						if fa, isFA := rf.(*ssa.FieldAddr); isFA && fieldOf(fa).Name() == "values" {
							for _, rr := range referrers(fa) {
								if st, isSt := rr.(*ssa.Store); isSt {
									_, ok = strip(st.Val).(*ssa.MakeMap)
								}
							}
						}
					}
				}
			}
		})
		c.Cond(ok, p.FuncKey(nw)+":fresh", p.FuncPos(nw), "New() = &injector{values: make(map)}", "inject.New does not return a fresh injector with its own table: scopes share registrations")
	} else {
		c.Anchor("inject.New")
	}
	if nc := p.Fn("flamego", "newContext"); nc != nil {
		key := p.FuncKey(nc)
		var ctx *ssa.Alloc
		allInstrs(nc, func(in ssa.Instruction) {
			if al, ok := in.(*ssa.Alloc); ok && namedName(derefT(al.Type())) == "context" {
				ctx = al
			}
		})
		if ctx == nil {
			c.Bad(key+":fresh-context", p.FuncPos(nc), "newContext does not allocate a context")
		} else {
			okInj := false
			for _, rf := range referrers(ctx) {
				if fa, isFA := rf.(*ssa.FieldAddr); isFA && fieldOf(fa).Name() == "Injector" {
					for _, rr := range referrers(fa) {
						if st, isSt := rr.(*ssa.Store); isSt && st.Addr == ssa.Value(fa) {
							okInj = vCall("inject.New")(st.Val)
						}
					}
				}
			}
			c.Cond(okInj, key+":fresh-scope", p.Pos(ctx.Pos()), "context.Injector = inject.New()", "the request scope is not a fresh injector")
			isCtx := func(v ssa.Value) bool { return strip(v) == ssa.Value(ctx) }
			onCtxInj := func(v ssa.Value) bool {
				r, ns, ok := fieldPath(v)
				return ok && len(ns) == 1 && ns[0] == "Injector" && isCtx(r)
			}
			want := map[string]bool{"Context": false, "ResponseWriter": false, "Request": false}
			allInstrs(nc, func(in ssa.Instruction) {
				ci, ok := in.(ssa.CallInstruction)
				if !ok || !ci.Common().IsInvoke() || !onCtxInj(ci.Common().Value) {
					return
				}
				switch ci.Common().Method.Name() {
				case "MapTo":
					a := ci.Common().Args
					if cst, isC := strip(a[1]).(*ssa.Const); isC && cst.Value == nil {
						if pt, isP := cst.Type().(*types.Pointer); isP {
							n := namedName(pt.Elem())
							if n == "Context" && isCtx(a[0]) {
								want["Context"] = true
							}
							if n == "ResponseWriter" && vField(isCtx, "responseWriter")(a[0]) {
								want["ResponseWriter"] = true
							}
						}
					}
				case "Map":
					if appendsOnly(ci.Common().Args[0], vParam(nc, 1)) {
						want["Request"] = true
					}
				case "Set":
					// Set(key, reflect.ValueOf(v)) is what MapTo(v, (*T)(nil)) and Map(v) do
					a := ci.Common().Args
					val := asCall(a[1])
					if val == nil || callName(&val.Call) != "reflect.ValueOf" {
						return
					}
					v := val.Call.Args[0]
					nilPtrTo := func(x ssa.Value) string {
						if cst, isC := strip(x).(*ssa.Const); isC && cst.Value == nil {
							if pt, isP := cst.Type().(*types.Pointer); isP {
								return namedName(pt.Elem())
							}
						}
						return ""
					}
					ifaceKey := "" // InterfaceOf((*T)(nil)) or TypeOf((*T)(nil)).Elem()
					if k := asCall(a[0]); k != nil {
						switch callName(&k.Call) {
						case "inject.InterfaceOf":
							ifaceKey = nilPtrTo(k.Call.Args[0])
						case "(reflect.Type).Elem":
							if k2 := asCall(k.Call.Args[0]); k2 != nil && callName(&k2.Call) == "reflect.TypeOf" {
								ifaceKey = nilPtrTo(k2.Call.Args[0])
							}
						case "reflect.TypeOf":
							// the dynamic type of the value itself (what Map does), or the same pointer type spelled as a nil constant
							if strip(k.Call.Args[0]) == strip(v) || (nilPtrTo(k.Call.Args[0]) == "Request" && types.Identical(strip(k.Call.Args[0]).Type(), strip(v).Type())) {
								if vParam(nc, 1)(v) {
									want["Request"] = true
								}
							}
						}
					}
					if ifaceKey == "Context" && isCtx(v) {
						want["Context"] = true
					}
					if ifaceKey == "ResponseWriter" && vField(isCtx, "responseWriter")(v) {
						want["ResponseWriter"] = true
					}
				}
			})
			c.Cond(want["Context"] && want["ResponseWriter"] && want["Request"], key+":request-services", p.FuncPos(nc), "Context, http.ResponseWriter (the wrapper) and *http.Request are mapped on the new request scope", "the per-request services are not all mapped on the request's own scope")
			// … and nothing else: a service of the application seeded into every request scope shadows a later
			// registration on the application (own values are consulted before the parent's)
			nMap, nOwn := 0, 0
			allInstrs(nc, func(in ssa.Instruction) {
				ci, ok := in.(ssa.CallInstruction)
				if !ok || !ci.Common().IsInvoke() || !onCtxInj(ci.Common().Value) {
					return
				}
				switch ci.Common().Method.Name() {
				case "Map", "MapTo", "Set":
					// a value of a type the framework itself declares, read from the context's own field (its
					// Params, its *Request): no registration of the application for another purpose can exist
					// under such a type, and nothing is copied from the application scope
					if ci.Common().Method.Name() == "Map" && appendsOnly(ci.Common().Args[0], func(v ssa.Value) bool {
						v = strip(v)
						t := v.Type()
						nt, isN := derefT(t).(*types.Named)
						if !isN || nt.Obj().Pkg() == nil || nt.Obj().Pkg() != p.Pkgs["flamego"].Types {
							return false
						}
						r, ns, ok := fieldPath(v)
						return ok && len(ns) == 1 && isCtx(r)
					}) {
						nOwn++
						return
					}
					nMap++
				}
			})
			c.Extra["framework_typed_request_services"] = nOwn
			extra := nMap > 3
			if cc := p.Meth("flamego", "Flame", "createContext"); cc != nil {
				for _, ci := range callsNamed(cc, "flamego.newContext") {
					ncv := ci.(*ssa.Call)
					allInstrs(cc, func(in ssa.Instruction) {
						x, ok := in.(ssa.CallInstruction)
						if !ok || x == ssa.CallInstruction(ncv) {
							return
						}
						cm := x.Common()
						name := ""
						var on ssa.Value
						if cm.IsInvoke() {
							name, on = cm.Method.Name(), cm.Value
						} else if sc := cm.StaticCallee(); sc != nil && len(cm.Args) > 0 {
							name, on = sc.Name(), cm.Args[0]
						}
						if name != "Map" && name != "MapTo" && name != "Set" {
							return
						}
						if strip(on) == ssa.Value(ncv) {
							extra = true
						} else if r, _, ok := fieldPath(on); ok && r != nil && strip(r) == ssa.Value(ncv) {
							extra = true
						}
					})
				}
			}
			c.Cond(!extra, key+":request-services-only", p.FuncPos(nc), "the framework seeds the request scope with these three services only", "the framework maps a further service into every request scope: it shadows whatever the application registers for that type afterwards (later registration no longer replaces it for handlers)")
		}
	} else {
		c.Anchor("flamego.newContext")
	}
}

// rangeElemOf matches the element variable of a range over parameter i.
func rangeElemOf(fn *ssa.Function, i int) VM {
	return func(v ssa.Value) bool {
		idx, ok := elemIndex(v, vParam(fn, i))
		return ok && ascendingIndex(idx)
	}
}

func checkInvokePath(c *Check, fn *ssa.Function, fast bool) {
	p := c.P
	key := p.FuncKey(fn)
	recv := vParam(fn, 0)
	fP, tP := vParam(fn, 1), vParam(fn, 2)
	// the arity: the fourth parameter (handed in as t.NumIn() by Invoke) or t.NumIn() read here
	nP := vOr(vParam(fn, 3), vCall("(reflect.Type).NumIn", tP))
	// the final call
	var F ssa.CallInstruction
	var zeroArity []ssa.CallInstruction // a separate call with a nil argument list for functions without parameters
	pick := func(ci ssa.CallInstruction) {
		if vNil(ci.Common().Args[len(ci.Common().Args)-1]) {
			zeroArity = append(zeroArity, ci)
			return
		}
		F = ci
	}
	if fast {
		for _, ci := range callsNamed(fn, "(inject.FastInvoker).Invoke") {
			if fP(ci.Common().Value) {
				pick(ci)
			}
		}
	} else {
		for _, ci := range callsNamed(fn, "(reflect.Value).Call") {
			if vCall("reflect.ValueOf", fP)(ci.Common().Args[0]) {
				pick(ci)
			}
		}
	}
	// the nil-argument call is made only where the arity is zero
	for _, z := range zeroArity {
		noArgs := union(edgesWhere(fn, cCmp(token.EQL, nP, vConstInt(0)), true), edgesWhere(fn, cCmp(token.GTR, nP, vConstInt(0)), false))
		g, _ := guardedBy(fn, noArgs, isInstr(z))
		c.Cond(g && len(noArgs) > 0, key+":nil-arguments-only-for-arity-zero", p.Pos(z.Pos()), "the call without arguments is made only where numIn == 0", "the function is called with no arguments although it has parameters")
	}
	if F == nil && len(zeroArity) > 0 {
		F = zeroArity[len(zeroArity)-1]
	}
	if F == nil {
		c.Bad(key+":call", p.FuncPos(fn), "the function is never called")
		return
	}
	in := F.Common().Args[len(F.Common().Args)-1]
	var ms *ssa.MakeSlice
	phiLeaves(in, func(l ssa.Value) {
		if m, ok := l.(*ssa.MakeSlice); ok {
			ms = m
		}
	})
	if ms == nil || !nP(ms.Len) {
		c.Bad(key+":slots", p.Pos(F.Pos()), "the argument slice is not make(_, numIn)")
		return
	}
	// slot stores
	var st *ssa.Store
	allInstrs(fn, func(x ssa.Instruction) {
		if s, ok := x.(*ssa.Store); ok {
			if ia, ok := s.Addr.(*ssa.IndexAddr); ok && strip(ia.X) == ssa.Value(ms) {
				st = s
			}
		}
	})
	if st == nil {
		c.Bad(key+":slots", p.Pos(F.Pos()), "argument slots are never filled")
		return
	}
	i := st.Addr.(*ssa.IndexAddr).Index
	resolved := vCall("(*inject.injector).Value", recv, vCall("(reflect.Type).In", tP, vIs(i)))
	var vv ssa.Value
	okSlot := false
	if fast {
		if cl := asCall(st.Val); cl != nil && callName(&cl.Call) == "(reflect.Value).Interface" && resolved(cl.Call.Args[0]) {
			okSlot, vv = true, cl.Call.Args[0]
		}
	} else if resolved(st.Val) {
		okSlot, vv = true, st.Val
	}
	okLoop := false
	if ph, ok := strip(i).(*ssa.Phi); ok {
		i0, s1 := false, false
		for _, e := range ph.Edges {
			if vConstInt(0)(e) {
				i0 = true
			}
			if vBin(token.ADD, vIs(ph), vConstInt(1))(e) {
				s1 = true
			}
		}
		okLoop = i0 && s1
	}
	if !okLoop && ascendingIndex(i) {
		okLoop = true // `for i := range in` (the rotated form: φ(-1, i+1) + 1)
	}
	c.Cond(okSlot && okLoop, key+":slots", p.Pos(st.Pos()), "in[i] = Value(t.In(i)) with the same i = 0,1,…", "argument slot i is not filled with the value resolved for parameter i: "+vstr(st.Addr)+" = "+vstr(st.Val))
	if vv == nil {
		return
	}
	// completion before the call
	done := union(edgesWhere(fn, cCmp(token.LSS, vIs(i), nP), false), edgesWhere(fn, cCmp(token.GTR, nP, vConstInt(0)), false))
	// `for i := range in`: the loop ends where i reached len(in), and in is make(_, numIn)
	rangeDone := edgesWhere(fn, cCmp(token.LSS, vIs(i), vLen(vIs(ms))), false)
	done = union(done, rangeDone)
	okDone, path := guardedBy(fn, done, isInstr(F))
	if okDone && (len(done) >= 2 || (len(rangeDone) > 0 && len(zeroArity) > 0)) {
		c.OK(key+":call-after-assembly", p.Pos(F.Pos()), "the call is reachable only after i reached numIn (or numIn == 0)", numInstrs(fn))
	} else {
		c.Bad(key+":call-after-assembly", p.Pos(F.Pos()), "the function can be called before every argument was resolved", path)
	}
	// every iteration fills its slot
	// invalid edge: error, no call
	inval := edgesWhere(fn, cBool(vCall("(reflect.Value).IsValid", vIs(vv))), false)
	bad := len(inval) == 0
	for e := range inval {
		x, _ := Query{Fn: fn}.Reach(e.B.Succs[e.S], 0, func(x ssa.Instruction) bool {
			if x == ssa.Instruction(F) || x == ssa.Instruction(st) {
				return true
			}
			r, ok := x.(*ssa.Return)
			if !ok {
				return false
			}
			last := r.Results[len(r.Results)-1]
			return vNil(last) || !derivesFrom(last, vCall("(reflect.Type).In", tP), nil)
		})
		if x != nil {
			bad = true
		}
	}
	c.Cond(!bad, key+":missing-dependency", p.Pos(st.Pos()), "!IsValid ⇒ return an error built from the missing type; the call and the slot store are unreachable", "an unresolved parameter does not stop the invocation with an error naming its type: the body can run with a zero argument")
	valid := edgesWhere(fn, cBool(vCall("(reflect.Value).IsValid", vIs(vv))), true)
	okV, _ := guardedBy(fn, valid, isInstr(st))
	c.Cond(okV && len(valid) > 0, key+":validated-before-use", p.Pos(st.Pos()), "the slot is filled only on the IsValid edge", "a slot can be filled with an invalid value")
	// results returned unchanged
	okRet := false
	allInstrs(fn, func(x ssa.Instruction) {
		r, ok := x.(*ssa.Return)
		if !ok || !vNil(r.Results[len(r.Results)-1]) && !fast {
			return
		}
		call := F.(*ssa.Call)
		if fast {
			if vExtract(0, vIs(call))(r.Results[0]) && vExtract(1, vIs(call))(r.Results[1]) {
				okRet = true
			}
		} else if strip(r.Results[0]) == ssa.Value(call) && vNil(r.Results[1]) {
			okRet = true
		}
	})
	c.Cond(okRet, key+":results", p.Pos(F.Pos()), "results of the call are returned unchanged", "the results of the invoked function are not returned unchanged")
	// exactly once
	if x, _ := (Query{Fn: fn}).After(F, isInstr(F)); x != nil {
		c.Bad(key+":once", p.Pos(F.Pos()), "the function can be called more than once")
	}
}

func checkFastInvoker(c *Check, fn *ssa.Function) {
	p := c.P
	key := p.FuncKey(fn)
	sig, ok := fn.Signature.Recv().Type().Underlying().(*types.Signature)
	if !ok {
		c.Undecided(key, p.FuncPos(fn), "receiver is not a function type")
		return
	}
	var calls []*ssa.Call
	allInstrs(fn, func(in ssa.Instruction) {
		if cl, ok := in.(*ssa.Call); ok && callName(&cl.Call) == "dynamic" && vParam(fn, 0)(cl.Call.Value) {
			calls = append(calls, cl)
		}
	})
	if len(calls) != 1 {
		c.Bad(key+":calls-once", p.FuncPos(fn), "the wrapped function is not called exactly once")
		return
	}
	call := calls[0]
	if in, _ := (Query{Fn: fn}).After(call, isInstr(call)); in != nil {
		c.Bad(key+":calls-once", p.Pos(call.Pos()), "the wrapped function can be called repeatedly")
		return
	}
	if in, _ := (Query{Fn: fn, Avoid: isInstr(call)}).FromEntry(isReturn); in != nil {
		c.Bad(key+":calls-once", p.Pos(call.Pos()), "a path returns without calling the wrapped function")
		return
	}
	okArgs := len(call.Call.Args) == sig.Params().Len()
	for i, a := range call.Call.Args {
		ta, isTA := strip(a).(*ssa.TypeAssert)
		if !isTA || ta.CommaOk || !types.Identical(ta.AssertedType, sig.Params().At(i).Type()) {
			okArgs = false
			continue
		}
		idx, isElem := elemIndex(ta.X, vParam(fn, 1))
		if !isElem || !vConstInt(int64(i))(idx) {
			okArgs = false
		}
	}
	c.Cond(okArgs, key+":args", p.Pos(call.Pos()), "f(args[0].(T0), args[1].(T1), …) position by position", "a fast invoker passes the resolved arguments in the wrong positions")
	// results
	okRes := true
	nres := sig.Results().Len()
	allInstrs(fn, func(in ssa.Instruction) {
		r, ok := in.(*ssa.Return)
		if !ok {
			return
		}
		if !vNil(r.Results[1]) {
			okRes = false
		}
		if nres == 0 {
			if !vNil(r.Results[0]) {
				okRes = false
			}
			return
		}
		// the result list: a slice literal, or make([]reflect.Value, n) filled by index
		var al ssa.Value
		if sl, ok := strip(r.Results[0]).(*ssa.Slice); ok {
			if a, ok := sl.X.(*ssa.Alloc); ok {
				al = a
			}
		} else if ms, ok := strip(r.Results[0]).(*ssa.MakeSlice); ok && vConstInt(int64(nres))(ms.Len) {
			al = ms
		}
		if al == nil {
			okRes = false
			return
		}
		for i := 0; i < nres; i++ {
			if _, isIface := sig.Results().At(i).Type().Underlying().(*types.Interface); isIface {
				// reflect.ValueOf(x) of an interface-typed result loses the static type (a nil error becomes the
				// invalid Value); the reflective path returns a Value of the interface type
				okRes = false
			}
		}
		got := map[int64]bool{}
		refs := referrers(al)
		if sl, ok := strip(r.Results[0]).(*ssa.Slice); ok {
			refs = append(append([]ssa.Instruction{}, refs...), referrers(sl)...) // make([]T, n) with constant n: stores go through the slice
		}
		for _, rf := range refs {
			if ia, ok := rf.(*ssa.IndexAddr); ok {
				k, _ := constInt(ia.Index)
				for _, rr := range referrers(ia) {
					if st, ok := rr.(*ssa.Store); ok && st.Addr == ssa.Value(ia) {
						want := vCall("reflect.ValueOf", vIs(call))
						if nres > 1 {
							want = vCall("reflect.ValueOf", vExtract(int(k), vIs(call)))
						}
						if want(st.Val) {
							got[k] = true
						}
					}
				}
			}
		}
		if len(got) != nres {
			okRes = false
		}
	})
	c.Cond(okRes, key+":results", p.Pos(call.Pos()), "results returned as [ValueOf(r0), ValueOf(r1), …] in declaration order, nil error", "a fast invoker returns the function's results in the wrong order or drops them (the fast path differs from the reflective path)")
}

// isZeroStructValue: a composite literal T{} without any field store (read as a value).
func isZeroStructValue(v ssa.Value) bool {
	v = strip(v)
	if c, ok := v.(*ssa.Const); ok {
		return c.Value == nil
	}
	u, ok := v.(*ssa.UnOp)
	if !ok || u.Op != token.MUL {
		return false
	}
	al, ok := u.X.(*ssa.Alloc)
	if !ok {
		return false
	}
	for _, r := range referrers(al) {
		switch x := r.(type) {
		case *ssa.UnOp:
		case *ssa.DebugRef:
		case *ssa.Store:
			_ = x
			return false
		default:
			return false
		}
	}
	return true
}
