package main

// Loading of /repo's current working tree into typed syntax + go/ssa.
// Nothing here executes flamego code: packages are parsed and type-checked by
// go/packages and lowered to SSA by go/ssa.

import (
	"sync"
	"encoding/json"
	"fmt"
	"go/ast"
	"go/token"
	"go/types"
	"os"
	"os/exec"
	"path/filepath"
	"sort"
	"strings"

	"golang.org/x/tools/go/packages"
	"golang.org/x/tools/go/ssa"
	"golang.org/x/tools/go/ssa/ssautil"
)

const modPath = "github.com/flamego/flamego"

// Short names of the three module packages.
var pkgShort = map[string]string{
	modPath:                     "flamego",
	modPath + "/inject":         "inject",
	modPath + "/internal/route": "route",
}

type Prog struct {
	Repo   string
	Fset   *token.FileSet
	Pkgs   map[string]*packages.Package // by short name
	SSA    map[string]*ssa.Package      // by short name
	Prog   *ssa.Program
	All    []*packages.Package // everything loaded (thorough: incl. deps)
	Whole  bool                // whole-program load
	GOARCH string

	funcs []*ssa.Function // all module functions incl. anonymous, sorted

	Overlay  map[string][]byte
	unproven map[string]string
	req      map[*ssa.Function]bool

	roleFn    map[string]*ssa.Function
	roleField map[string]*types.Var
	roleNotes []string

	preRole   map[string]*ssa.Function
	fwd       sync.Map // *ssa.Function -> *ssa.Function (forwardTarget cache)
	NormNotes []string        // what normalize.go did to the source before analysis
	dropped   map[string]bool // helper functions inlined at every call site ("pkg|recv|name")
}

// NoNormalize disables normalize.go (debugging).
var NoNormalize = false

func goEnv(extra ...string) []string {
	env := []string{}
	for _, e := range os.Environ() {
		if strings.HasPrefix(e, "GOWORK=") || strings.HasPrefix(e, "GOFLAGS=") ||
			strings.HasPrefix(e, "GOPROXY=") || strings.HasPrefix(e, "GOSUMDB=") ||
			strings.HasPrefix(e, "GOTOOLCHAIN=") {
			continue
		}
		env = append(env, e)
	}
	env = append(env, "GOFLAGS=-mod=mod", "GOPROXY=off", "GOSUMDB=off", "GOTOOLCHAIN=local", "GOWORK=off")
	env = append(env, extra...)
	return env
}

// LoadRepo loads the module at repo. overlay maps absolute file names to
// replacement contents (used only by the rule-liveness audit).
func LoadRepo(repo string, whole bool, goarch string, overlay map[string][]byte) (*Prog, error) {
	mode := packages.LoadSyntax
	if whole {
		mode = packages.LoadAllSyntax
	}
	var extra []string
	if goarch != "" {
		extra = append(extra, "GOARCH="+goarch, "CGO_ENABLED=0")
	}
	var normNotes []string
	var inlinedHelpers map[string]bool
	var preloaded []*packages.Package
	if !NoNormalize {
		overlay, preloaded, normNotes, inlinedHelpers = normalizeTree(repo, extra, overlay)
	}
	cfg := &packages.Config{
		Mode:    mode,
		Dir:     repo,
		Env:     goEnv(extra...),
		Tests:   false,
		Overlay: overlay,
	}
	var pkgs []*packages.Package
	var err error
	if preloaded != nil && !whole {
		pkgs = preloaded
	} else {
		pkgs, err = packages.Load(cfg, "./...")
		if err != nil {
			return nil, fmt.Errorf("packages.Load: %v", err)
		}
	}
	if len(pkgs) == 0 {
		return nil, fmt.Errorf("no packages loaded from %s", repo)
	}
	p := &Prog{Repo: repo, Pkgs: map[string]*packages.Package{}, SSA: map[string]*ssa.Package{}, Whole: whole, GOARCH: goarch, Overlay: overlay, NormNotes: normNotes, dropped: inlinedHelpers}
	var errs []string
	packages.Visit(pkgs, nil, func(pk *packages.Package) {
		p.All = append(p.All, pk)
		if _, isMod := pkgShort[pk.PkgPath]; isMod || !whole {
			for _, e := range pk.Errors {
				errs = append(errs, e.Error())
			}
		}
	})
	if len(errs) > 0 {
		return nil, fmt.Errorf("load/type errors: %s", strings.Join(errs, "; "))
	}
	for _, pk := range pkgs {
		if s, ok := pkgShort[pk.PkgPath]; ok {
			p.Pkgs[s] = pk
			p.Fset = pk.Fset
		}
	}
	for _, s := range []string{"flamego", "inject", "route"} {
		if p.Pkgs[s] == nil {
			return nil, fmt.Errorf("module package %q not loaded", s)
		}
		if len(p.Pkgs[s].Syntax) == 0 || p.Pkgs[s].TypesInfo == nil {
			return nil, fmt.Errorf("module package %q has no syntax/type info", s)
		}
	}
	// Every non-test Go file of the module must be part of the analysis.
	if err := p.checkIgnoredFiles(extra); err != nil {
		return nil, err
	}

	bmode := ssa.InstantiateGenerics
	var prog *ssa.Program
	var spkgs []*ssa.Package
	if whole {
		prog, _ = ssautil.AllPackages(pkgs, bmode)
		prog.Build()
		for _, pk := range pkgs {
			spkgs = append(spkgs, prog.Package(pk.Types))
		}
	} else {
		prog, spkgs = ssautil.Packages(pkgs, bmode)
		prog.Build()
	}
	p.Prog = prog
	for i, pk := range pkgs {
		if s, ok := pkgShort[pk.PkgPath]; ok {
			if spkgs[i] == nil {
				return nil, fmt.Errorf("no SSA for %s", pk.PkgPath)
			}
			p.SSA[s] = spkgs[i]
		}
	}
	p.aliasMethodFuncs()
	for _, cf := range canonFuncs {
		if cf.Recv == "" {
			if sp := p.SSA[cf.Pkg]; sp != nil {
				p.forwardTarget(sp.Func(cf.Name))
			}
		}
	}
	p.collectFuncs()
	if len(p.funcs) < 100 {
		return nil, fmt.Errorf("only %d module functions found; expected > 100", len(p.funcs))
	}
	p.resolveRoles()
	return p, nil
}

func (p *Prog) checkIgnoredFiles(extra []string) error {
	cmd := exec.Command("go", "list", "-json=ImportPath,IgnoredGoFiles,Dir", "./...")
	cmd.Dir = p.Repo
	cmd.Env = goEnv(extra...)
	out, err := cmd.Output()
	if err != nil {
		return fmt.Errorf("go list: %v", err)
	}
	dec := json.NewDecoder(strings.NewReader(string(out)))
	for dec.More() {
		var e struct {
			ImportPath     string
			Dir            string
			IgnoredGoFiles []string
		}
		if err := dec.Decode(&e); err != nil {
			return err
		}
		for _, f := range e.IgnoredGoFiles {
			if strings.HasSuffix(f, "_test.go") {
				continue
			}
			// A build-tagged file excluded from the analysis: the check cannot speak for it.
			if p.GOARCH == "" {
				return fmt.Errorf("non-test Go file %s/%s is excluded by build constraints and is not analysed", e.Dir, f)
			}
		}
	}
	return nil
}

func (p *Prog) collectFuncs() {
	seen := map[*ssa.Function]bool{}
	var add func(f *ssa.Function)
	add = func(f *ssa.Function) {
		if f == nil || seen[f] {
			return
		}
		if f.Parent() == nil && f.Pkg != nil && p.dropped != nil {
			key := pkgShort[f.Pkg.Pkg.Path()] + "|" + recvStr(f.Signature) + "|" + f.Name()
			if p.dropped[key] && p.noCallers(f) {
				return
			}
		}
		seen[f] = true
		p.funcs = append(p.funcs, f)
		for _, a := range f.AnonFuncs {
			add(a)
		}
	}
	for _, sp := range p.SSA {
		for _, m := range sp.Members {
			switch m := m.(type) {
			case *ssa.Function:
				add(m)
			case *ssa.Type:
				t := m.Type()
				for _, tt := range []types.Type{t, types.NewPointer(t)} {
					ms := p.Prog.MethodSets.MethodSet(tt)
					for i := 0; i < ms.Len(); i++ {
						f := p.Prog.MethodValue(ms.At(i))
						if f != nil && f.Pkg == sp && f.Synthetic == "" {
							add(f)
						}
					}
				}
			}
		}
	}
	sort.Slice(p.funcs, func(i, j int) bool { return p.FuncKey(p.funcs[i]) < p.FuncKey(p.funcs[j]) })
}

// Funcs returns all source functions of the module (incl. function literals).
func (p *Prog) Funcs() []*ssa.Function { return p.funcs }

// FuncKey is the stable construct key of a function: pkg.Func,
// pkg.(*T).Method, with "$n" suffixes for function literals.
func (p *Prog) FuncKey(f *ssa.Function) string {
	if f == nil {
		return "<nil>"
	}
	if f.Parent() != nil {
		return p.FuncKey(f.Parent()) + strings.TrimPrefix(f.Name(), f.Parent().Name())
	}
	pk := ""
	if f.Pkg != nil {
		pk = pkgShort[f.Pkg.Pkg.Path()]
		if pk == "" {
			pk = f.Pkg.Pkg.Path()
		}
	}
	if recv := f.Signature.Recv(); recv != nil {
		return pk + "." + recvString(recv.Type()) + "." + f.Name()
	}
	return pk + "." + f.Name()
}

func recvString(t types.Type) string {
	if pt, ok := t.(*types.Pointer); ok {
		return "(*" + namedName(pt.Elem()) + ")"
	}
	return namedName(t)
}

func namedName(t types.Type) string {
	if n, ok := t.(*types.Named); ok {
		return n.Obj().Name()
	}
	return t.String()
}

// Fn returns the package-level function pkg.name or nil.
func (p *Prog) Fn(pkg, name string) *ssa.Function {
	sp := p.SSA[pkg]
	if sp == nil {
		return nil
	}
	if f := sp.Func(name); f != nil {
		// a canonical function that only forwards to a new, extended variant of itself
		// (newContext → newContextWithX(same arguments…, extra)) is represented by that variant
		if g := p.forwardTarget(f); g != nil {
			return g
		}
		return f
	}
	return p.roleFn[roleKey(pkg, "", name)]
}

// forwardTarget: f's body is `return g(f's parameters in order, extra…)` for a module function g
// of the same package: g (aliased to f's name) stands for f.
func (p *Prog) forwardTarget(f *ssa.Function) *ssa.Function {
	if f == nil || len(f.Blocks) != 1 || f.Signature.Recv() != nil {
		return nil
	}
	if v, ok := p.fwd.Load(f); ok {
		g, _ := v.(*ssa.Function)
		return g
	}
	var call *ssa.Call
	n := 0
	for _, in := range f.Blocks[0].Instrs {
		switch x := in.(type) {
		case *ssa.Call:
			call = x
			n++
		case *ssa.Return, *ssa.Extract, *ssa.DebugRef, *ssa.Alloc, *ssa.Store, *ssa.UnOp, *ssa.FieldAddr, *ssa.MakeInterface:
		default:
			n += 10
		}
	}
	var g *ssa.Function
	if call != nil && n == 1 {
		if cal := call.Call.StaticCallee(); cal != nil && cal.Pkg == f.Pkg && cal != f && len(call.Call.Args) >= len(f.Params) && (len(f.Params) > 0 || len(call.Call.Args) > 0) {
			ok := true
			// the appended arguments are constants (nil, zero values, literals): the canonical entry is the
			// extended variant at a fixed setting, which is analysed for every setting
			for _, a := range call.Call.Args[len(f.Params):] {
				if _, isC := strip(a).(*ssa.Const); !isC && len(f.Params) == 0 {
					ok = false
				}
			}
			for i, prm := range f.Params {
				if call.Call.Args[i] != ssa.Value(prm) {
					ok = false
				}
			}
			if ok {
				g = cal
				funcAlias.Store(g, shortName(f.Object().(*types.Func).FullName()))
				p.NormNotes = append(p.NormNotes, fmt.Sprintf("%s only forwards to %s (same arguments, more appended): %s is analysed in its place", f.Name(), g.Name(), g.Name()))
			}
		}
	}
	p.fwd.Store(f, g)
	return g
}

// Named returns the named type pkg.name or nil.
func (p *Prog) Named(pkg, name string) *types.Named {
	pk := p.Pkgs[pkg]
	if pk == nil {
		return nil
	}
	o := pk.Types.Scope().Lookup(name)
	if o == nil {
		return nil
	}
	tn, ok := o.(*types.TypeName)
	if !ok {
		return nil
	}
	n, _ := tn.Type().(*types.Named)
	return n
}

// Meth returns the declared method (pointer or value receiver) typ.name.
func (p *Prog) Meth(pkg, typ, name string) *ssa.Function {
	n := p.Named(pkg, typ)
	if n == nil {
		return nil
	}
	for _, tt := range []types.Type{types.NewPointer(n), n} {
		sel := p.Prog.MethodSets.MethodSet(tt).Lookup(p.Pkgs[pkg].Types, name)
		if sel == nil {
			continue
		}
		f := p.Prog.MethodValue(sel)
		if f == nil {
			continue
		}
		// Unwrap promoted-method wrappers: only accept methods declared on typ itself.
		if f.Synthetic != "" {
			continue
		}
		if r := f.Signature.Recv(); r != nil && namedName(derefT(r.Type())) == typ {
			return f
		}
	}
	if p.roleFn != nil {
		return p.roleFn[roleKey(pkg, typ, name)]
	}
	return nil
}

func derefT(t types.Type) types.Type {
	if pt, ok := t.Underlying().(*types.Pointer); ok {
		return pt.Elem()
	}
	return t
}

// Field returns the field object typ.name (searching the struct itself only).
func (p *Prog) Field(pkg, typ, name string) *types.Var {
	n := p.Named(pkg, typ)
	if n == nil {
		return nil
	}
	st, ok := n.Underlying().(*types.Struct)
	if !ok {
		return nil
	}
	for i := 0; i < st.NumFields(); i++ {
		if st.Field(i).Name() == name {
			return st.Field(i)
		}
	}
	if p.roleField != nil {
		return p.roleField[typ+"."+name]
	}
	return nil
}

// Pos renders a position relative to the repo root.
func (p *Prog) Pos(pos token.Pos) string {
	if !pos.IsValid() {
		return "?"
	}
	ps := p.Fset.Position(pos)
	rel, err := filepath.Rel(p.Repo, ps.Filename)
	if err != nil {
		rel = ps.Filename
	}
	return fmt.Sprintf("%s:%d", rel, ps.Line)
}

// FuncPos is the position of a function's declaration.
func (p *Prog) FuncPos(f *ssa.Function) string {
	if f == nil {
		return "?"
	}
	return p.Pos(f.Pos())
}

// Implementations returns the declared methods named name of all module types
// (pointer receivers included) that implement iface.
func (p *Prog) Implementations(iface *types.Interface, name string) []*ssa.Function {
	var out []*ssa.Function
	seen := map[*ssa.Function]bool{}
	for _, pk := range p.Pkgs {
		sc := pk.Types.Scope()
		for _, n := range sc.Names() {
			tn, ok := sc.Lookup(n).(*types.TypeName)
			if !ok || tn.IsAlias() {
				continue
			}
			t := tn.Type()
			if _, isIface := t.Underlying().(*types.Interface); isIface {
				continue
			}
			for _, tt := range []types.Type{t, types.NewPointer(t)} {
				if !types.Implements(tt, iface) {
					continue
				}
				sel := p.Prog.MethodSets.MethodSet(tt).Lookup(pk.Types, name)
				if sel == nil {
					// exported method declared in another package
					sel = p.Prog.MethodSets.MethodSet(tt).Lookup(nil, name)
				}
				if sel == nil {
					continue
				}
				f := p.Prog.MethodValue(sel)
				// Resolve promotion wrappers to the declared method.
				if f != nil && f.Synthetic != "" {
					if d := p.Prog.FuncValue(sel.Obj().(*types.Func)); d != nil {
						f = d
					}
				}
				if f != nil && !seen[f] {
					seen[f] = true
					out = append(out, f)
				}
			}
		}
	}
	sort.Slice(out, func(i, j int) bool { return p.FuncKey(out[i]) < p.FuncKey(out[j]) })
	return out
}

// FileAST returns the parsed file whose repo-relative name is rel.
func (p *Prog) FileAST(rel string) (*ast.File, *packages.Package) {
	for _, pk := range p.Pkgs {
		for _, f := range pk.Syntax {
			name := p.Fset.Position(f.Pos()).Filename
			if r, _ := filepath.Rel(p.Repo, name); r == rel {
				return f, pk
			}
		}
	}
	return nil, nil
}

// Files lists repo-relative names of analysed files.
func (p *Prog) Files() []string {
	var out []string
	for _, pk := range p.Pkgs {
		for _, f := range pk.CompiledGoFiles {
			if r, err := filepath.Rel(p.Repo, f); err == nil {
				out = append(out, r)
			}
		}
	}
	sort.Strings(out)
	return out
}


// noCallers: no instruction of the module refers to f (every call was inlined).
func (p *Prog) noCallers(f *ssa.Function) bool {
	for _, sp := range p.SSA {
		for _, m := range sp.Members {
			var fns []*ssa.Function
			switch m := m.(type) {
			case *ssa.Function:
				fns = append(fns, m)
			case *ssa.Type:
				for _, tt := range []types.Type{m.Type(), types.NewPointer(m.Type())} {
					ms := p.Prog.MethodSets.MethodSet(tt)
					for i := 0; i < ms.Len(); i++ {
						if g := p.Prog.MethodValue(ms.At(i)); g != nil && g.Pkg == sp {
							fns = append(fns, g)
						}
					}
				}
			}
			for len(fns) > 0 {
				g := fns[0]
				fns = append(fns[1:], g.AnonFuncs...)
				if g == f {
					continue
				}
				for _, b := range g.Blocks {
					for _, in := range b.Instrs {
						for _, op := range in.Operands(nil) {
							if *op == ssa.Value(f) {
								return false
							}
						}
					}
				}
			}
		}
	}
	return true
}

// aliasMethodFuncs: a canonical method that became a plain function taking the
// receiver first is found under the canonical name (normalize.go, step 2).
func (p *Prog) aliasMethodFuncs() {
	al := methodToFuncAliases(p.Pkgs)
	if len(al) == 0 {
		return
	}
	if p.roleFn == nil {
		p.roleFn = map[string]*ssa.Function{}
	}
	p.preRole = map[string]*ssa.Function{}
	for fk, ck := range al {
		parts := strings.SplitN(fk, ".", 2)
		sp := p.SSA[parts[0]]
		if sp == nil {
			continue
		}
		f := sp.Func(parts[1])
		if f == nil {
			continue
		}
		c := strings.Split(ck, "|") // pkg|recv|name
		typ := strings.TrimPrefix(c[1], "*")
		p.preRole[roleKey(c[0], typ, c[2])] = f
		recv := c[1]
		name := "(" + c[0] + "." + recv + ")." + c[2]
		if strings.HasPrefix(recv, "*") {
			name = "(*" + c[0] + "." + recv[1:] + ")." + c[2]
		}
		funcAlias.Store(f, name)
		p.NormNotes = append(p.NormNotes, fmt.Sprintf("function %s is treated as the method %s (same parameters, receiver first)", fk, name))
	}
}

// purgeCaches drops the entries of the process-wide memo tables that belong to one analysed program,
// so that a finished variant of the audit can be collected (the tables are keyed by SSA objects and
// would otherwise keep every variant's whole program alive).
func purgeCaches(p *Prog) {
	if p == nil || p.Prog == nil {
		return
	}
	ownFn := func(f *ssa.Function) bool { return f != nil && f.Prog == p.Prog }
	ownVal := func(v ssa.Value) bool {
		if v == nil {
			return false
		}
		if f, ok := v.(*ssa.Function); ok {
			return ownFn(f)
		}
		if g, ok := v.(*ssa.Global); ok {
			return g.Pkg != nil && g.Pkg.Prog == p.Prog
		}
		return ownFn(v.Parent())
	}
	windowCache.Delete(p.Prog)
	lemmaCache.Range(func(k, _ any) bool {
		if f, ok := k.(*ssa.Function); ok && ownFn(f) {
			lemmaCache.Delete(k)
		}
		return true
	})
	funcAlias.Range(func(k, _ any) bool {
		if f, ok := k.(*ssa.Function); ok && ownFn(f) {
			funcAlias.Delete(k)
		}
		return true
	})
	getterCache.Range(func(k, _ any) bool {
		if f, ok := k.(*ssa.Function); ok && ownFn(f) {
			getterCache.Delete(k)
		}
		return true
	})
	atomReg.Range(func(k, v any) bool {
		ak, ok := k.(atomKey)
		if ok && (ownVal(ak.x) || ownVal(v.(ssa.Value))) {
			atomReg.Delete(k)
		}
		return true
	})
	pkgs := map[*types.Package]bool{}
	for _, pk := range p.Pkgs {
		if pk != nil && pk.Types != nil {
			pkgs[pk.Types] = true
		}
	}
	fieldAlias.Range(func(k, _ any) bool {
		if v, ok := k.(*types.Var); ok && pkgs[v.Pkg()] {
			fieldAlias.Delete(k)
		}
		return true
	})
}
