package main

// C01 Dispatch: a route is chosen iff one admits the path, by the documented priority.

import (
	"go/constant"
	"fmt"
	"go/token"
	"go/types"
	"strings"

	"golang.org/x/tools/go/ssa"
)

func init() { register("C01", checkC01) }

// ascendingIndex reports whether idx enumerates 0,1,2,… : either the
// range-loop form (φ(-1, n) + 1) or the classic form φ(0, φ+1).
func ascendingIndex(idx ssa.Value) bool {
	idx = strip(idx)
	if b, ok := idx.(*ssa.BinOp); ok && b.Op == token.ADD && vConstInt(1)(b.Y) {
		if ph, ok := strip(b.X).(*ssa.Phi); ok && len(ph.Edges) >= 2 {
			init, step := false, true
			for _, e := range ph.Edges {
				if vConstInt(-1)(e) {
					init = true
				} else if strip(e) != ssa.Value(b) {
					step = false
				}
			}
			return init && step
		}
	}
	if ph, ok := idx.(*ssa.Phi); ok && len(ph.Edges) >= 2 {
		init, step := false, true
		for _, e := range ph.Edges {
			if vConstInt(0)(e) {
				init = true
			} else if !vBin(token.ADD, vIs(ph), vConstInt(1))(e) {
				step = false
			}
		}
		return init && step
	}
	return false
}

// elemOf matches a load of list[idx] and returns idx.
func elemIndex(v ssa.Value, list VM) (ssa.Value, bool) {
	u, ok := strip(v).(*ssa.UnOp)
	if !ok || u.Op != token.MUL {
		return nil, false
	}
	ia, ok := u.X.(*ssa.IndexAddr)
	if !ok || !list(ia.X) {
		return nil, false
	}
	return ia.Index, true
}

func vElem(list VM, idx VM) VM {
	return func(v ssa.Value) bool {
		i, ok := elemIndex(v, list)
		return ok && idx(i)
	}
}

// falseVerdict returns a predicate recognising returns of fn whose last
// (boolean) result may be false: not the constant true, and not a value that
// is known true because the return is only reachable through its true edge.
func falseVerdict(fn *ssa.Function) func(ssa.Instruction) bool {
	return func(in ssa.Instruction) bool {
		r, ok := in.(*ssa.Return)
		if !ok || len(r.Results) == 0 {
			return false
		}
		last := r.Results[len(r.Results)-1]
		if vConstBool(true)(last) {
			return false
		}
		if vConstBool(false)(last) {
			return true
		}
		g := edgesWhere(fn, cBool(vIs(last)), true)
		if len(g) > 0 {
			if ok, _ := guardedBy(fn, g, isInstr(in)); ok {
				return false
			}
		}
		return true
	}
}

func checkC01(c *Check) {
	p := c.P
	c.Explain = "rank table extraction, comparator/scan normal form of both insertion sites (value provenance + cut-reachability), fall-through of failed siblings, match-all fallback and growth order, sibling agreement of capture bounds and regex acceptance; structural necessary conditions of the documented priority order"
	c.NotDec = []string{
		"that these mechanisms compose to the documented total order for every route set and path (needs execution or a model)",
		"arithmetic of capture counting beyond the normal forms checked",
		"regexp semantics",
	}

	// ---- R1 rank table
	c.Rule("R1", "E7 table", "match-style ranks: none < static < regex < placeholder < all, all distinct; every tree/leaf type reports the rank of its kind", 9)
	names := []string{"matchStyleNone", "matchStyleStatic", "matchStyleRegex", "matchStylePlaceholder", "matchStyleAll"}
	vals := map[string]int64{}
	okTable := true
	for _, n := range names {
		v, ok := p.constVal("route", n)
		if !ok {
			c.Anchor("route." + n)
			okTable = false
		}
		vals[n] = v
	}
	if !okTable {
		return
	}
	strict := true
	for i := 1; i < len(names); i++ {
		if !(vals[names[i-1]] < vals[names[i]]) {
			strict = false
		}
	}
	c.Cond(strict, "route.MatchStyle:rank-order", p.Pos(p.Pkgs["route"].Types.Scope().Lookup("matchStyleStatic").Pos()),
		fmt.Sprintf("none=%d < static=%d < regex=%d < placeholder=%d < all=%d", vals[names[0]], vals[names[1]], vals[names[2]], vals[names[3]], vals[names[4]]),
		"match-style constants are not strictly ordered none < static < regex < placeholder < all: priority between kinds of segments changes")
	kindOf := map[string]string{"static": "matchStyleStatic", "regex": "matchStyleRegex", "placeholder": "matchStylePlaceholder", "matchAll": "matchStyleAll", "base": "matchStyleNone"}
	for _, ifn := range []string{"Tree", "Leaf"} {
		n := p.Named("route", ifn)
		if n == nil {
			c.Anchor("route." + ifn)
			continue
		}
		for _, fn := range p.Implementations(n.Underlying().(*types.Interface), "getMatchStyle") {
			tn := namedName(derefT(fn.Signature.Recv().Type()))
			kind := strings.TrimSuffix(strings.TrimSuffix(tn, "Tree"), "Leaf")
			want, known := kindOf[kind]
			key := p.FuncKey(fn) + ":rank"
			if !known {
				c.Undecided(key, p.FuncPos(fn), "node type "+tn+" has no known kind")
				continue
			}
			ok := true
			n := 0
			allInstrs(fn, func(in ssa.Instruction) {
				if r, isR := in.(*ssa.Return); isR {
					n++
					if !vConstInt(vals[want])(r.Results[0]) {
						ok = false
					}
				}
			})
			c.Cond(ok && n > 0, key, p.FuncPos(fn), tn+" reports "+want, tn+" does not report "+want+": nodes of this kind are ranked as another kind")
		}
	}
	kAll := vals["matchStyleAll"]

	// ---- R2 rank-ordered stable insertion
	c.Rule("R2", "E3 provenance + E1", "both sibling lists are extended by a forward scan from 0 over the receiver's own current list that stops at the first element the new node strictly outranks (strict < ⇒ FIFO among equals), inserting exactly there", 2)
	for _, site := range []struct{ setter, getter, ctor, style string }{
		{"(route.Tree).setLeaves", "(route.Tree).getLeaves", "route.newLeaf", "(route.Leaf).getMatchStyle"},
		{"(route.Tree).setSubtrees", "(route.Tree).getSubtrees", "route.newTree", "(route.Tree).getMatchStyle"},
	} {
		found := false
		for _, fn := range p.Funcs() {
			if fn.Pkg != p.SSA["route"] {
				continue
			}
			for _, s := range callsNamed(fn, site.setter) {
				// skip the trivial setter implementations themselves
				found = true
				checkInsertion(c, fn, s, site.getter, site.ctor, site.style)
			}
		}
		if !found {
			c.Anchor("a caller of " + site.setter)
		}
	}

	// ---- R3 sibling fall-through, ascending order
	c.Rule("R3", "E1 cut-reachability", "siblings are tried in list order from index 0; a failed sibling (own match or deeper match) leads to the next sibling or to the post-loop fallback, never directly to a no-match return", 4)
	mSub := p.Meth("route", "baseTree", "matchSubtree")
	mLeaf := p.Meth("route", "baseTree", "matchLeaf")
	if mSub == nil || mLeaf == nil {
		c.Anchor("baseTree.matchSubtree / matchLeaf")
	} else {
		checkSiblingLoop(c, mSub, "subtrees", []string{"(route.Tree).match", "(route.Tree).matchNextSegment"}, kAll)
		checkSiblingLoop(c, mLeaf, "leaves", []string{"(route.Leaf).match"}, kAll)
	}

	// ---- R4 match-all leaf fallback
	c.Rule("R4", "E1 cut-reachability", "after the subtree loop, a no-match return is reachable only if there is no leaf, the LAST leaf is not match-all, or its matchAll failed", 1)
	if mSub != nil {
		checkMatchAllFallback(c, mSub, kAll)
	}

	// ---- R5/R6 match-all subtree growth and capture bounds
	c.Rule("R5", "E2 order + E3", "the match-all subtree attempts the deeper match before extending, extends by exactly one segment per iteration, and binds the accumulated segment only on success", 4)
	c.Rule("R6", "E6 sibling agreement", "tree and leaf match-all accept iff capture <= 0 or captured <= capture (inclusive; non-positive = unlimited)", 2)
	checkMatchAllTree(c)
	checkMatchAllLeafBound(c)

	// ---- R7 method selects the tree; entry of matching
	c.Rule("R7", "E3 provenance", "the tree is routeTrees[req.Method]; a missing tree or a failed match goes to not-found; Match strips leading slashes and starts at cursor 0; the cursor splits at the first '/'", 4)
	checkDispatchEntry(c)

	// ---- R11 what is dispatched is what this request's lookup found
	c.Rule("R11", "shared with C07 (R1)", "a leaf is dispatched only as the result of this request's own shortcut lookup or tree match, and the not-found chain runs only after the tree was asked: no cache of earlier outcomes stands between registration and dispatch", 6)
	c.Share("C07", []string{"R1"}, 6)

	// ---- R10 the shortcut dispatches exactly what the tree would
	c.Rule("R10", "shared with C10 (R1, R2, R4, R5)", "a request answered by the shortcut table is one the tree admits for the same leaf: insert only static non-optional leaves under their own route text, look up by the unmodified (method, path), static nodes compare their canonical text exactly", 8)
	c.Share("C10", []string{"R1", "R2", "R4", "R5", "R6"}, 8)

	// ---- R8 optional short form
	c.Rule("R8", "E3 provenance + E1", "an optional last segment registers a second leaf one level up (or the root path) with the same route and handler before the long form is stored", 2)
	checkOptionalShortForm(c)

	// ---- R9 regex acceptance independent of user groups
	c.Rule("R9", "E6 sibling agreement", "regex tree and regex leaf reject a segment only when the expression did not match (nil sub-matches), never by comparing the number of sub-matches with the number of binds", 2)
	checkRegexAcceptance(c)

	// ---- R13 the kind of a segment is decided by its syntax alone
	c.Rule("R13", "E1 guard-cut / value implication", "the style interpreters classify by syntax: static only for a single literal element, placeholder only for a single {bind} element other than **, match-all only behind the ** test of the bind or of its first parameter's literal (a segment read as another kind gets that kind's rank)", 3)
	checkClassifiers(c)

	// ---- R12 the route that is matched is the route that was written
	c.Rule("R12", "shared with C11 (R2)", "inside groups the registered text is the group prefixes followed by the route's own text, byte for byte (no cleaning, joining or collapsing): a trailing or doubled slash is a segment of its own for the matcher", 3)
	c.Share("C11", []string{"R2"}, 3)
}

func checkInsertion(c *Check, fn *ssa.Function, s ssa.CallInstruction, getter, ctor, style string) {
	p := c.P
	key := p.FuncKey(fn) + ":insert-" + strings.TrimPrefix(getter, "(route.Tree).get")
	pos := p.Pos(s.Pos())
	tParam := vParam(fn, 0)
	if !tParam(s.Common().Value) {
		c.Bad(key+":target", pos, "the extended list is stored into "+vstr(s.Common().Value)+" rather than the tree being extended")
		return
	}
	isOld := vPhiAll(vCall(getter, tParam))
	isNew := func(v ssa.Value) bool {
		return vExtract(0, vCall(ctor, tParam))(v)
	}
	var newV, idxV, oldV ssa.Value
	// Every phi leaf of the stored list must be an insertion form.
	okForms := true
	why := ""
	nForms := 0
	phiLeaves(s.Common().Args[0], func(l ssa.Value) {
		nForms++
		a := asCall(l)
		if a == nil || callName(&a.Call) != "builtin.append" {
			okForms, why = false, "stored list is not an append: "+vstr(l)
			return
		}
		base, tail := a.Call.Args[0], a.Call.Args[1]
		// form C (tried first: its filler may be the new node itself):
		// g = append(old, x); copy(g[i+1:], g[i:]); g[i] = new
		if isOld(base) {
			if i, ok := growShiftSet(fn, a, isNew); ok {
				idxV = i
				oldV = base
				return
			}
		}
		// form B: append(old, new)
		if isOld(base) {
			if appendsOnly(tail, isNew) {
				oldV = base
				return
			}
		}
		// form A: append(old[:i], append([new], old[i:]...)...)
		if sl, ok := strip(base).(*ssa.Slice); ok && isOld(sl.X) && sl.Low == nil && sl.High != nil {
			if a2 := asCall(tail); a2 != nil && callName(&a2.Call) == "builtin.append" {
				if appendsOnlySliceLit(a2.Call.Args[0], isNew) {
					if sl2, ok := strip(a2.Call.Args[1]).(*ssa.Slice); ok && strip(sl2.X) == strip(sl.X) && sl2.High == nil && sl2.Low != nil && strip(sl2.Low) == strip(sl.High) {
						idxV = sl.High
						oldV = sl.X
						return
					}
				}
			}
		}
		// form C: g = append(old, zero); copy(g[i+1:], g[i:]); g[i] = new
		if isOld(base) {
			if i, ok := growShiftSet(fn, a, isNew); ok {
				idxV = i
				oldV = base
				return
			}
		}
		// form D (a fresh backing array): append(append(append(make([]T, 0, …), old[:i]...), new), old[i:]...)
		if sl2, ok := strip(tail).(*ssa.Slice); ok && isOld(sl2.X) && sl2.High == nil && sl2.Low != nil {
			if a2 := asCall(base); a2 != nil && callName(&a2.Call) == "builtin.append" && appendsOnly(a2.Call.Args[1], isNew) {
				if a1 := asCall(a2.Call.Args[0]); a1 != nil && callName(&a1.Call) == "builtin.append" {
					mk, isMk := strip(a1.Call.Args[0]).(*ssa.MakeSlice)
					sl1, isSl := strip(a1.Call.Args[1]).(*ssa.Slice)
					if isMk && vConstInt(0)(mk.Len) && isSl && strip(sl1.X) == strip(sl2.X) && sl1.Low == nil && sl1.High != nil && strip(sl1.High) == strip(sl2.Low) {
						idxV = sl1.High
						oldV = sl1.X
						return
					}
				}
			}
		}
		okForms, why = false, "unrecognised insertion form: "+vstr(l)
	})
	if !okForms || nForms == 0 || oldV == nil {
		c.Undecided(key+":form", pos, why)
		return
	}
	// locate new node value
	allInstrs(fn, func(in ssa.Instruction) {
		if v, ok := in.(ssa.Value); ok && isNew(v) {
			newV = v
		}
	})
	if newV == nil {
		c.Bad(key+":new-node", pos, "the inserted node is not the result of "+ctor+"(t, …) of this activation")
		return
	}
	if idxV == nil {
		// append-only: no rank ordering at all
		c.Bad(key+":scan", pos, "the new node is always appended: siblings are not ordered by match-style rank")
		return
	}
	i := vIs(idxV)
	old := vIs(oldV)
	iphi, isPhi := strip(idxV).(*ssa.Phi)
	if isPhi && !ascendingIndex(idxV) && len(iphi.Edges) == 2 {
		// i := len(list); for j := range list { if new outranks list[j] { i = j; break } }: the index is
		// φ(len(list) where the walk was exhausted, j where it stopped)
		var jv ssa.Value
		lenEdge, jEdge := -1, -1
		for k, e := range iphi.Edges {
			switch {
			case vLen(old)(e):
				lenEdge = k
			case ascendingIndex(e):
				jv, jEdge = e, k
			}
		}
		if jv != nil && lenEdge >= 0 {
			j := vIs(jv)
			less := cCmp(token.LSS, vCall(style, vIs(newV)), vCall(style, vElem(old, j)))
			notLess := edgesWhere(fn, less, false)
			isLess := edgesWhere(fn, less, true)
			atEnd := edgesWhere(fn, cCmp(token.LSS, j, vLen(old)), false)
			blk := iphi.Block()
			okJ := len(isLess) > 0 && edgeGuarded(fn, isLess, blk.Preds[jEdge], blk)
			okLen := len(atEnd) > 0 && edgeGuarded(fn, atEnd, blk.Preds[lenEdge], blk)
			// moving on to the next element requires that the new node does not outrank this one
			okAdvance := len(notLess) > 0
			if ji, isI := strip(jv).(ssa.Instruction); isI {
				hb := ji.Block()
				allInstrs(fn, func(in ssa.Instruction) {
					v, isV := in.(ssa.Value)
					if !isV || !vCall(style, vElem(old, j))(v) {
						return
					}
					if x, _ := (Query{Fn: fn, Cut: notLess}).After(in, func(y ssa.Instruction) bool {
						return y.Block() == hb && len(hb.Instrs) > 0 && hb.Instrs[0] == y
					}); x != nil {
						okAdvance = false
					}
				})
			} else {
				okAdvance = false
			}
			in3, path3 := Query{Fn: fn, Cut: union(isLess, atEnd)}.FromEntry(isInstr(s))
			switch {
			case !okJ || !okAdvance:
				c.Bad(key+":comparator", pos, "the walk does not stop at the first sibling that the new node STRICTLY outranks (style(new) < style(existing)), or moves on past one it outranks")
			case !okLen:
				c.Bad(key+":comparator", pos, "the default position len(list) is used although the walk was not exhausted")
			case in3 != nil:
				c.Bad(key+":comparator", pos, "the walk can be left by a condition other than `new outranks list[j]` or the end of the list", blockPath(path3))
			default:
				c.OK(key+":comparator", pos, "i = first j with style(new) < style(list[j]), else len(list); insert at i (strict <, stable)", numInstrs(fn))
			}
			checkListNotStale(c, fn, s, oldV, getter, key, newV)
			return
		}
	}
	if !isPhi || !ascendingIndex(idxV) {
		c.Bad(key+":scan", pos, "insertion index is not a forward scan starting at 0: "+vstr(idxV))
		return
	}
	var inc ssa.Instruction
	for _, e := range iphi.Edges {
		if b, ok := strip(e).(*ssa.BinOp); ok && vBin(token.ADD, i, vConstInt(1))(b) {
			inc = b
		}
	}
	less := cCmp(token.LSS, vCall(style, vIs(newV)), vCall(style, vElem(old, i)))
	notLess := edgesWhere(fn, less, false)
	isLess := edgesWhere(fn, less, true)
	inRange := edgesWhere(fn, cCmp(token.LSS, i, vLen(old)), true)
	atEnd := edgesWhere(fn, cCmp(token.LSS, i, vLen(old)), false)
	ok1, path1 := guardedBy(fn, notLess, isInstr(inc))
	ok2, _ := guardedBy(fn, inRange, isInstr(inc))
	in3, path3 := Query{Fn: fn, Cut: union(isLess, atEnd)}.FromEntry(isInstr(s))
	switch {
	case len(notLess) == 0 || !ok1:
		c.Bad(key+":comparator", pos, "the scan does not stop at the first sibling that the new node STRICTLY outranks (style(new) < style(existing)): equal-ranked siblings are no longer first-registered-first, or ranks are ignored", path1)
	case !ok2 || len(inRange) == 0:
		c.Bad(key+":comparator", pos, "the scan is not bounded by i < len(list)")
	case in3 != nil:
		c.Bad(key+":comparator", pos, "the scan can be left by a condition other than `new outranks list[i]` or the end of the list", blockPath(path3))
	default:
		c.OK(key+":comparator", pos, "scan i=0..; advance iff !(style(new) < style(list[i])) ∧ i < len; insert at i: list[:i] ++ [new] ++ list[i:] (strict <, stable)", numInstrs(fn))
	}
	// freshness of the list w.r.t. registrations into the same tree
	checkListNotStale(c, fn, s, oldV, getter, key, newV)
}

// appendsOnlySliceLit: v is a one-element slice literal holding m.
func appendsOnlySliceLit(v ssa.Value, m VM) bool { return appendsOnly(v, m) }

// checkListNotStale: every call that may register into the SAME tree (tree
// argument ≡ t, or ≡ newNode.getParent() which the constructors set to t) must
// be followed by a fresh read of the list before it is extended and stored.
func checkListNotStale(c *Check, fn *ssa.Function, s ssa.CallInstruction, oldV ssa.Value, getter, key string, newV ssa.Value) {
	p := c.P
	tParam := vParam(fn, 0)
	sameTree := vOr(tParam, vCall("(route.Leaf).getParent", vIs(newV)), vCall("(route.Tree).getParent", vIs(newV)))
	var ks []ssa.CallInstruction
	for _, ci := range callsIn(fn, func(n string, cm *ssa.CallCommon) bool {
		f := cm.StaticCallee()
		return f != nil && f.Pkg == p.SSA["route"] && (f == fn || strings.HasPrefix(f.Name(), "add"))
	}) {
		if len(ci.Common().Args) > 0 && sameTree(ci.Common().Args[0]) {
			ks = append(ks, ci)
		}
	}
	for _, k := range ks {
		// walk simple paths from k to s and resolve oldV along each
		stale := ""
		var walk func(b *ssa.BasicBlock, path []*ssa.BasicBlock, seen map[*ssa.BasicBlock]bool)
		target := s.Block()
		var resolveV func(path []*ssa.BasicBlock, v ssa.Value) ssa.Value
		resolve := func(path []*ssa.BasicBlock) ssa.Value { return resolveV(path, oldV) }
		resolveV = func(path []*ssa.BasicBlock, v0 ssa.Value) ssa.Value {
			v := strip(v0)
			for {
				ph, ok := v.(*ssa.Phi)
				if !ok {
					return v
				}
				at := -1
				for i := len(path) - 1; i >= 1; i-- {
					if path[i] == ph.Block() {
						at = i
						break
					}
				}
				if at < 1 {
					return nil // defined before k on this path
				}
				sel := -1
				for i, pr := range ph.Block().Preds {
					if pr == path[at-1] {
						sel = i
					}
				}
				if sel < 0 {
					return nil
				}
				v = strip(ph.Edges[sel])
				path = path[:at]
			}
		}
		walk = func(b *ssa.BasicBlock, path []*ssa.BasicBlock, seen map[*ssa.BasicBlock]bool) {
			if stale != "" {
				return
			}
			path = append(path, b)
			if b == target && len(path) > 1 || (b == target && b == k.Block() && instrIndex(k) < instrIndex(s)) {
				v := resolve(path)
				okRead := false
				if v != nil {
					if rd, isI := v.(ssa.Instruction); isI && vCall(getter, tParam)(v) {
						// read must be after k: in a later block of the path, or later in k's block
						for i, pb := range path {
							if pb == rd.Block() && (i > 0 || instrIndex(rd) > instrIndex(k)) {
								okRead = true
							}
						}
					}
				}
				if !okRead {
					stale = blockPath(path)
				}
				return
			}
			succs := b.Succs
			// a branch on a flag whose value on this path is a known constant has one feasible side
			if len(b.Instrs) > 0 {
				if ifi, isIf := b.Instrs[len(b.Instrs)-1].(*ssa.If); isIf {
					inner, pos := unNot(ifi.Cond)
					if _, isPhi := inner.(*ssa.Phi); isPhi {
						if cst, isC := resolveV(path, inner).(*ssa.Const); isC && cst.Value != nil && cst.Value.Kind() == constant.Bool {
							if constant.BoolVal(cst.Value) == pos {
								succs = b.Succs[:1]
							} else {
								succs = b.Succs[1:2]
							}
						}
					}
					// err != nil with err a φ whose value on this path is nil or a freshly made error
					if bo, isB := inner.(*ssa.BinOp); isB && (bo.Op == token.NEQ || bo.Op == token.EQL) {
						var x ssa.Value
						if vNil(bo.Y) {
							x = bo.X
						} else if vNil(bo.X) {
							x = bo.Y
						}
						if _, isPhi := x.(*ssa.Phi); isPhi {
							rv := resolveV(path, x)
							known, nonNil := false, false
							if rv != nil && vNil(rv) {
								known, nonNil = true, false
							} else if rv != nil && madeErrorOnPath(path, rv) {
								known, nonNil = true, true
							}
							if known {
								t := nonNil == (bo.Op == token.NEQ)
								if t == pos {
									succs = b.Succs[:1]
								} else {
									succs = b.Succs[1:2]
								}
							}
						}
					}
				}
			}
			for _, nb := range succs {
				if seen[nb] {
					continue
				}
				seen[nb] = true
				walk(nb, path, seen)
				delete(seen, nb)
			}
		}
		walk(k.Block(), nil, map[*ssa.BasicBlock]bool{k.Block(): true})
		if stale == "" {
			c.OK(key+":list-current", p.Pos(k.Pos()), "after registering into the same tree the sibling list is re-read before it is extended", numInstrs(fn))
		} else {
			c.Bad(key+":list-current", p.Pos(k.Pos()), "the sibling list read before a registration into the SAME tree is extended and stored afterwards: the node added by that registration is lost", stale)
		}
	}
}

func checkSiblingLoop(c *Check, fn *ssa.Function, listField string, failCalls []string, kAll int64) {
	p := c.P
	key := p.FuncKey(fn)
	recv := vParam(fn, 0)
	list := vField(recv, listField)
	if len(fn.Params) > 0 {
		if _, isSlice := fn.Params[0].Type().Underlying().(*types.Slice); isSlice {
			// the list itself is handed in; every caller must pass the tree's own list (checked at the call sites: C01.R7)
			list = recv
		}
	}
	// the sibling element
	var elem ssa.Value
	var idx ssa.Value
	allInstrs(fn, func(in ssa.Instruction) {
		if v, ok := in.(ssa.Value); ok && elem == nil {
			if i, ok := elemIndex(v, list); ok && ascendingIndex(i) {
				elem, idx = v, i
			}
		}
	})
	if elem == nil {
		c.Bad(key+":order", p.FuncPos(fn), "siblings in "+listField+" are not visited in ascending list order starting at index 0")
		return
	}
	c.OK(key+":order", p.Pos(elem.(ssa.Instruction).Pos()), "siblings visited as "+listField+"[0], "+listField+"[1], …", 1)
	// loop-exit block: target of the edge on which idx < len fails
	exh := edgesWhere(fn, cCmp(token.LSS, vIs(idx), vLen(list)), false)
	if len(exh) == 0 {
		c.Undecided(key+":fall-through", p.FuncPos(fn), "loop bound idx < len("+listField+") not found")
		return
	}
	var done *ssa.BasicBlock
	for e := range exh {
		done = e.B.Succs[e.S]
	}
	avoidDone := func(in ssa.Instruction) bool { return in.Block() == done }
	for _, fc := range failCalls {
		calls := callsIn(fn, func(n string, cm *ssa.CallCommon) bool { return n == fc && cm.IsInvoke() && strip(cm.Value) == strip(elem) })
		if len(calls) == 0 {
			c.Bad(key+":fall-through:"+fc, p.FuncPos(fn), "siblings are not asked to "+fc)
			continue
		}
		for _, k := range calls {
			res := k.(*ssa.Call)
			var okV VM
			if res.Type().(interface{}) != nil {
				if _, isTuple := res.Type().(*types.Tuple); isTuple {
					okV = vExtract(res.Type().(*types.Tuple).Len()-1, vIs(res))
				} else {
					okV = vIs(res)
				}
			}
			failed := edgesWhere(fn, cBool(okV), false)
			bad := ""
			for e := range failed {
				tgt := e.B.Succs[e.S]
				in, path := Query{Fn: fn, Avoid: avoidDone}.Reach(tgt, 0, falseVerdict(fn))
				if in != nil && tgt != done {
					bad = blockPath(path)
				}
			}
			if len(failed) == 0 {
				c.Bad(key+":fall-through:"+fc, p.Pos(k.Pos()), "the sibling's verdict is not tested")
			} else if bad != "" {
				c.Bad(key+":fall-through:"+fc, p.Pos(k.Pos()), "a failed sibling leads straight to a return: lower-priority alternatives that admit the path are never tried (no backtracking)", bad)
			} else {
				c.OK(key+":fall-through:"+fc, p.Pos(k.Pos()), "failure edge reaches the next sibling or the post-loop fallback only", numInstrs(fn))
			}
		}
	}
	// the success edges return the matching sibling's result
	_ = kAll
}

func checkMatchAllFallback(c *Check, fn *ssa.Function, kAll int64) {
	p := c.P
	key := p.FuncKey(fn) + ":match-all-leaf-fallback"
	recv := vParam(fn, 0)
	leaves := vField(recv, "leaves")
	last := vElem(leaves, vBin(token.SUB, vLen(leaves), vConstInt(1)))
	noLeaf := union(
		edgesWhere(fn, cCmp(token.GTR, vLen(leaves), vConstInt(0)), false),
		// the node's own predicate, whose definition is verified: false ⇒ no leaf, or the last one is not match-all
		p.lemmaEdges(fn, recv, "hasMatchAllLeaf", false),
	)
	notAll := edgesWhere(fn, cCmp(token.EQL, vCall("(route.Leaf).getMatchStyle", last), vConstInt(kAll)), false)
	isMA := func(v ssa.Value) bool {
		cl := asCall(v)
		if cl == nil || callName(&cl.Call) != "(*route.matchAllLeaf).matchAll" {
			return false
		}
		av := strip(cl.Call.Args[0])
		if e, isE := av.(*ssa.Extract); isE && e.Index == 0 {
			av = e.Tuple // ml, ok := leaf.(*matchAllLeaf)
		}
		ta, ok := av.(*ssa.TypeAssert)
		return ok && last(ta.X)
	}
	maFailed := edgesWhere(fn, cBool(isMA), false)
	// a checked assertion of the last leaf that fails (impossible after the style test) also reports no match
	assertFailed := EdgeSet{}
	for _, b := range fn.Blocks {
		if ifi, isIf := b.Instrs[len(b.Instrs)-1].(*ssa.If); isIf {
			if e, isE := strip(ifi.Cond).(*ssa.Extract); isE && e.Index == 1 {
				if ta, isTA := e.Tuple.(*ssa.TypeAssert); isTA && ta.CommaOk && last(ta.X) {
					assertFailed[Edge{b, 1}] = true
				}
			}
		}
	}
	// start: the loop-exit block of the subtree loop
	subs := vField(recv, "subtrees")
	var done *ssa.BasicBlock
	allInstrs(fn, func(in ssa.Instruction) {
		if v, ok := in.(ssa.Value); ok {
			if i, ok := elemIndex(v, subs); ok {
				for e := range edgesWhere(fn, cCmp(token.LSS, vIs(i), vLen(subs)), false) {
					done = e.B.Succs[e.S]
				}
			}
		}
	})
	if done == nil {
		c.Undecided(key, p.FuncPos(fn), "subtree loop exit not found")
		return
	}
	if len(maFailed) == 0 {
		c.Bad(key, p.FuncPos(fn), "no call of the match-all leaf's matchAll on the LAST leaf (leaves[len-1]) after the subtree loop: a trailing match-all route is never tried after alternatives that continue with further segments")
		return
	}
	// the last leaf's header gate rejecting this request's headers is a failed attempt too (the gate asked by the
	// caller instead of inside matchAll; that it is asked at all is C09.R1)
	gateFailed := EdgeSet{}
	if hi := headerParam(fn); hi >= 0 {
		gate := func(v ssa.Value) bool {
			cl := asCall(v)
			if cl == nil || !strings.HasSuffix(callName(&cl.Call), ").matchHeader") {
				return false
			}
			as := callArgs(&cl.Call)
			return len(as) == 2 && last(leafRoot(as[0])) && vParam(fn, hi)(as[1])
		}
		gateFailed = edgesWhere(fn, cBool(gate), false)
	}
	in, path := Query{Fn: fn, Cut: union(noLeaf, notAll, maFailed, assertFailed, gateFailed)}.Reach(done, 0, falseVerdict(fn))
	if in == nil {
		c.OK(key, p.FuncPos(fn), "post-loop no-match returns only via len(leaves)==0, style(last) != all, or matchAll(last) == false", numInstrs(fn))
	} else {
		c.Bad(key, p.Pos(in.Pos()), "after the subtree loop the function can report no-match without trying the trailing match-all leaf", blockPath(path))
	}
}

func checkMatchAllTree(c *Check) {
	p := c.P
	fn := p.Meth("route", "matchAllTree", "matchAll")
	if fn == nil {
		c.curRule = "C01.R5"
		c.Anchor("matchAllTree.matchAll")
		return
	}
	key := p.FuncKey(fn)
	recv := vParam(fn, 0)
	pathP, segP, nextP := vParam(fn, 1), vParam(fn, 2), vParam(fn, 3)
	ms := callsIn(fn, func(n string, cm *ssa.CallCommon) bool {
		return strings.HasSuffix(n, ".matchNextSegment")
	})
	if len(ms) != 1 {
		c.curRule = "C01.R5"
		c.Undecided(key+":attempt", p.FuncPos(fn), "expected one deeper-match attempt")
		return
	}
	M := ms[0]
	args := callArgs(M.Common())
	// cursor and segment phis
	nextPhi, _ := strip(args[2]).(*ssa.Phi)
	c.curRule = "C01.R5"
	if !pathP(args[1]) || nextPhi == nil {
		c.Bad(key+":attempt", p.Pos(M.Pos()), "the deeper match is not attempted on (path, cursor): "+vstr(args[1])+", "+vstr(args[2]))
		return
	}
	var nextStep ssa.Value
	initOK := false
	for _, e := range nextPhi.Edges {
		if nextP(e) {
			initOK = true
		} else {
			nextStep = e
		}
	}
	restM := vSub(pathP, linSum(0, vIs(nextPhi)), nil)
	idxCall := vIdxSlash(restM)
	stepOK := nextStep != nil && linSum(1, vIs(nextPhi), idxCall)(linOf(nextStep))
	c.Cond(initOK && stepOK, key+":cursor-step", p.Pos(M.Pos()), "cursor = φ(next, cursor + Index(path[cursor:], \"/\") + 1): one segment per iteration", "the cursor does not advance by exactly one segment per iteration: "+vstr(args[2]))
	// order: attempt precedes extension
	if si, ok := strip(nextStep).(ssa.Instruction); ok && nextStep != nil {
		ok2, path := mustPrecede(fn, isInstr(M), si)
		if ok2 {
			c.OK(key+":attempt-before-extend", p.Pos(M.Pos()), "the deeper match is attempted before the capture is extended (shortest capture first)", numInstrs(fn))
		} else {
			c.Bad(key+":attempt-before-extend", p.Pos(M.Pos()), "the capture is extended before the deeper match is attempted: shorter captures are skipped", path)
		}
	}
	// the capture keeps growing while it can: after a failed attempt the walk is given up only where no further
	// "/" follows or the capture limit is reached — not, say, where nothing follows the "/" (a trailing slash is
	// an empty last segment that a leaf below may take)
	if si, ok := strip(nextStep).(ssa.Instruction); ok && nextStep != nil {
		noSlash := edgesWhere(fn, cCmp(token.EQL, idxCall, vConstInt(-1)), true)
		limit := EdgeSet{}
		for _, b := range fn.Blocks {
			if iff, isIf := b.Instrs[len(b.Instrs)-1].(*ssa.If); isIf {
				if derivesFrom(iff.Cond, vField(recv, "capture"), nil) {
					limit[Edge{b, 0}] = true
					limit[Edge{b, 1}] = true
				}
			}
		}
		if in, path := (Query{Fn: fn, Cut: union(noSlash, limit), Avoid: isInstr(si)}).After(M, falseVerdict(fn)); in != nil || len(noSlash) == 0 {
			c.Bad(key+":extend-while-possible", p.Pos(M.Pos()), "after a failed attempt the match-all gives up although another \"/\" follows and the capture limit is not reached: longer captures (e.g. up to an empty last segment) are never tried", blockPath(path))
		} else {
			c.OK(key+":extend-while-possible", p.Pos(M.Pos()), "the walk ends only where no \"/\" follows or the capture limit is reached", numInstrs(fn))
		}
	}
	// segment accumulation and bind on success only
	var mu *ssa.MapUpdate
	allInstrs(fn, func(in ssa.Instruction) {
		if x, ok := in.(*ssa.MapUpdate); ok && vField(recv, "bind")(x.Key) {
			mu = x
		}
	})
	if mu == nil {
		c.Bad(key+":bind", p.FuncPos(fn), "the captured value is never stored under the node's bind")
	} else {
		segPhi, _ := strip(mu.Value).(*ssa.Phi)
		okSeg := false
		if segPhi != nil {
			i0, st := false, false
			for _, e := range segPhi.Edges {
				if segP(e) {
					i0 = true
				} else {
					piece := vSub(pathP, linSum(0, vIs(nextPhi)), linSum(0, vIs(nextPhi), idxCall))
					if vConcat(vIs(segPhi), vConstStr("/"), piece)(e) {
						st = true
					} else if p.windowFacts()[fn] && nextStep != nil {
						// re-sliced up to the new cursor: path[next0-1-len(segment0) : newCursor-1] (window fact)
						want := linOf(nextStep).plus(lin{k: 1}, -1)
						if sub := subOf(e); sub.base != nil && pathP(sub.base) && sub.hi != nil && sub.hi.equal(want) && linForm(-1, []VM{nextP}, []VM{vLen(segP)})(sub.lo) {
							st = true
						}
					}
				}
			}
			okSeg = i0 && st
		}
		sliced := false
		if !okSeg && p.windowFacts()[fn] {
			// cut out of the path: path[next0-1-len(segment0) : cursor-1]. By the window fact the text starts where
			// the first segment starts; by the cursor step (checked above) it ends before the '/' in front of the
			// cursor: what the accumulation would have built
			if vSub(pathP, linForm(-1, []VM{nextP}, []VM{vLen(segP)}), linSum(-1, vIs(nextPhi)))(mu.Value) {
				okSeg, sliced = true, true
			}
		}
		c.Cond(okSeg, key+":accumulate", p.Pos(mu.Pos()), "captured = φ(segment, captured + \"/\" + path[cursor:cursor+i])", "the captured value is not the accumulated segments: "+vstr(mu.Value))
		if sliced {
			segPhi = nextPhi // the iteration's state is the cursor alone
		}
		// at every success return of an iteration the bind holds this iteration's
		// accumulated segment (storing it earlier is harmless: Params may keep stale
		// values of abandoned branches by documented contract)
		okRet := segPhi != nil
		var badPath string
		if segPhi != nil {
			isTrueRet := func(in ssa.Instruction) bool {
				r, ok := in.(*ssa.Return)
				return ok && len(r.Results) == 2 && !falseVerdict(fn)(in)
			}
			in, path := Query{Fn: fn, Avoid: isInstr(mu)}.Reach(segPhi.Block(), 0, isTrueRet)
			if in != nil {
				okRet, badPath = false, blockPath(path)
			}
		}
		if okRet {
			c.OK(key+":bind-at-success", p.Pos(mu.Pos()), "every successful return of an iteration is preceded by params[bind] = accumulated segment of that iteration", numInstrs(fn))
		} else {
			c.Bad(key+":bind-at-success", p.Pos(mu.Pos()), "a successful match can return without the bind holding the accumulated segment", badPath)
		}
	}
	// ---- R6 tree bound
	c.curRule = "C01.R6"
	var capPhi *ssa.Phi
	allInstrs(fn, func(in ssa.Instruction) {
		ph, ok := in.(*ssa.Phi)
		if !ok || ph == nextPhi {
			return
		}
		i1, st := false, false
		for _, e := range ph.Edges {
			if vConstInt(1)(e) {
				i1 = true
			}
			if vBin(token.ADD, vIs(ph), vConstInt(1))(e) {
				st = true
			}
		}
		if i1 && st {
			capPhi = ph
		}
	})
	if capPhi == nil {
		c.Bad(key+":bound", p.FuncPos(fn), "no captured-segment counter φ(1, n+1) found")
		return
	}
	capF := vField(recv, "capture")
	accept := union(
		edgesWhere(fn, cCmp(token.LEQ, capF, vConstInt(0)), true),
		edgesWhere(fn, cCmp(token.GEQ, capF, vIs(capPhi)), true),
	)
	ok4, path := guardedBy(fn, accept, isInstr(M))
	// converse: on an accept edge the attempt is not skipped
	conv := true
	for e := range accept {
		tgt := e.B.Succs[e.S]
		// from tgt, before returning false we must pass M or another accept-test
		in, _ := Query{Fn: fn, Avoid: func(in ssa.Instruction) bool { return in == ssa.Instruction(M) }}.Reach(tgt, 0, isReturn)
		if in != nil {
			conv = false
		}
	}
	if ok4 && conv && len(accept) >= 2 {
		c.OK(key+":bound", p.Pos(M.Pos()), "attempt ⇔ capture <= 0 ∨ capture >= captured (captured = φ(1, +1))", numInstrs(fn))
	} else {
		c.Bad(key+":bound", p.Pos(M.Pos()), "the match-all subtree's capture bound is not `capture <= 0 || capture >= captured`: it disagrees with the leaf's bound and with the documented inclusive limit", path)
	}
}

func checkMatchAllLeafBound(c *Check) {
	p := c.P
	c.curRule = "C01.R6"
	fn := p.Meth("route", "matchAllLeaf", "matchAll")
	if fn == nil {
		c.Anchor("matchAllLeaf.matchAll")
		return
	}
	key := p.FuncKey(fn)
	recv := vParam(fn, 0)
	pathP, nextP := vParam(fn, 1), vParam(fn, 3)
	capF := vField(recv, "capture")
	slashes := vCall("strings.Count", vSub(pathP, linSum(-1, nextP), nil), vConstStr("/"))
	// reject ⇔ capture < Count+1 ⇔ capture − Count − 1 < 0
	exceeds := cLinLess(linForm(-1, []VM{capF}, []VM{slashes}))
	accept := union(
		edgesWhere(fn, cCmp(token.GTR, capF, vConstInt(0)), false),
		edgesWhere(fn, exceeds, false),
	)
	var mu *ssa.MapUpdate
	allInstrs(fn, func(in ssa.Instruction) {
		if x, ok := in.(*ssa.MapUpdate); ok && vField(recv, "bind")(x.Key) {
			mu = x
		}
	})
	if mu == nil {
		c.Bad(key+":bound", p.FuncPos(fn), "no bind store found")
		return
	}
	ok, path := guardedBy(fn, accept, isInstr(mu))
	// converse: accept edges are not followed by a bound-based rejection: every false return is
	// reachable only through the reject edge or the header edge
	reject := edgesWhere(fn, exceeds, true)
	hdr := headerRejectEdges(fn)
	in, path2 := Query{Fn: fn, Cut: union(reject, hdr)}.FromEntry(falseVerdict(fn))
	switch {
	case len(accept) < 2 || !ok:
		c.Bad(key+":bound", p.Pos(mu.Pos()), "the match-all leaf's capture bound is not `capture <= 0 || segments(path[next-1:]) <= capture` (segments = Count(\"/\")+1): it disagrees with the tree's bound", path)
	case in != nil:
		c.Bad(key+":bound", p.Pos(in.Pos()), "the match-all leaf rejects for a reason other than exceeding the capture limit or header constraints", blockPath(path2))
	default:
		c.OK(key+":bound", p.Pos(mu.Pos()), "accept ⇔ capture <= 0 ∨ Count(path[next-1:], \"/\")+1 <= capture", numInstrs(fn))
	}
}

func checkDispatchEntry(c *Check) {
	p := c.P
	sh := p.Meth("flamego", "router", "ServeHTTP")
	if sh == nil {
		c.Anchor("router.ServeHTTP")
		return
	}
	key := p.FuncKey(sh)
	reqP := vParam(sh, 2)
	ms := callsNamed(sh, "(route.Tree).Match")
	if len(ms) != 1 {
		c.Undecided(key+":match", p.FuncPos(sh), "expected one Tree.Match call")
		return
	}
	M := ms[0]
	treeOK := false
	var lkp *ssa.Lookup
	if e, ok := strip(M.Common().Value).(*ssa.Extract); ok && e.Index == 0 {
		if lk, ok := e.Tuple.(*ssa.Lookup); ok && vField(vParam(sh, 0), "routeTrees")(lk.X) && vField(reqP, "Method")(lk.Index) {
			treeOK = true
			lkp = lk
		}
	} else if lk, ok := strip(M.Common().Value).(*ssa.Lookup); ok && vField(vParam(sh, 0), "routeTrees")(lk.X) && vField(reqP, "Method")(lk.Index) {
		treeOK = true
	}
	c.Cond(treeOK, key+":tree-by-method", p.Pos(M.Pos()), "Match is called on routeTrees[req.Method]", "the tree matched is not routeTrees[req.Method]: "+vstr(M.Common().Value))
	a := M.Common().Args
	c.Cond(vField(reqP, "URL", "Path")(a[0]) && vField(reqP, "Header")(a[1]), key+":match-args", p.Pos(M.Pos()), "Match(req.URL.Path, req.Header)", "Match is not given the request's path and headers")
	if lkp != nil {
		// missing tree ⇒ Match unreachable (nil tree would panic) and notFound reached
		have := edgesWhere(sh, cBool(vExtract(1, vIs(lkp))), true)
		ok, path := guardedBy(sh, have, isInstr(M))
		if ok && len(have) > 0 {
			c.OK(key+":unknown-method", p.Pos(M.Pos()), "Match reachable only when a tree exists for the method", numInstrs(sh))
		} else {
			c.Bad(key+":unknown-method", p.Pos(M.Pos()), "Match can be called on a missing (nil) tree for an unknown method", path)
		}
	}
	// Tree.Match: TrimLeft + cursor 0
	if m := p.Meth("route", "baseTree", "Match"); m != nil {
		k2 := p.FuncKey(m)
		ns := callsIn(m, func(n string, cm *ssa.CallCommon) bool { return strings.HasSuffix(n, ".matchNextSegment") })
		ok := false
		for _, n := range ns {
			as := callArgs(n.Common())
			if vTrimLeftSlash(vParam(m, 1))(as[1]) && vConstInt(0)(as[2]) {
				ok = true
				if ph, isPhi := strip(as[1]).(*ssa.Phi); isPhi {
					// hand-written trim loop: the match starts only after the loop was left
					first := func(x ssa.Value) bool {
						return isFirstByteOf(x, ph)
					}
					left := union(edgesWhere(m, cCmp(token.EQL, first, vConstInt('/')), false), edgesWhere(m, cCmp(token.GTR, vLen(vIs(ph)), vConstInt(0)), false))
					if g, _ := guardedBy(m, left, isInstr(n)); !g || len(left) == 0 {
						ok = false
					}
				}
			}
		}
		c.Cond(ok, k2+":entry", p.FuncPos(m), "matching starts at cursor 0 of the path with its leading slashes removed (strings.TrimLeft or an equivalent loop)", "matching does not start at cursor 0 of the path with leading slashes removed")
	} else {
		c.Anchor("baseTree.Match")
	}
	// matchNextSegment: split at first "/"
	if m := p.Meth("route", "baseTree", "matchNextSegment"); m != nil {
		k2 := p.FuncKey(m)
		recv, pathP, nextP := vParam(m, 0), vParam(m, 1), vParam(m, 2)
		rest := vSub(pathP, linSum(0, nextP), nil)
		idx := vIdxSlash(rest)
		okL, okS := false, false
		for _, ci := range callsNamed(m, "(*route.baseTree).matchLeaf") {
			// the leaves are reached through the tree itself or handed over as its `leaves` list
			// path[next:] itself, or `before` of strings.Cut(path[next:], "/") — the whole string where no
			// separator was found, which is the edge tested below
			restOrBefore := func(v ssa.Value) bool {
				if rest(v) {
					return true
				}
				c, k, sep, ok := cutPart(v)
				return ok && k == 0 && sep == "/" && rest(c.Call.Args[0])
			}
			if a0 := ci.Common().Args[0]; (recv(a0) || vField(recv, "leaves")(a0)) && restOrBefore(ci.Common().Args[1]) {
				g := edgesWhere(m, cCmp(token.EQL, idx, vConstInt(-1)), true)
				if ok, _ := guardedBy(m, g, isInstr(ci)); ok && len(g) > 0 {
					okL = true
				}
			}
		}
		for _, ci := range callsNamed(m, "(*route.baseTree).matchSubtree") {
			a := ci.Common().Args
			seg := vSub(pathP, linSum(0, nextP), linSum(0, nextP, idx))
			cur := vLin(linSum(1, nextP, idx))
			if recv(a[0]) && pathP(a[1]) && seg(a[2]) && cur(a[3]) {
				g := edgesWhere(m, cCmp(token.EQL, idx, vConstInt(-1)), false)
				if ok, _ := guardedBy(m, g, isInstr(ci)); ok && len(g) > 0 {
					okS = true
				}
			}
		}
		c.Cond(okL, k2+":last-segment", p.FuncPos(m), "no further '/' ⇒ leaves are matched against path[next:]", "the last segment is not matched against the leaves as path[next:]")
		c.Cond(okS, k2+":inner-segment", p.FuncPos(m), "otherwise subtrees get segment path[next:next+i] and cursor next+i+1", "inner segments are not split as path[next:next+i] with cursor next+i+1")
	} else {
		c.Anchor("baseTree.matchNextSegment")
	}
}

func checkOptionalShortForm(c *Check) {
	p := c.P
	fn := p.Fn("route", "addLeaf")
	if fn == nil {
		// role: the function calling setLeaves
		for _, f := range p.Funcs() {
			if f.Pkg == p.SSA["route"] && len(callsNamed(f, "(route.Tree).setLeaves")) > 0 && f.Signature.Recv() == nil {
				fn = f
			}
		}
	}
	if fn == nil {
		c.Anchor("route.addLeaf")
		return
	}
	key := p.FuncKey(fn)
	var newV ssa.Value
	allInstrs(fn, func(in ssa.Instruction) {
		if v, ok := in.(ssa.Value); ok && vExtract(0, vCall("route.newLeaf", vParam(fn, 0)))(v) {
			newV = v
		}
	})
	stores := callsNamed(fn, "(route.Tree).setLeaves")
	if newV == nil || len(stores) == 0 {
		c.Undecided(key+":short-form", p.FuncPos(fn), "new leaf / list store not found")
		return
	}
	S := stores[0]
	optV := vField(vOr(vCall("(route.Leaf).getSegment", vIs(newV)), vParam(fn, 2)), "Optional")
	isOpt := edgesWhere(fn, cBool(optV), true)
	notOpt := edgesWhere(fn, cBool(optV), false)
	var ks []ssa.Instruction
	for _, ci := range callsIn(fn, func(n string, cm *ssa.CallCommon) bool { return cm.StaticCallee() == fn }) {
		ks = append(ks, ci)
		a := ci.Common().Args
		k := key + ":short-form-call"
		same := vParam(fn, 1)(a[1]) && vParam(fn, 3)(a[3])
		c.Cond(same, k+":same-route-handler", p.Pos(ci.Pos()), "short form registered with the same route and handler", "the short form of an optional route is registered with a different route or handler")
		ok, path := guardedBy(fn, isOpt, isInstr(ci))
		if ok && len(isOpt) > 0 {
			c.OK(k+":only-when-optional", p.Pos(ci.Pos()), "short form only on the Optional edge", numInstrs(fn))
		} else {
			c.Bad(k+":only-when-optional", p.Pos(ci.Pos()), "a second leaf is registered although the segment is not optional", path)
		}
		// where: (X.getParent(), X.getSegment()) with X ≡ t, or (X, fresh empty segment) when X is the root
		X := vOr(vParam(fn, 0), vCall("(route.Leaf).getParent", vIs(newV)))
		up := vCall("(route.Tree).getParent", X)(a[0]) && vCall("(route.Tree).getSegment", X)(a[2])
		root := false
		if X(a[0]) {
			if al, ok := strip(a[2]).(*ssa.Alloc); ok && namedName(derefT(al.Type())) == "Segment" {
				g := edgesWhere(fn, cCmp(token.EQL, vCall("(route.Tree).getParent", X), vNil), true)
				if ok2, _ := guardedBy(fn, g, isInstr(ci)); ok2 && len(g) > 0 {
					root = segmentLiteralEmptyNonOptional(al)
				}
			}
		}
		c.Cond(up || root, k+":placement", p.Pos(ci.Pos()), "short form = leaf with the parent's segment one level up (or the empty root segment when the parent is the root)", "the short form is registered at the wrong place: tree "+vstr(a[0])+", segment "+vstr(a[2]))
	}
	in, path := Query{Fn: fn, Cut: notOpt, Avoid: inSet(ks)}.FromEntry(isInstr(S))
	if len(ks) > 0 && len(notOpt) > 0 && in == nil {
		c.OK(key+":short-form", p.Pos(S.Pos()), "on the Optional edge the long form is stored only after the short form was registered", numInstrs(fn))
	} else {
		c.Bad(key+":short-form", p.Pos(S.Pos()), "a route with an optional last segment can be stored without registering its short form: the path without the optional segment is not admitted", blockPath(path))
	}
}

// segmentLiteralEmptyNonOptional: composite literal of Segment that sets no
// Elements and does not set Optional to true.
func segmentLiteralEmptyNonOptional(al *ssa.Alloc) bool {
	ok := true
	for _, r := range referrers(al) {
		fa, isFA := r.(*ssa.FieldAddr)
		if !isFA {
			continue
		}
		name := fieldOf(fa).Name()
		for _, rr := range referrers(fa) {
			if st, isSt := rr.(*ssa.Store); isSt && st.Addr == ssa.Value(fa) {
				if name == "Elements" {
					ok = false
				}
				if name == "Optional" && !vConstBool(false)(st.Val) {
					ok = false
				}
			}
		}
	}
	return ok
}

func checkRegexAcceptance(c *Check) {
	p := c.P
	for _, tm := range [][2]string{{"regexTree", "match"}, {"regexLeaf", "match"}} {
		fn := p.Meth("route", tm[0], tm[1])
		if fn == nil {
			c.Anchor("route." + tm[0] + "." + tm[1])
			continue
		}
		key := p.FuncKey(fn) + ":acceptance"
		sub := vCall("(*regexp.Regexp).FindStringSubmatch", vField(vParam(fn, 0), "regexp"), vParam(fn, 1))
		n, bad := 0, ""
		for _, b := range fn.Blocks {
			ifi, ok := b.Instrs[len(b.Instrs)-1].(*ssa.If)
			if !ok {
				continue
			}
			inner, _ := unNot(ifi.Cond)
			bo, ok := inner.(*ssa.BinOp)
			if !ok {
				continue
			}
			for _, pr := range [][2]ssa.Value{{bo.X, bo.Y}, {bo.Y, bo.X}} {
				x, y := pr[0], pr[1]
				switch {
				case sub(x) && vNil(y):
					n++
				case vLen(sub)(x):
					n++
					if k, isC := constInt(y); isC && k == 0 {
						continue
					}
					if bo.Op == token.EQL || bo.Op == token.NEQ {
						bad = "rejects when len(submatches) " + bo.Op.String() + " " + vstr(y) + ": an expression with its own groups yields more sub-matches than binds and can never match"
					}
				}
			}
		}
		if n == 0 {
			c.Bad(key, p.FuncPos(fn), "the result of FindStringSubmatch(segment) is never tested")
		} else if bad != "" {
			c.Bad(key, p.FuncPos(fn), bad)
		} else {
			c.OK(key, p.FuncPos(fn), "rejects only on nil/too-few sub-matches", numInstrs(fn))
		}
	}
}

// growShiftSet recognises the insert idiom on g (the result of append(old, x)):
// copy(g[i+1:], g[i:]) followed by g[i] = new, with no other store into g; returns i.
func growShiftSet(fn *ssa.Function, g *ssa.Call, isNew VM) (ssa.Value, bool) {
	var cp ssa.CallInstruction
	var idx ssa.Value
	var st *ssa.Store
	nStores := 0
	for _, r := range referrers(g) {
		switch x := r.(type) {
		case *ssa.IndexAddr:
			for _, r2 := range referrers(x) {
				if s, ok := r2.(*ssa.Store); ok && s.Addr == ssa.Value(x) {
					nStores++
					if isNew(s.Val) {
						st, idx = s, x.Index
					}
				}
			}
		}
	}
	if st == nil || nStores != 1 {
		return nil, false
	}
	allInstrs(fn, func(in ssa.Instruction) {
		ci, ok := in.(ssa.CallInstruction)
		if !ok || callName(ci.Common()) != "builtin.copy" {
			return
		}
		dst, dok := strip(ci.Common().Args[0]).(*ssa.Slice)
		src, sok := strip(ci.Common().Args[1]).(*ssa.Slice)
		if !dok || !sok || strip(dst.X) != ssa.Value(g) || strip(src.X) != ssa.Value(g) || dst.High != nil || dst.Low == nil || src.Low == nil {
			return
		}
		// the source may stop at the old length: g[i:n] with n = len(old)
		if src.High != nil && !vLen(vIs(g.Call.Args[0]))(src.High) {
			return
		}
		if strip(src.Low) == strip(idx) && linOf(dst.Low).equal(linOf(idx).plus(lin{k: 1}, 1)) {
			cp = ci
		}
	})
	if cp == nil {
		return nil, false
	}
	if ok, _ := mustPrecede(fn, isInstr(cp), st); !ok {
		return nil, false
	}
	return idx, true
}

// madeErrorOnPath: v is a non-nil error on this path: errors.New / fmt.Errorf / errors.Errorf,
// or errors.Wrap*(e, …) of an e whose non-nil edge lies on the path.
func madeErrorOnPath(path []*ssa.BasicBlock, v ssa.Value) bool {
	cl := asCall(v)
	if cl == nil {
		return false
	}
	switch callName(&cl.Call) {
	case "errors.New", "fmt.Errorf", "github.com/pkg/errors.New", "github.com/pkg/errors.Errorf":
		return true
	case "github.com/pkg/errors.Wrap", "github.com/pkg/errors.Wrapf", "github.com/pkg/errors.WithMessage", "github.com/pkg/errors.WithStack":
		e := cl.Call.Args[0]
		for i := 0; i+1 < len(path); i++ {
			b := path[i]
			if len(b.Instrs) == 0 {
				continue
			}
			ifi, ok := b.Instrs[len(b.Instrs)-1].(*ssa.If)
			if !ok {
				continue
			}
			if m, pos := cCmp(token.NEQ, vIs(e), vNil)(ifi.Cond); m {
				idx := 1
				if pos {
					idx = 0
				}
				if b.Succs[idx] == path[i+1] {
					return true
				}
			}
		}
	}
	return false
}


// checkClassifiers: every possibly-true verdict of a style interpreter lies behind the syntactic tests that
// define the kind (C01.R13).
func checkClassifiers(c *Check) {
	p := c.P
	elem0 := func(fn *ssa.Function) VM {
		elems := vField(vParam(fn, 0), "Elements")
		return vLocalCopyOf(func(v ssa.Value) bool {
			v = strip(v)
			if u, ok := v.(*ssa.UnOp); ok && u.Op == token.MUL {
				v = u.X
			}
			ia, ok := v.(*ssa.IndexAddr)
			return ok && elems(ia.X) && vConstInt(0)(ia.Index)
		})
	}
	deref := func(inner VM) VM {
		return func(v ssa.Value) bool {
			u, ok := strip(v).(*ssa.UnOp)
			return ok && u.Op == token.MUL && inner(u.X)
		}
	}
	type need struct {
		what string
		cond CondM
		pos  bool
	}
	check := func(name string, needs func(fn *ssa.Function) [][]need) {
		fn := p.Fn("route", name)
		if fn == nil {
			c.Anchor("route." + name)
			return
		}
		key := p.FuncKey(fn) + ":syntactic"
		var rets []*ssa.Return
		allInstrs(fn, func(in ssa.Instruction) {
			if r, ok := in.(*ssa.Return); ok && len(r.Results) > 0 && !vConstBool(false)(r.Results[len(r.Results)-1]) {
				rets = append(rets, r)
			}
		})
		if len(rets) == 0 {
			c.Bad(key, p.FuncPos(fn), "the interpreter never reports its kind")
			return
		}
		bad := ""
		for _, r := range rets {
			last := r.Results[len(r.Results)-1]
			// one of the alternative sets of tests must hold on this verdict
			okAlt := false
			why := ""
			for _, alt := range needs(fn) {
				all := true
				for _, n := range alt {
					edges := edgesWhere(fn, n.cond, n.pos)
					isG := func(v ssa.Value) bool {
						m, pos := n.cond(v)
						return m && pos == n.pos
					}
					if ok, w := boolImplies(fn, last, r.Block(), isG, edges); !ok {
						all = false
						why = n.what + ": " + w
						break
					}
				}
				if all {
					okAlt = true
					break
				}
			}
			if !okAlt {
				bad = p.Pos(r.Pos()) + " (" + why + ")"
			}
		}
		if bad == "" {
			c.OK(key, p.FuncPos(fn), "every possibly-true verdict lies behind the syntactic tests of the kind", numInstrs(fn))
		} else {
			c.Bad(key, p.FuncPos(fn), "a segment can be reported as this kind without the syntactic tests that define the kind: its rank among siblings is that of another kind: "+bad)
		}
	}
	one := func(fn *ssa.Function) need {
		return need{"len(Elements) == 1", cCmp(token.EQL, vLen(vField(vParam(fn, 0), "Elements")), vConstInt(1)), true}
	}
	check("isMatchStyleStatic", func(fn *ssa.Function) [][]need {
		return [][]need{{one(fn), {"Elements[0].Ident != nil", cCmp(token.EQL, vField(elem0(fn), "Ident"), vNil), false}}}
	})
	check("checkMatchStylePlaceholder", func(fn *ssa.Function) [][]need {
		bi := vField(elem0(fn), "BindIdent")
		return [][]need{{one(fn), {"Elements[0].BindIdent != nil", cCmp(token.EQL, bi, vNil), false}, {"*BindIdent != \"**\"", cCmp(token.EQL, deref(bi), vConstStr("**")), false}}}
	})
	check("checkMatchStyleAll", func(fn *ssa.Function) [][]need {
		bi := vField(elem0(fn), "BindIdent")
		lit := func(v ssa.Value) bool {
			// Elements[0].BindParameters.Parameters[0].Value.Literal
			r, ns, ok := fieldPath(v)
			if !ok || len(ns) != 2 || ns[0] != "Value" || ns[1] != "Literal" {
				return false
			}
			r = strip(r)
			if u, isU := r.(*ssa.UnOp); isU && u.Op == token.MUL {
				r = u.X
			}
			ia, isIA := r.(*ssa.IndexAddr)
			return isIA && vConstInt(0)(ia.Index) && vField(elem0(fn), "BindParameters", "Parameters")(ia.X)
		}
		return [][]need{
			{one(fn), {"*BindIdent == \"**\"", cCmp(token.EQL, deref(bi), vConstStr("**")), true}},
			{{"*Parameters[0].Value.Literal == \"**\"", cCmp(token.EQL, deref(lit), vConstStr("**")), true}},
		}
	})
}
