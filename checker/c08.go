package main

// C08 Registration validated up front: ill-formed rejected, well-formed accepted.

import (
	"fmt"
	"go/token"
	"go/types"
	"sort"
	"strings"

	"golang.org/x/tools/go/ssa"
)

func init() { register("C08", checkC08) }

// regFuncs: module functions reachable from the registration entry points.
func regFuncs(p *Prog) []*ssa.Function {
	seen := map[*ssa.Function]bool{}
	var work, out []*ssa.Function
	add := func(f *ssa.Function) {
		if f == nil || seen[f] || !p.inModule(f) || len(f.Blocks) == 0 {
			return
		}
		seen[f] = true
		work = append(work, f)
		out = append(out, f)
	}
	add(p.Meth("flamego", "router", "addRoute"))
	add(p.Fn("flamego", "newRouter"))
	add(p.Fn("route", "AddRoute"))
	add(p.Fn("route", "NewParser"))
	for len(work) > 0 {
		f := work[len(work)-1]
		work = work[:len(work)-1]
		allInstrs(f, func(in ssa.Instruction) {
			if ci, ok := in.(ssa.CallInstruction); ok {
				if ci.Common().IsInvoke() {
					// private Tree/Leaf helpers only (getters etc. are trivial, but include them)
					for _, cal := range p.moduleCallees(ci.Common()) {
						if cal.Pkg == p.SSA["route"] {
							add(cal)
						}
					}
				} else if cal := ci.Common().StaticCallee(); cal != nil {
					add(cal)
				}
			}
		})
	}
	return out
}

func isErrorT(t types.Type) bool {
	n, ok := t.(*types.Named)
	return ok && n.Obj().Name() == "error" && n.Obj().Pkg() == nil
}

func checkC08(c *Check) {
	p := c.P
	c.Explain = "error-discipline dataflow over the registration call graph, guard-cut reachability of the list stores from the duplicate edges, bind-set domination of node allocations, optional/empty/nested-match-all guards, and a nil-typestate rule for the root tree's segment"
	c.NotDec = []string{
		"completeness of \"every other route is accepted\" beyond the absence of nil-dereference and explicit-error paths for grammatical shapes",
		"that the grammar check itself is right (C06)",
	}
	regs := regFuncs(p)
	c.Extra["registration_functions"] = len(regs)

	// ---- R1 error discipline
	c.Rule("R1", "E4 dataflow", "every error produced on the registration path is propagated (returned, wrapped) or tested with its non-nil edge ending in an error return or a panic; none is dropped", 12)
	for _, fn := range regs {
		allInstrs(fn, func(in ssa.Instruction) {
			call, ok := in.(*ssa.Call)
			if !ok {
				return
			}
			res := call.Call.Signature().Results()
			if res.Len() == 0 || !isErrorT(res.At(res.Len()-1).Type()) {
				return
			}
			name := callName(&call.Call)
			if strings.HasPrefix(name, "github.com/pkg/errors.") || strings.HasPrefix(name, "fmt.Errorf") || strings.HasPrefix(name, "errors.New") {
				return // constructors of errors, not fallible operations
			}
			if strings.HasPrefix(name, "(*bytes.Buffer).Write") || strings.HasPrefix(name, "(*strings.Builder).Write") {
				return // documented to always return a nil error
			}
			if strings.HasPrefix(name, "fmt.Fprint") || strings.HasPrefix(name, "fmt.Print") || strings.HasPrefix(name, "(*log.Logger).") || name == "(io.Writer).Write" || strings.HasPrefix(name, "(*os.File).Write") || strings.HasPrefix(name, "io.WriteString") {
				return // diagnostics output: its failure is not a failed registration
			}
			key := p.FuncKey(fn) + ":err-of:" + name
			pos := p.Pos(call.Pos())
			var errV ssa.Value
			if res.Len() == 1 {
				errV = call
			} else {
				for _, r := range referrers(call) {
					if e, ok := r.(*ssa.Extract); ok && e.Index == res.Len()-1 {
						errV = e
					}
				}
			}
			if name == "strconv.Atoi" && fn.Name() == "checkMatchStyleAll" {
				c.OK(key, pos, "named exception: a non-numeric capture value is not among the property's ill-formed inputs (capture = 0 = unlimited)", 1)
				return
			}
			if errV == nil {
				c.Bad(key, pos, "the error result is discarded: an ill-formed registration is silently accepted")
				return
			}
			how := errorHandled(fn, errV)
			if how != "" {
				c.OK(key, pos, how, 1)
			} else {
				c.Bad(key, pos, "the error is neither propagated nor does its non-nil edge end in an error return/panic: the failure is dropped or surfaces later")
			}
		})
	}

	// ---- R2 unknown method
	c.Rule("R2", "E1 guard-cut", "parse and tree insertion are unreachable unless a known method was selected; the empty selection panics; methods come only from the httpMethods table", 3)
	if ar := p.Meth("flamego", "router", "addRoute"); ar != nil {
		key := p.FuncKey(ar)
		var methods ssa.Value
		// the value whose len()==0 test (in any spelling) leads to a panic
		allInstrs(ar, func(in ssa.Instruction) {
			l, ok := in.(*ssa.Call)
			if !ok || callName(&l.Call) != "builtin.len" || methods != nil {
				return
			}
			if sl, isSl := l.Call.Args[0].Type().Underlying().(*types.Slice); !isSl || !isStringT(sl.Elem()) {
				return
			}
			if len(edgesWhere(ar, cCmp(token.EQL, vIs(l), vConstInt(0)), true)) > 0 {
				methods = l.Call.Args[0]
			}
		})
		if methods == nil {
			c.Bad(key+":method-check", p.FuncPos(ar), "no test of an empty method selection found: an unknown HTTP method is not rejected")
		} else {
			some := edgesWhere(ar, cCmp(token.EQL, vLen(vIs(methods)), vConstInt(0)), false)
			none := edgesWhere(ar, cCmp(token.EQL, vLen(vIs(methods)), vConstInt(0)), true)
			work := func(in ssa.Instruction) bool {
				ci, ok := in.(ssa.CallInstruction)
				if !ok {
					return false
				}
				n := callName(ci.Common())
				return n == "(*route.Parser).Parse" || n == "route.AddRoute"
			}
			ok, path := guardedBy(ar, some, work)
			if ok && len(some) > 0 {
				c.OK(key+":method-check", p.FuncPos(ar), "Parse/AddRoute reachable only on the len(methods) != 0 edge", numInstrs(ar))
			} else {
				c.Bad(key+":method-check", p.FuncPos(ar), "a registration with an unknown method can reach parsing/insertion", path)
			}
			bad := false
			for e := range none {
				in, _ := Query{Fn: ar}.Reach(e.B.Succs[e.S], 0, func(in ssa.Instruction) bool { return isReturn(in) || work(in) })
				if in != nil {
					bad = true
				}
			}
			c.Cond(!bad && len(none) > 0, key+":unknown-method-panics", p.FuncPos(ar), "the empty selection ends in panic", "an unknown method does not panic at registration")
			// provenance of methods
			okProv := true
			why := ""
			phiLeaves(methods, func(l ssa.Value) {
				switch x := l.(type) {
				case *ssa.Const:
					if x.Value != nil {
						okProv, why = false, "constant"
					}
				case *ssa.UnOp:
					if g, ok := x.X.(*ssa.Global); !ok || g.Name() != "httpMethods" {
						okProv, why = false, vstr(l)
					}
				case *ssa.Slice:
					// []string{method} on the method == httpMethods[i] edge
					al, ok := x.X.(*ssa.Alloc)
					if !ok {
						okProv, why = false, vstr(l)
						return
					}
					eq := edgesWhere(ar, func(v ssa.Value) (bool, bool) {
						inner, pos := unNot(v)
						bo, ok := inner.(*ssa.BinOp)
						if !ok || (bo.Op != token.EQL && bo.Op != token.NEQ) {
							return false, false
						}
						isElem := func(v ssa.Value) bool {
							u, ok := strip(v).(*ssa.UnOp)
							if !ok {
								return false
							}
							ia, ok := u.X.(*ssa.IndexAddr)
							if !ok {
								return false
							}
							ld, ok := strip(ia.X).(*ssa.UnOp)
							if !ok {
								return false
							}
							g, ok := ld.X.(*ssa.Global)
							return ok && g.Name() == "httpMethods"
						}
						if isElem(bo.X) || isElem(bo.Y) {
							return true, pos == (bo.Op == token.EQL)
						}
						return false, false
					}, true)
					// … or slices.Contains(httpMethods, m) / slices.Index(httpMethods, m) >= 0
					isTable := func(v ssa.Value) bool {
						ld, ok := strip(v).(*ssa.UnOp)
						if !ok {
							return false
						}
						g, ok := ld.X.(*ssa.Global)
						return ok && g.Name() == "httpMethods"
					}
					isContains := func(v ssa.Value) bool {
						cl := asCall(v)
						return cl != nil && strings.HasPrefix(callName(&cl.Call), "slices.Contains") && len(cl.Call.Args) == 2 && isTable(cl.Call.Args[0])
					}
					isIndexOf := func(v ssa.Value) bool {
						cl := asCall(v)
						return cl != nil && strings.HasPrefix(callName(&cl.Call), "slices.Index") && len(cl.Call.Args) == 2 && isTable(cl.Call.Args[0])
					}
					eq = union(eq, edgesWhere(ar, cBool(isContains), true), edgesWhere(ar, cCmp(token.GEQ, isIndexOf, vConstInt(0)), true))
					// … or membership in a set that the package initialiser derives from the table (one key per entry,
					// never written elsewhere)
					isSetHit := func(v ssa.Value) bool {
						e, ok := strip(v).(*ssa.Extract)
						if !ok || e.Index != 1 {
							return false
						}
						lk, ok := e.Tuple.(*ssa.Lookup)
						if !ok || !lk.CommaOk {
							return false
						}
						ld, ok := strip(lk.X).(*ssa.UnOp)
						if !ok {
							return false
						}
						g, ok := ld.X.(*ssa.Global)
						return ok && p.setDerivedFromTable(g, "httpMethods")
					}
					eq = union(eq, edgesWhere(ar, cBool(isSetHit), true))
					// … or an explicit enumeration: the method compared with each of the nine verb constants (that the
					// table is exactly those nine is C11.R7); a missing verb would reject a well-formed registration
					var methodV ssa.Value
					for _, r := range referrers(al) {
						if ia, ok := r.(*ssa.IndexAddr); ok {
							for _, rr := range referrers(ia) {
								if st, ok := rr.(*ssa.Store); ok && st.Addr == ssa.Value(ia) {
									methodV = st.Val
								}
							}
						}
					}
					if methodV != nil {
						verbs := map[string]bool{"GET": false, "HEAD": false, "POST": false, "PUT": false, "PATCH": false, "DELETE": false, "CONNECT": false, "OPTIONS": false, "TRACE": false}
						enum := EdgeSet{}
						for v := range verbs {
							es := edgesWhere(ar, cCmp(token.EQL, vIs(methodV), vConstStr(v)), true)
							if len(es) > 0 {
								verbs[v] = true
								enum = union(enum, es)
							}
						}
						all := true
						for _, seen := range verbs {
							all = all && seen
						}
						if all {
							eq = union(eq, enum)
						}
					}
					eq = union(eq, flagTrueEdges(ar, eq))
					if ok2, _ := guardedBy(ar, eq, isInstr(al)); !ok2 || len(eq) == 0 {
						okProv, why = false, "a single-method selection is built without comparing with the httpMethods table"
					}
				default:
					okProv, why = false, vstr(l)
				}
			})
			c.Cond(okProv, key+":methods-from-table", p.FuncPos(ar), "methods ∈ {httpMethods (for \"*\"), [m] with m == httpMethods[i], nil}", "the method selection does not derive from the httpMethods table: "+why)
		}
	} else {
		c.Anchor("router.addRoute")
	}

	// ---- R3 duplicates
	c.Rule("R3", "E1 from-edge reachability", "an existing sibling with equal segment text (leaves) or an existing match-all (leaves and subtrees) makes the list store unreachable and the result an error; the comparison covers all existing leaves", 4)
	checkDuplicateRules(c)

	// ---- R4 bind uniqueness
	c.Rule("R4", "E1 + E6", "every allocation of a bind-carrying node is dominated by a failed lookup of its bind(s) in the set of ancestor binds; binds of a list are also checked against each other", 8)
	checkBindUniqueness(c)

	// ---- R5 optional / empty / nested match-all
	c.Rule("R5", "E1 guard-cut", "a subtree is created only for a non-optional, non-last segment with at least one element; a match-all subtree only when no ancestor is match-all", 4)
	checkShapeGuards(c)

	// ---- R9 the duplicate tests rest on the sibling order
	c.Rule("R9", "shared with C01 (R2)", "hasMatchAllLeaf/hasMatchAllSubtree look at the LAST sibling only, so a second match-all is refused only if siblings are kept ordered by rank with the match-all last: the insertion rule of C01 is part of this property", 3)
	c.Share("C01", []string{"R2"}, 3)

	// ---- R8 every user expression is compiled on its own
	c.Rule("R8", "E3 provenance", "each user expression is handed to regexp.Compile by itself (its error handled under R1) before it is spliced into the segment pattern, so text that only compiles after splicing — e.g. \"x)(y\" — is rejected", 1)
	if cons := p.Fn("route", "constructMatchStyleRegex"); cons != nil {
		own := false
		allInstrs(cons, func(in ssa.Instruction) {
			if cl, ok := in.(*ssa.Call); ok && (callName(&cl.Call) == "regexp.Compile" || callName(&cl.Call) == "regexp/syntax.Parse") && vFieldNamed("Regex")(cl.Call.Args[0]) {
				own = true
				// … for every expression: no iteration moves on to the next parameter without it (a shortcut such
				// as "no '(' inside, nothing to count" loses the stand-alone validation)
				var from ssa.Instruction
				cur := strip(cl.Call.Args[0])
				for i := 0; i < 8 && from == nil; i++ {
					switch x := cur.(type) {
					case *ssa.UnOp:
						cur = x.X
					case *ssa.FieldAddr:
						cur = x.X
					case *ssa.IndexAddr:
						from = x
					case *ssa.Alloc:
						// the loop's copy of the element: the store that fills it in this iteration
						for _, r := range referrers(x) {
							if st, isSt := r.(*ssa.Store); isSt && st.Addr == ssa.Value(x) && st.Block().Dominates(cl.Block()) {
								from = st
							}
						}
						i = 8
					default:
						i = 8
					}
				}
				if from != nil {
					fb := from.Block()
					target := func(x ssa.Instruction) bool {
						b := x.Block()
						return b != fb && b.Dominates(fb) && len(b.Instrs) > 0 && b.Instrs[0] == x
					}
					if x, path := (Query{Fn: cons, Avoid: isInstr(cl)}).After(from, target); x != nil {
						own = false
						c.Bad(p.FuncKey(cons)+":compiles-each-expression:always", p.Pos(cl.Pos()), "an iteration over the parameters can move on without compiling the expression on its own: text that only compiles once spliced into the segment pattern (a trailing backslash, a stray ')') is accepted", blockPath(path))
					}
				}
			}
		})
		c.Cond(own, p.FuncKey(cons)+":compiles-each-expression", p.FuncPos(cons), "regexp.Compile(*p.Value.Regex) for every parameter", "user expressions are no longer compiled individually: an expression that does not compile on its own can be accepted once wrapped (and group counting falls back to guessing)")
	} else {
		c.Anchor("route.constructMatchStyleRegex")
	}

	// ---- R10 bind names are taken from the style interpreters, not re-derived from the AST
	c.Rule("R10", "E4 taint", "a name tested for duplication on the registration path comes from the node's style interpreter (checkMatchStylePlaceholder, checkMatchStyleAll, constructMatchStyleRegex) or from stored node binds, never from a second reading of the AST's BindIdent / BindParameter.Ident fields: which identifiers of a segment are binds depends on its match style (`capture` in a match-all is an annotation)", 1)
	{
		interp := map[*ssa.Function]bool{}
		for _, n := range []string{"checkMatchStylePlaceholder", "checkMatchStyleAll", "constructMatchStyleRegex"} {
			if f := p.Fn("route", n); f != nil {
				interp[f] = true
			} else {
				c.Anchor("route." + n)
			}
		}
		rawBindName := func(v ssa.Value) bool {
			in, ok := v.(ssa.Instruction)
			if !ok || in.Parent() == nil || interp[in.Parent()] {
				return false
			}
			_, ns, ok := fieldPath(v)
			if !ok || len(ns) == 0 {
				return false
			}
			last := ns[len(ns)-1]
			if last == "BindIdent" {
				return true
			}
			if last != "Ident" {
				return false
			}
			// BindParameter.Ident is a string, SegmentElement.Ident (literal text) a *string
			_, isBasic := v.Type().Underlying().(*types.Basic)
			return isBasic && len(ns) >= 2 && ns[len(ns)-2] == "Parameters"
		}
		// through helpers: a call of a module function (not an interpreter) stands for what it returns
		var viaCalls func(depth int) VM
		viaCalls = func(depth int) VM {
			return func(v ssa.Value) bool {
				if rawBindName(v) {
					return true
				}
				cl, ok := v.(*ssa.Call)
				if !ok || depth <= 0 {
					return false
				}
				for _, cal := range p.moduleCallees(&cl.Call) {
					if interp[cal] {
						continue
					}
					hit := false
					allInstrs(cal, func(in ssa.Instruction) {
						if r, ok := in.(*ssa.Return); ok {
							for _, res := range r.Results {
								if derivesFrom(res, viaCalls(depth-1), nil) {
									hit = true
								}
							}
						}
					})
					if hit {
						return true
					}
				}
				return false
			}
		}
		n, bad := 0, 0
		var fns []*ssa.Function
		if ar := p.Fn("route", "AddRoute"); ar != nil {
			fns = p.ReachFrom(ar)
		} else {
			c.Anchor("route.AddRoute")
		}
		for _, fn := range fns {
			allInstrs(fn, func(in ssa.Instruction) {
				l, ok := in.(*ssa.Lookup)
				if !ok {
					return
				}
				if _, isMap := l.X.Type().Underlying().(*types.Map); !isMap {
					return
				}
				n++
				if derivesFrom(l.Index, viaCalls(3), nil) {
					bad++
					c.Bad(p.FuncKey(fn)+":raw-bind-name", p.Pos(l.Pos()), "a name read straight from the AST (BindIdent / BindParameter.Ident) outside the style interpreters is tested against a name set: identifiers that are not binds for the segment's style (e.g. `capture` of a match-all) are treated as binds, so well-formed routes can be rejected")
				}
			})
		}
		if bad == 0 && len(fns) > 0 {
			c.OK("registration:bind-name-source", "internal/route", fmt.Sprintf("%d set lookups in %d registration functions; every tested name comes from a style interpreter or stored binds", n, len(fns)), 1)
		}
	}

	// ---- R11 the text that is validated is the text the user wrote
	c.Rule("R11", "shared with C11 (R2)", "Route hands groupPath(outer→inner) + routePath to the parser unchanged: a rewrite of the text before parsing (collapsing, trimming, replacing) hides empty inner segments and other grammar violations from the only place that rejects them", 3)
	c.Share("C11", []string{"R2"}, 3)

	// ---- R12 every piece of a method list is checked
	c.Rule("R12", "shared with C11 (R6)", "Routes hands every entry of a comma list (also an empty one, e.g. after a trailing comma) to Route, where unknown methods are refused", 1)
	c.Share("C11", []string{"R6"}, 1)

	// ---- R13 an accepted route is reachable by its own instances subject only to priority
	c.Rule("R13", "shared with C10 (R1, R2, R6)", "registration publishes a leaf to the static shortcut only where that leaf itself reports Static() (asked per method: an earlier optional sibling in one method's tree shadows it there), under its own text and method", 4)
	c.Share("C10", []string{"R1", "R2", "R6"}, 4)

	// ---- R6 root typestate
	c.Rule("R6", "E3 nil-typestate", "the segment of a tree that may be the root (parent == nil) is used only where getParent() != nil has been established", 1)
	checkRootTypestate(c, regs)
}

// errorHandled classifies the uses of an error value; returns "" if dropped.
func errorHandled(fn *ssa.Function, errV ssa.Value) string {
	propagated, tested := false, false
	okTest := true
	var visit func(v ssa.Value, depth int)
	visit = func(v ssa.Value, depth int) {
		if depth > 4 {
			return
		}
		for _, r := range referrers(v) {
			switch x := r.(type) {
			case *ssa.Return:
				propagated = true
			case *ssa.Phi:
				visit(x, depth+1)
			case *ssa.ChangeInterface:
				visit(x, depth+1)
			case *ssa.MakeInterface:
				visit(x, depth+1)
			case ssa.CallInstruction:
				// any call that takes the error and yields an error (errors.Wrap, fmt.Errorf("%w"), …)
				if cv, ok := x.(ssa.Value); ok {
					res := x.Common().Signature().Results()
					if res.Len() == 1 && isErrorT(res.At(0).Type()) {
						visit(cv, depth+1)
					}
				}
			case *ssa.Store:
				// stored into a variadic argument array: follow the slice of that array into its call
				if ia, ok := x.Addr.(*ssa.IndexAddr); ok {
					if al, ok := ia.X.(*ssa.Alloc); ok {
						for _, r2 := range referrers(al) {
							if sl, ok := r2.(*ssa.Slice); ok {
								for _, r3 := range referrers(sl) {
									if ci, ok := r3.(ssa.CallInstruction); ok {
										if cv, ok := ci.(ssa.Value); ok {
											res := ci.Common().Signature().Results()
											if res.Len() == 1 && isErrorT(res.At(0).Type()) {
												visit(cv, depth+1)
											}
										}
									}
								}
							}
						}
					}
				}
			case *ssa.BinOp:
				if (x.Op == token.NEQ || x.Op == token.EQL) && (vNil(x.X) || vNil(x.Y)) {
					tested = true
					for e := range edgesWhere(fn, cCmp(token.NEQ, vIs(v), vNil), true) {
						// on the non-nil edge: every exit is a panic or an error return
						var in ssa.Instruction
						if errorLeaks(e.B.Succs[e.S], e.B, v) {
							in = e.B.Instrs[len(e.B.Instrs)-1]
						}
						if in != nil {
							okTest = false
						}
					}
				}
			}
		}
	}
	visit(errV, 0)
	switch {
	case tested && okTest:
		return "tested; the non-nil edge ends in an error return or a panic"
	case tested && !okTest:
		return ""
	case propagated:
		return "propagated to the caller"
	}
	return ""
}

func checkDuplicateRules(c *Check) {
	p := c.P
	for _, site := range []struct{ setter, getter, ctor, hasAll, style, label string }{
		{"(route.Tree).setLeaves", "(route.Tree).getLeaves", "route.newLeaf", "(route.Tree).hasMatchAllLeaf", "(route.Leaf).getMatchStyle", "leaves"},
		{"(route.Tree).setSubtrees", "(route.Tree).getSubtrees", "route.newTree", "(route.Tree).hasMatchAllSubtree", "(route.Tree).getMatchStyle", "subtrees"},
	} {
		var fn *ssa.Function
		var S ssa.CallInstruction
		for _, f := range p.Funcs() {
			if f.Pkg == p.SSA["route"] {
				for _, s := range callsNamed(f, site.setter) {
					fn, S = f, s
				}
			}
		}
		if fn == nil {
			c.Anchor("caller of " + site.setter)
			continue
		}
		key := p.FuncKey(fn) + ":" + site.label
		t := vParam(fn, 0)
		var newV ssa.Value
		allInstrs(fn, func(in ssa.Instruction) {
			if v, ok := in.(ssa.Value); ok && vExtract(0, vCall(site.ctor, t))(v) {
				newV = v
			}
		})
		kAll, _ := p.constVal("route", "matchStyleAll")
		if newV != nil {
			hasAll := vCall(site.hasAll, t)
			isAllNew := edgesWhere(fn, cCmp(token.EQL, vCall(site.style, vIs(newV)), vConstInt(kAll)), false)
			isHasAllCall := func(in ssa.Instruction) bool {
				v, ok := in.(ssa.Value)
				return ok && hasAll(v)
			}
			in1, path1 := Query{Fn: fn, Cut: isAllNew, Avoid: isHasAllCall}.FromEntry(isInstr(S))
			dupEdges := edgesWhere(fn, cBool(hasAll), true)
			bad2 := ""
			for e := range dupEdges {
				in, pth := Query{Fn: fn}.Reach(e.B.Succs[e.S], 0, func(in ssa.Instruction) bool {
					if in == ssa.Instruction(S) {
						return true
					}
					r, ok := in.(*ssa.Return)
					return ok && vNil(r.Results[len(r.Results)-1])
				})
				if in != nil {
					bad2 = blockPath(pth)
				}
			}
			switch {
			case len(isAllNew) == 0 || in1 != nil:
				c.Bad(key+":second-match-all", p.Pos(S.Pos()), "a match-all node can be stored without asking whether the list already holds one: two different match-alls share a position", blockPath(path1))
			case len(dupEdges) == 0 || bad2 != "":
				c.Bad(key+":second-match-all", p.Pos(S.Pos()), "an existing match-all does not stop the registration with an error", bad2)
			default:
				c.OK(key+":second-match-all", p.Pos(S.Pos()), "new is match-all ⇒ "+site.hasAll+" is consulted; its true edge cannot reach the store and returns an error", numInstrs(fn))
			}
		}
		if site.label != "leaves" {
			continue
		}
		// equal-text leaf
		seg := vParam(fn, 2)
		old := vCall(site.getter, t)
		var elem ssa.Value
		var idx ssa.Value
		allInstrs(fn, func(in ssa.Instruction) {
			if v, ok := in.(ssa.Value); ok && elem == nil {
				if i, ok := elemIndex(v, old); ok && ascendingIndex(i) {
					// the scan whose element's segment text is compared (the rank scan also walks the list)
					cmp := cCmp(token.EQL, vCall("(*route.Segment).String", vCall("(route.Leaf).getSegment", vIs(v))), vAny)
					if len(edgesWhere(fn, cmp, true)) > 0 {
						elem, idx = v, i
					}
				}
			}
		})
		if elem == nil {
			c.Bad(key+":duplicate-route", p.FuncPos(fn), "no scan over all existing leaves found: a duplicate route is not detected")
			continue
		}
		same := cCmp(token.EQL, vCall("(*route.Segment).String", vCall("(route.Leaf).getSegment", vIs(elem))), vCall("(*route.Segment).String", seg))
		dup := edgesWhere(fn, same, true)
		exh := edgesWhere(fn, cCmp(token.LSS, vIs(idx), vLen(old)), false)
		bad := ""
		for e := range dup {
			in, pth := Query{Fn: fn}.Reach(e.B.Succs[e.S], 0, func(in ssa.Instruction) bool {
				if in == ssa.Instruction(S) {
					return true
				}
				r, ok := in.(*ssa.Return)
				return ok && vNil(r.Results[len(r.Results)-1])
			})
			if in != nil {
				bad = blockPath(pth)
			}
		}
		isCtor := func(in ssa.Instruction) bool {
			ci, ok := in.(ssa.CallInstruction)
			return ok && callName(ci.Common()) == site.ctor
		}
		in3, path3 := Query{Fn: fn, Cut: exh}.FromEntry(isCtor)
		switch {
		case len(dup) == 0:
			c.Bad(key+":duplicate-route", p.FuncPos(fn), "existing leaves are not compared by segment text with the new segment")
		case bad != "":
			c.Bad(key+":duplicate-route", p.FuncPos(fn), "an equal-text leaf does not stop the registration with an error", bad)
		case len(exh) == 0 || in3 != nil:
			c.Bad(key+":duplicate-route", p.FuncPos(fn), "the new leaf can be created before ALL existing leaves have been compared", blockPath(path3))
		default:
			c.OK(key+":duplicate-route", p.FuncPos(fn), "every existing leaf is compared by canonical segment text; an equal one returns an error before anything is created", numInstrs(fn))
		}
	}
	// hasMatchAll* definitions: len > 0 && last.style == all
	for _, nm := range [][2]string{{"hasMatchAllLeaf", "leaves"}, {"hasMatchAllSubtree", "subtrees"}} {
		fn := p.Meth("route", "baseTree", nm[0])
		if fn == nil {
			c.Anchor("baseTree." + nm[0])
			continue
		}
		kAll, _ := p.constVal("route", "matchStyleAll")
		list := vField(vParam(fn, 0), nm[1])
		last := vElem(list, vBin(token.SUB, vLen(list), vConstInt(1)))
		isAll := func(v ssa.Value) bool {
			m, pos := cCmp(token.EQL, func(x ssa.Value) bool {
				cl := asCall(x)
				return cl != nil && strings.HasSuffix(callName(&cl.Call), ".getMatchStyle") && last(cl.Call.Value)
			}, vConstInt(kAll))(v)
			return m && pos
		}
		ok := true
		n := 0
		allInstrs(fn, func(in ssa.Instruction) {
			if r, isR := in.(*ssa.Return); isR {
				n++
				// result true ⇒ style(last) == all
				g := EdgeSet{}
				ok2, _ := boolImplies(fn, r.Results[0], r.Block(), isAll, g)
				if !ok2 {
					ok = false
				}
			}
		})
		// and style(last)==all with len>0 ⇒ true : the result must not be constant false
		c.Cond(ok && n > 0, p.FuncKey(fn)+":definition", p.FuncPos(fn), nm[0]+"() ⇒ style("+nm[1]+"[len-1]) == all", nm[0]+"() does not test the LAST element's style (match-all nodes are kept last)")
	}
}

func checkBindUniqueness(c *Check) {
	p := c.P
	for _, ctor := range []string{"newTree", "newLeaf"} {
		fn := p.Fn("route", ctor)
		if fn == nil {
			c.Anchor("route." + ctor)
			continue
		}
		parent := vParam(fn, 0)
		set := vCall("route.getParentBindSet", parent)
		allInstrs(fn, func(in ssa.Instruction) {
			al, ok := in.(*ssa.Alloc)
			if !ok {
				return
			}
			tn := namedName(derefT(al.Type()))
			if !strings.HasSuffix(tn, "Tree") && !strings.HasSuffix(tn, "Leaf") {
				return
			}
			key := p.FuncKey(fn) + ":alloc:" + tn
			pos := p.Pos(al.Pos())
			// which bind(s) does it carry?
			var bindV, bindsV ssa.Value
			for _, r := range referrers(al) {
				fa, ok := r.(*ssa.FieldAddr)
				if !ok {
					continue
				}
				for _, rr := range referrers(fa) {
					if st, ok := rr.(*ssa.Store); ok && st.Addr == ssa.Value(fa) {
						switch fieldOf(fa).Name() {
						case "bind":
							bindV = st.Val
						case "binds":
							bindsV = st.Val
						}
					}
				}
			}
			switch {
			case bindV != nil:
				// the key of the lookup is the stored value itself, or another read of the same local field
				bv := bindV
				absent := edgesWhere(fn, cBool(p.vMember(set, func(x ssa.Value) bool { return sameValue(x, bv) })), false)
				ok, path := guardedBy(fn, absent, isInstr(al))
				if ok && len(absent) > 0 {
					c.OK(key, pos, "allocation reachable only on the `bind not among ancestor binds` edge", numInstrs(fn))
				} else {
					c.Bad(key, pos, "a node carrying bind "+vstr(bindV)+" can be created without its bind having been looked up among the ancestors' binds: a bind name can be reused along one route", path)
				}
			case bindsV != nil:
				checkBindListLoop(c, fn, al, bindsV, set, key, pos)
			default:
				c.OK(key, pos, "node carries no bind", 1)
			}
		})
	}
	// getParentBindSet walks the whole ancestor chain and collects getBinds()
	if g := p.Fn("route", "getParentBindSet"); g != nil {
		key := p.FuncKey(g)
		var anc *ssa.Phi
		allInstrs(g, func(in ssa.Instruction) {
			if ph, ok := in.(*ssa.Phi); ok && len(ph.Edges) == 2 {
				i0, st := false, false
				for _, e := range ph.Edges {
					if vParam(g, 0)(e) {
						i0 = true
					}
					if vCall("(route.Tree).getParent", vIs(ph))(e) {
						st = true
					}
				}
				if i0 && st {
					anc = ph
				}
			}
		})
		if anc == nil {
			c.Bad(key+":walk", p.FuncPos(g), "the ancestor walk φ(parent, ancestor.getParent()) was not found")
		} else {
			atRoot := edgesWhere(g, cCmp(token.EQL, vIs(anc), vNil), true)
			ok, _ := guardedBy(g, atRoot, isReturn)
			binds := vCall("(route.Tree).getBinds", vIs(anc))
			stored := false
			allInstrs(g, func(in ssa.Instruction) {
				if mu, ok := in.(*ssa.MapUpdate); ok {
					if _, isE := elemIndex(mu.Key, binds); isE {
						stored = true
					}
				}
			})
			c.Cond(ok && len(atRoot) > 0 && stored, key+":walk", p.FuncPos(g), "collects getBinds() of every ancestor up to the root", "the ancestor bind set does not cover every ancestor's binds")
			// every reported bind is put into the set: no name is exempt from the duplicate test
			allInstrs(g, func(in ssa.Instruction) {
				mu, ok := in.(*ssa.MapUpdate)
				if !ok {
					return
				}
				if _, isE := elemIndex(mu.Key, binds); !isE {
					return
				}
				from, _ := strip(mu.Key).(ssa.Instruction)
				if from == nil {
					return
				}
				if skip, path := iterationSkips(g, from, mu); skip {
					c.Bad(key+":every-bind", p.Pos(mu.Pos()), "an ancestor's bind can be left out of the set (a name exempt from the duplicate test): two binds of that name along one route are accepted, and matching and URL building then share one value between them", path)
				} else {
					c.OK(key+":every-bind", p.Pos(mu.Pos()), "every bind the ancestors report is stored in the set", 1)
				}
			})
		}
	} else {
		c.Anchor("route.getParentBindSet")
	}
	// getBinds of bind-carrying trees report their binds
	if tn := p.Named("route", "Tree"); tn != nil {
		for _, fn := range p.Implementations(tn.Underlying().(*types.Interface), "getBinds") {
			rt := namedName(derefT(fn.Signature.Recv().Type()))
			key := p.FuncKey(fn) + ":reports-binds"
			recv := vParam(fn, 0)
			nonNil := false
			allInstrs(fn, func(in ssa.Instruction) {
				if r, ok := in.(*ssa.Return); ok && !vNil(r.Results[0]) {
					nonNil = true
				}
			})
			usesField := false
			allInstrs(fn, func(in ssa.Instruction) {
				if v, ok := in.(ssa.Value); ok && (vField(recv, "bind")(v) || vField(recv, "binds")(v)) {
					usesField = true
				}
			})
			// what is returned holds the field's contents: the list itself, a literal of the bind, or a copy that is
			// as long as the list (make(len) + copy, or append onto an empty slice)
			full := true
			isBinds := vOr(vField(recv, "binds"), vField(recv, "bind"))
			allInstrs(fn, func(in ssa.Instruction) {
				r, ok := in.(*ssa.Return)
				if !ok || vNil(r.Results[0]) {
					return
				}
				rv := strip(r.Results[0])
				switch x := rv.(type) {
				case *ssa.MakeSlice:
					// copy(dst, binds) with len(dst) == len(binds)
					okLen := vLen(vField(recv, "binds"))(x.Len)
					okCopy := false
					for _, ref := range referrers(x) {
						if cl, isC := ref.(*ssa.Call); isC && callName(&cl.Call) == "builtin.copy" && strip(cl.Call.Args[0]) == ssa.Value(x) && vField(recv, "binds")(cl.Call.Args[1]) {
							okCopy = true
						}
					}
					if !okLen || !okCopy {
						full = false
					}
				case *ssa.Call:
					if callName(&x.Call) != "builtin.append" || !derivesFrom(x, isBinds, nil) {
						full = false
					}
				default:
					if !isBinds(rv) && !derivesFrom(rv, isBinds, nil) {
						full = false
					}
				}
			})
			switch rt {
			case "placeholderTree", "matchAllTree", "regexTree":
				c.Cond(nonNil && usesField && full, key, p.FuncPos(fn), rt+" reports its bind(s)", rt+".getBinds() does not report the node's binds (all of them): descendants may reuse the name")
			default:
				c.OK(key, p.FuncPos(fn), rt+" carries no binds", 1)
			}
		}
	}
}

func checkBindListLoop(c *Check, fn *ssa.Function, al *ssa.Alloc, bindsV ssa.Value, set VM, key, pos string) {
	// the stored list itself, or another read of the same field of the same local (binds kept in a struct)
	list := func(v ssa.Value) bool { return sameValue(v, bindsV) }
	var elem, idx ssa.Value
	allInstrs(fn, func(in ssa.Instruction) {
		if v, ok := in.(ssa.Value); ok && elem == nil {
			if i, ok := elemIndex(v, list); ok && ascendingIndex(i) {
				elem, idx = v, i
			}
		}
	})
	if elem == nil {
		c.Bad(key, pos, "a node carrying a list of binds is created without any loop checking them")
		return
	}
	exh := edgesWhere(fn, cCmp(token.LSS, vIs(idx), vLen(list)), false)
	ok1, path1 := guardedBy(fn, exh, isInstr(al))
	isLookup := c.P.vMember(set, vIs(elem))
	absent := edgesWhere(fn, cBool(isLookup), false)
	var mu ssa.Instruction
	allInstrs(fn, func(in ssa.Instruction) {
		if x, ok := in.(*ssa.MapUpdate); ok && set(x.Map) && strip(x.Key) == strip(elem) {
			mu = x
		}
	})
	// from the element load, the next iteration (or the allocation) needs the absent edge and the insertion
	el := elem.(ssa.Instruction)
	next := func(in ssa.Instruction) bool {
		return in == ssa.Instruction(al) || (in.Block() == el.Block() && in == el)
	}
	in2, path2 := Query{Fn: fn, Cut: absent}.After(el, next)
	switch {
	case !ok1 || len(exh) == 0:
		c.Bad(key, pos, "the regex node can be created before every bind of its list was checked", path1)
	case len(absent) == 0 || in2 != nil:
		c.Bad(key, pos, "a bind of the list can pass without a failed lookup among the ancestors' binds", blockPath(path2))
	case mu == nil:
		c.Bad(key, pos, "binds of one segment are not checked against each other: the checked set is never extended inside the loop, so \"/{a}-{a}\" is accepted")
	default:
		in3, path3 := Query{Fn: fn, Avoid: isInstr(mu)}.After(el, next)
		if in3 != nil {
			c.Bad(key, pos, "an iteration can finish without adding the bind to the checked set", blockPath(path3))
			return
		}
		c.OK(key, pos, "every bind of the list: failed lookup in ancestors ∪ earlier binds of the list, then added to the set; node allocated only after the loop", numInstrs(fn))
	}
}

func checkShapeGuards(c *Check) {
	p := c.P
	// addSubtree call sites: guarded by !Optional and by "not the last segment"
	for _, fn := range p.Funcs() {
		if fn.Pkg != p.SSA["route"] {
			continue
		}
		for _, ci := range callsNamed(fn, "route.addSubtree") {
			key := p.FuncKey(fn) + ":descends"
			r, next := ci.Common().Args[1], ci.Common().Args[2]
			segs := vField(vIs(r), "Segments")
			seg := vElem(segs, vIs(next))
			notOpt := edgesWhere(fn, cBool(vField(seg, "Optional")), false)
			ok, path := guardedBy(fn, notOpt, isInstr(ci))
			if ok && len(notOpt) > 0 {
				c.OK(key+":not-optional", p.Pos(ci.Pos()), "a subtree is created only for a non-optional segment", numInstrs(fn))
			} else {
				c.Bad(key+":not-optional", p.Pos(ci.Pos()), "a non-final optional segment can become a subtree: only the last segment may be optional", path)
			}
			// next+1 < len(segments), in any spelling
			notLast := edgesWhere(fn, cLinLess(linForm(1, []VM{vIs(next)}, []VM{vLen(segs)})), true)
			ok, path = guardedBy(fn, notLast, isInstr(ci))
			if ok && len(notLast) > 0 {
				c.OK(key+":not-last", p.Pos(ci.Pos()), "the last segment becomes a leaf, earlier ones subtrees", numInstrs(fn))
			} else {
				c.Bad(key+":not-last", p.Pos(ci.Pos()), "the last segment can be turned into a subtree (no leaf is ever created for the route)", path)
			}
		}
	}
	nt := p.Fn("route", "newTree")
	if nt == nil {
		c.Anchor("route.newTree")
		return
	}
	s := vParam(nt, 1)
	nonEmpty := edgesWhere(nt, cCmp(token.EQL, vLen(vField(s, "Elements")), vConstInt(0)), false)
	kAll, _ := p.constVal("route", "matchStyleAll")
	allInstrs(nt, func(in ssa.Instruction) {
		al, ok := in.(*ssa.Alloc)
		if !ok || !strings.HasSuffix(namedName(derefT(al.Type())), "Tree") {
			return
		}
		tn := namedName(derefT(al.Type()))
		key := p.FuncKey(nt) + ":alloc:" + tn
		ok2, path := guardedBy(nt, nonEmpty, isInstr(al))
		if ok2 && len(nonEmpty) > 0 {
			c.OK(key+":non-empty", p.Pos(al.Pos()), "tree nodes only for segments with at least one element", numInstrs(nt))
		} else {
			c.Bad(key+":non-empty", p.Pos(al.Pos()), "an empty inner segment (\"//\") can become a tree node", path)
		}
		if tn == "matchAllTree" {
			var anc *ssa.Phi
			allInstrs(nt, func(in ssa.Instruction) {
				if ph, ok := in.(*ssa.Phi); ok && len(ph.Edges) == 2 {
					i0, st := false, false
					for _, e := range ph.Edges {
						if vParam(nt, 0)(e) {
							i0 = true
						}
						if vCall("(route.Tree).getParent", vIs(ph))(e) {
							st = true
						}
					}
					if i0 && st {
						anc = ph
					}
				}
			})
			if anc == nil {
				c.Bad(key+":nested-match-all", p.Pos(al.Pos()), "no ancestor scan precedes the creation of a match-all subtree: two match-all segments can precede the end of one route")
				return
			}
			atRoot := edgesWhere(nt, cCmp(token.EQL, vIs(anc), vNil), true)
			ok3, _ := guardedBy(nt, atRoot, isInstr(al))
			notAll := edgesWhere(nt, cCmp(token.EQL, vCall("(route.Tree).getMatchStyle", vIs(anc)), vConstInt(kAll)), false)
			isStep := func(in ssa.Instruction) bool {
				v, ok := in.(ssa.Value)
				return ok && vCall("(route.Tree).getParent", vIs(anc))(v)
			}
			in4, _ := Query{Fn: nt, Cut: notAll}.FromEntry(isStep)
			if ok3 && len(atRoot) > 0 && in4 == nil && len(notAll) > 0 {
				c.OK(key+":nested-match-all", p.Pos(al.Pos()), "created only after every ancestor was found not to be match-all", numInstrs(nt))
			} else {
				c.Bad(key+":nested-match-all", p.Pos(al.Pos()), "a match-all subtree can be created below another match-all: two match-all segments precede the end of one route")
			}
		}
	})
}

func checkRootTypestate(c *Check, regs []*ssa.Function) {
	p := c.P
	n := 0
	for _, fn := range regs {
		if fn.Pkg != p.SSA["route"] {
			continue
		}
		allInstrs(fn, func(in ssa.Instruction) {
			call, ok := in.(*ssa.Call)
			if !ok || callName(&call.Call) != "(route.Tree).getSegment" {
				return
			}
			X := call.Call.Value
			// elements of a subtree list are never the root
			if _, isElem := elemIndex(X, vCall("(route.Tree).getSubtrees")); isElem {
				return
			}
			used := false
			for _, r := range referrers(call) {
				if _, dbg := r.(*ssa.DebugRef); !dbg {
					used = true
				}
			}
			if !used {
				return
			}
			n++
			key := p.FuncKey(fn) + ":segment-of-possible-root"
			hasParent := edgesWhere(fn, cCmp(token.NEQ, vCall("(route.Tree).getParent", vIs(X)), vNil), true)
			ok2, path := guardedBy(fn, hasParent, isInstr(in))
			if ok2 && len(hasParent) > 0 {
				c.OK(key, p.Pos(in.Pos()), "getSegment() used only where the same tree's getParent() != nil (root ⇔ no parent ⇔ no segment)", numInstrs(fn))
			} else {
				c.Bad(key, p.Pos(in.Pos()), "the segment of a tree that may be the root is used without establishing that it has a parent: a route whose only segment is optional (\"/?x\") dereferences nil", path)
			}
		})
	}
	if n == 0 {
		c.OK("route:no-root-segment-use", "internal/route", "no use of a possibly-root tree's segment on the registration path", 1)
	}
	// constructors: NewTree sets neither parent nor segment; all others set both from their parameters
	if nt := p.Fn("route", "newTree"); nt != nil {
		okAll := true
		allInstrs(nt, func(in ssa.Instruction) {
			al, ok := in.(*ssa.Alloc)
			if !ok || !strings.HasSuffix(namedName(derefT(al.Type())), "Tree") {
				return
			}
			hasP, hasS := false, false
			var walk func(v ssa.Value)
			walk = func(v ssa.Value) {
				for _, r := range referrers(v) {
					if fa, ok := r.(*ssa.FieldAddr); ok {
						name := fieldOf(fa).Name()
						for _, rr := range referrers(fa) {
							if st, ok := rr.(*ssa.Store); ok && st.Addr == ssa.Value(fa) {
								if name == "parent" && vParam(nt, 0)(st.Val) {
									hasP = true
								}
								if name == "segment" && vParam(nt, 1)(st.Val) {
									hasS = true
								}
								// the embedded base copied in from a local value that was given both (base := baseTree{…})
								if ld, isLd := st.Val.(*ssa.UnOp); isLd && ld.Op == token.MUL {
									if src, isAl := ld.X.(*ssa.Alloc); isAl && src != al && src.Parent() == nt {
										saveP, saveS := hasP, hasS
										hasP, hasS = false, false
										walk(src)
										hasP, hasS = hasP || saveP, hasS || saveS
									}
								}
							}
						}
						walk(fa)
					}
				}
			}
			walk(al)
			if !hasP || !hasS {
				okAll = false
			}
		})
		c.Cond(okAll, "route.newTree:sets-parent-and-segment", p.FuncPos(nt), "every non-root tree has both parent and segment set from the constructor's arguments", "a tree node is built without parent or segment")
	}
}

// errorLeaks: starting in block b (entered from pred) with err known non-nil, can a
// return with a nil error (or a plain return) be reached? The search is
// path-sensitive in one respect: values that carry the error on the current path
// (wrapped by a call that takes it and yields an error, merged by a φ along the
// edge taken, boxed into a variadic argument) are known non-nil, so a later
// nil-test of such a value follows its non-nil branch only.
func errorLeaks(b, pred *ssa.BasicBlock, err ssa.Value) bool {
	type state struct {
		b    *ssa.BasicBlock
		pred *ssa.BasicBlock
		key  string
	}
	seen := map[state]bool{}
	var dfs func(b, pred *ssa.BasicBlock, carriers map[ssa.Value]bool, depth int) bool
	keyOf := func(c map[ssa.Value]bool) string {
		var ns []string
		for v := range c {
			ns = append(ns, v.Name())
		}
		sort.Strings(ns)
		return strings.Join(ns, ",")
	}
	dfs = func(b, pred *ssa.BasicBlock, carriers map[ssa.Value]bool, depth int) bool {
		if depth > 200 {
			return true
		}
		st := state{b, pred, keyOf(carriers)}
		if seen[st] {
			return false
		}
		seen[st] = true
		cs := map[ssa.Value]bool{}
		for v := range carriers {
			cs[v] = true
		}
		pi := -1
		for i, p := range b.Preds {
			if p == pred {
				pi = i
			}
		}
		for _, in := range b.Instrs {
			switch x := in.(type) {
			case *ssa.Phi:
				if pi >= 0 && pi < len(x.Edges) && cs[x.Edges[pi]] {
					cs[x] = true
				} else {
					delete(cs, x)
				}
			case *ssa.MakeInterface:
				if cs[x.X] {
					cs[x] = true
				}
			case *ssa.ChangeInterface:
				if cs[x.X] {
					cs[x] = true
				}
			case *ssa.Store:
				if cs[x.Val] {
					if ia, ok := x.Addr.(*ssa.IndexAddr); ok {
						cs[ia.X] = true
					} else {
						cs[x.Addr] = true
					}
				}
			case *ssa.UnOp:
				if x.Op == token.MUL && cs[x.X] {
					cs[x] = true
				}
			case *ssa.Slice:
				if cs[x.X] {
					cs[x] = true
				}
			case *ssa.Extract:
				if cs[x.Tuple] {
					cs[x] = true
				}
			case ssa.CallInstruction:
				if cv, ok := x.(ssa.Value); ok {
					res := x.Common().Signature().Results()
					if res.Len() == 1 && isErrorT(res.At(0).Type()) {
						for _, a := range x.Common().Args {
							if cs[a] {
								cs[cv] = true
							}
						}
					}
				}
			case *ssa.Return:
				if len(x.Results) == 0 {
					return true
				}
				last := x.Results[len(x.Results)-1]
				if !isErrorT(last.Type()) {
					return true
				}
				return vNil(last)
			case *ssa.Panic:
				return false
			case *ssa.If:
				inner, pos := unNot(x.Cond)
				if bo, ok := inner.(*ssa.BinOp); ok && (bo.Op == token.NEQ || bo.Op == token.EQL) {
					var c ssa.Value
					if vNil(bo.Y) {
						c = bo.X
					} else if vNil(bo.X) {
						c = bo.Y
					}
					if c != nil && cs[c] {
						// c is non-nil: (c != nil) is true
						t := bo.Op == token.NEQ
						if !pos {
							t = !t
						}
						idx := 1
						if t {
							idx = 0
						}
						return dfs(b.Succs[idx], b, cs, depth+1)
					}
				}
			}
		}
		for _, s := range b.Succs {
			if dfs(s, b, cs, depth+1) {
				return true
			}
		}
		return false
	}
	return dfs(b, pred, map[ssa.Value]bool{err: true}, 0)
}

// iterationSkips reports whether an iteration of the innermost loop around must can complete (reach a
// back edge of that loop) without executing must. The loop is found from the CFG (a header that
// dominates must's block and has a predecessor it dominates), so a condition that encloses must together
// with the computation of its operands is seen. Without a loop around must, the older notion is used:
// from `from`, control can reach a dominating block or a return without executing must.
func iterationSkips(fn *ssa.Function, from, must ssa.Instruction) (bool, string) {
	mb := must.Block()
	var header *ssa.BasicBlock
	for _, h := range fn.Blocks {
		if !h.Dominates(mb) {
			continue
		}
		hasBack := false
		for _, p := range h.Preds {
			if h.Dominates(p) {
				hasBack = true
			}
		}
		if !hasBack {
			continue
		}
		if header == nil || header.Dominates(h) {
			header = h // innermost: the deepest such header
		}
	}
	if header != nil {
		latch := func(in ssa.Instruction) bool {
			b := in.Block()
			if len(b.Instrs) == 0 || b.Instrs[len(b.Instrs)-1] != in {
				return false
			}
			for _, sc := range b.Succs {
				if sc == header && header.Dominates(b) {
					return true
				}
			}
			return false
		}
		if in, path := (Query{Fn: fn, Avoid: isInstr(must)}).Reach(header, 0, latch); in != nil {
			return true, blockPath(path)
		}
		return false, ""
	}
	fb := from.Block()
	target := func(in ssa.Instruction) bool {
		if _, isRet := in.(*ssa.Return); isRet {
			return true
		}
		b := in.Block()
		return b != fb && b.Dominates(fb) && len(b.Instrs) > 0 && b.Instrs[0] == in
	}
	if in, path := (Query{Fn: fn, Avoid: isInstr(must)}).After(from, target); in != nil {
		return true, blockPath(path)
	}
	return false, ""
}

// setDerivedFromTable: the package-level map g is initialised (once, in the package initialiser) by a
// function literal that inserts exactly the elements of the package-level slice `table` as keys, and no
// other function stores to g, updates it or deletes from it. Then `_, ok := g[x]` ⇔ x ∈ table.
func (p *Prog) setDerivedFromTable(g *ssa.Global, table string) bool {
	if _, isMap := derefT(g.Type()).Underlying().(*types.Map); !isMap {
		return false
	}
	pkg := g.Pkg
	initFn := pkg.Func("init")
	if initFn == nil {
		return false
	}
	var builder *ssa.Function
	nStore := 0
	okAll := true
	for _, fn := range p.Funcs() {
		if fn.Pkg != pkg {
			continue
		}
		allInstrs(fn, func(in ssa.Instruction) {
			switch x := in.(type) {
			case *ssa.Store:
				if x.Addr == ssa.Value(g) {
					nStore++
					if fn != initFn {
						okAll = false
						return
					}
					cl := asCall(x.Val)
					if cl == nil {
						okAll = false
						return
					}
					switch f := cl.Call.Value.(type) {
					case *ssa.Function:
						builder = f
					case *ssa.MakeClosure:
						builder, _ = f.Fn.(*ssa.Function)
					default:
						okAll = false
					}
				}
			case *ssa.MapUpdate:
				if ld, ok := strip(x.Map).(*ssa.UnOp); ok && ld.X == ssa.Value(g) {
					okAll = false
				}
			case ssa.CallInstruction:
				if callName(x.Common()) == "builtin.delete" || callName(x.Common()) == "builtin.clear" {
					if ld, ok := strip(x.Common().Args[0]).(*ssa.UnOp); ok && ld.X == ssa.Value(g) {
						okAll = false
					}
				}
			case *ssa.UnOp:
				// the map value handed elsewhere (another function could write through it)
				if x.Op == token.MUL && x.X == ssa.Value(g) && fn != initFn {
					for _, r := range referrers(x) {
						switch r.(type) {
						case *ssa.Lookup, *ssa.Range, *ssa.DebugRef:
						default:
							if ci, isC := r.(ssa.CallInstruction); isC && callName(ci.Common()) == "builtin.len" {
								continue
							}
							okAll = false
						}
					}
				}
			}
		})
	}
	if !okAll || nStore != 1 || builder == nil {
		return false
	}
	// the builder: one MakeMap, returned; every MapUpdate on it has as key the element of a range over the table
	var mm *ssa.MakeMap
	nUpd := 0
	good := true
	isTableLoad := func(v ssa.Value) bool {
		ld, ok := strip(v).(*ssa.UnOp)
		if !ok {
			return false
		}
		tg, ok := ld.X.(*ssa.Global)
		return ok && tg.Name() == table && tg.Pkg == pkg
	}
	allInstrs(builder, func(in ssa.Instruction) {
		switch x := in.(type) {
		case *ssa.MakeMap:
			if mm != nil {
				good = false
			}
			mm = x
		case *ssa.MapUpdate:
			nUpd++
			if mm == nil || strip(x.Map) != ssa.Value(mm) {
				good = false
				return
			}
			// key = table[i] with i an ascending index over the table (range over a slice)
			if i, ok := elemIndex(x.Key, isTableLoad); !ok || !ascendingIndex(i) {
				good = false
				return
			}
			if from, isI := strip(x.Key).(ssa.Instruction); isI {
				if skip, _ := iterationSkips(builder, from, x); skip {
					good = false
				}
			}
		case *ssa.Return:
			if len(x.Results) != 1 || mm == nil || strip(x.Results[0]) != ssa.Value(mm) {
				good = false
			}
		case ssa.CallInstruction:
			if n := callName(x.Common()); n != "builtin.len" {
				good = false
			}
		}
	})
	return good && mm != nil && nUpd == 1
}
