package main

// C16 Static serves only files inside its directory and prefix, else stays silent.

import (
	"go/token"
	"strings"

	"golang.org/x/tools/go/ssa"
)

func init() { register("C16", checkC16) }

func checkC16(c *Check) {
	p := c.P
	c.Explain = "guard-cut reachability of FileSystem.Open and of every response effect in the Static handler (method gate, prefix test at a segment boundary, success of Open/Stat, regular-file test), option normalisation, a file-access who-may-call ban with positive control, and provenance of what is handed to ServeContent"
	c.NotDec = []string{"http.Dir's containment of '..' and http.ServeContent's behaviour (standard library, trusted)", "symlinks inside the directory", "custom http.FileSystem implementations supplied by the user"}
	c.Trusted = []string{"net/http.Dir.Open confines names to the directory", "net/http.ServeContent"}

	st := p.Fn("flamego", "Static")
	if st == nil {
		c.Rule("R1", "E1", "anchors", 1)
		c.Anchor("flamego.Static")
		return
	}
	var H *ssa.Function
	var opens []ssa.CallInstruction
	for _, l := range withLits(st)[1:] {
		os := callsNamed(l, "(net/http.FileSystem).Open")
		if len(os) > 0 && l.Parent() == st {
			H, opens = l, os
		}
	}
	if H == nil {
		c.Rule("R1", "E1", "anchors", 1)
		c.Bad(p.FuncKey(st)+":handler", p.FuncPos(st), "no handler literal calling http.FileSystem.Open found")
		return
	}
	key := p.FuncKey(H)
	isEffect := func(in ssa.Instruction) (string, bool) {
		ci, ok := in.(ssa.CallInstruction)
		if !ok {
			return "", false
		}
		n := callName(ci.Common())
		switch n {
		case "(net/http.Header).Set", "(net/http.Header).Add", "(net/http.Header).Del", "net/http.Redirect", "net/http.ServeContent", "net/http.Error", "net/http.ServeFile", "net/http.NotFound", "io.Copy", "io.WriteString":
			return n, true
		}
		if ci.Common().IsInvoke() {
			switch ci.Common().Method.Name() {
			case "WriteHeader", "Write", "Flush":
				return n, true
			case "Before":
				// a before-hook is a deferred write to whatever response is eventually sent
				if namedName(ci.Common().Value.Type()) == "ResponseWriter" {
					return n, true
				}
			}
		}
		if strings.HasPrefix(n, "fmt.Fprint") {
			return n, true
		}
		return "", false
	}
	var effects []ssa.Instruction
	allInstrs(H, func(in ssa.Instruction) {
		if _, ok := isEffect(in); ok {
			effects = append(effects, in)
		}
	})
	isOpen := func(in ssa.Instruction) bool {
		for _, o := range opens {
			if in == ssa.Instruction(o) {
				return true
			}
		}
		return false
	}
	openOrEffect := func(in ssa.Instruction) bool {
		if isOpen(in) {
			return true
		}
		_, ok := isEffect(in)
		return ok
	}

	// ---- R1 method gate
	c.Rule("R1", "E1 guard-cut", "Open and every response effect are reachable only for GET or HEAD", 1)
	method := vFieldNamed("Method")
	gate := union(edgesWhere(H, cCmp(token.EQL, method, vConstStr("GET")), true), edgesWhere(H, cCmp(token.EQL, method, vConstStr("HEAD")), true))
	ok, path := guardedBy(H, gate, openOrEffect)
	if ok && len(gate) >= 2 {
		c.OK(key+":method-gate", p.FuncPos(H), "file access and response effects only on the Method == GET / == HEAD edges", numInstrs(H))
	} else {
		c.Bad(key+":method-gate", p.FuncPos(H), "the static middleware can touch the file system or the response for methods other than GET and HEAD", path)
	}

	// ---- R2 prefix at a segment boundary
	c.Rule("R2", "E1 + E2", "with a prefix configured, Open is reachable only when the path has the prefix and the remainder is empty or starts with '/'; the prefix is normalised to \"/\" + Trim(prefix, \"/\")", 3)
	prefix := vFieldNamed("Prefix")
	reqPath := vFieldNamed("Path")
	hasPrefix := edgesWhere(H, cHasPrefix(reqPath, prefix), true)
	noPrefix := edgesWhere(H, cEmptyStr(prefix), true)
	var rest *ssa.Slice
	allInstrs(H, func(in ssa.Instruction) {
		if sl, ok := in.(*ssa.Slice); ok && reqPath(sl.X) && sl.High == nil && sl.Low != nil && vLen(prefix)(sl.Low) {
			rest = sl
		}
	})
	if rest == nil {
		c.Bad(key+":prefix-strip", p.FuncPos(H), "the prefix is not stripped as path[len(prefix):]")
	} else {
		g, _ := guardedBy(H, hasPrefix, isInstr(rest))
		c.Cond(g && len(hasPrefix) > 0, key+":prefix-strip", p.Pos(rest.Pos()), "path[len(prefix):] only after HasPrefix(path, prefix)", "the path is sliced at len(prefix) without HasPrefix(path, prefix) (slice out of range, or wrong prefix accepted)")
		restV := vIs(rest)
		first := func(v ssa.Value) bool {
			switch x := strip(v).(type) {
			case *ssa.Lookup:
				return restV(x.X) && vConstInt(0)(x.Index)
			case *ssa.Index:
				return restV(x.X) && vConstInt(0)(x.Index)
			}
			return false
		}
		boundary := union(
			noPrefix,
			edgesWhere(H, cCmp(token.EQL, restV, vConstStr("")), true),
			edgesWhere(H, cCmp(token.EQL, vLen(restV), vConstInt(0)), true),
			edgesWhere(H, cCmp(token.GTR, vLen(restV), vConstInt(0)), false),
			edgesWhere(H, cCmp(token.LSS, vLen(restV), vConstInt(1)), true),
			edgesWhere(H, cCmp(token.EQL, first, vConstInt('/')), true),
			edgesWhere(H, cBool(vCall("strings.HasPrefix", restV, vConstStr("/"))), true),
		)
		ok, path := guardedBy(H, boundary, isOpen)
		if ok && len(boundary) >= 3 {
			c.OK(key+":segment-boundary", p.Pos(rest.Pos()), "Open only when no prefix is set, or the remainder is empty, or it starts with '/'", numInstrs(H))
		} else {
			c.Bad(key+":segment-boundary", p.Pos(rest.Pos()), "a path that merely shares the prefix's characters (\"/staticfoo\" for prefix \"/static\") reaches the file system", path)
		}
	}
	// normalisation
	normOK := false
	for _, l := range withLits(st) {
		allInstrs(l, func(in ssa.Instruction) {
			s, ok := in.(*ssa.Store)
			if !ok {
				return
			}
			if f := fieldOf(strip(s.Addr)); f != nil && f.Name() == "Prefix" {
				if vBin(token.ADD, vConstStr("/"), vCall("strings.Trim", prefix, vConstStr("/")))(s.Val) {
					g := edgesWhere(l, cEmptyStr(prefix), false)
					if ok2, _ := guardedBy(l, g, isInstr(in)); ok2 && len(g) > 0 {
						normOK = true
					}
				}
			}
		})
	}
	c.Cond(normOK, p.FuncKey(st)+":prefix-normalised", p.FuncPos(st), "Prefix = \"/\" + strings.Trim(Prefix, \"/\") when non-empty", "the configured prefix is not normalised to a leading slash without trailing slash")

	// ---- R3 containment delegated
	c.Rule("R3", "E5 who-may-call ban", "the only file access is Open on the configured http.FileSystem (default http.Dir(Directory)) and methods of the returned http.File; os / ioutil / filepath / http.ServeFile are not used", 3)
	fns := withLits(st)
	if g := p.Fn("flamego", "generateETag"); g != nil {
		fns = append(fns, g)
	}
	ctlName := firstCallName(fns)
	ctl := bannedCalls(p, fns, []string{ctlName})
	c.Cond(len(ctl) > 0 && ctlName != "", "E5:ban-control", "checker", "positive control: the ban matcher finds the existing call "+ctlName+" in the Static functions", "positive control failed")
	if len(ctl) > 0 {
		c.Controls = append(c.Controls, "ban-matcher:"+ctlName)
	}
	hits := bannedCalls(p, fns, []string{"os.", "io/ioutil.", "path/filepath.", "net/http.ServeFile", "(net/http.Dir).Open", "io/fs.", "embed."})
	for _, h := range hits {
		c.Bad(p.FuncKey(h.Parent())+":direct-file-access", p.Pos(h.Pos()), "the static middleware calls "+callName(h.Common())+": containment inside the configured directory is no longer delegated to http.FileSystem")
	}
	if len(hits) == 0 {
		c.OK(p.FuncKey(st)+":no-direct-file-access", p.FuncPos(st), "no os/ioutil/filepath/ServeFile call in the static middleware", len(fns))
	}
	okRecv := true
	for _, o := range opens {
		if !vFieldNamed("FileSystem")(o.Common().Value) {
			okRecv = false
		}
	}
	c.Cond(okRecv, key+":open-receiver", p.FuncPos(H), "every Open is on the configured FileSystem", "Open is called on something other than the configured FileSystem")
	defFS := false
	for _, l := range withLits(st) {
		allInstrs(l, func(in ssa.Instruction) {
			s, ok := in.(*ssa.Store)
			if !ok {
				return
			}
			if f := fieldOf(strip(s.Addr)); f != nil && f.Name() == "FileSystem" {
				if mi, ok := s.Val.(*ssa.MakeInterface); ok && shortName(mi.X.Type().String()) == "net/http.Dir" && derivesFrom(mi.X, vFieldNamed("Directory"), nil) {
					defFS = true
				}
			}
		})
	}
	c.Cond(defFS, p.FuncKey(st)+":default-filesystem", p.FuncPos(st), "FileSystem defaults to http.Dir(Directory)", "the default file system is not http.Dir(Directory)")

	// ---- R4 silent unless served
	c.Rule("R4", "E1 guard-cut", "response effects are reachable only after the first Open and Stat succeeded; effects other than the directory redirect only for a regular file (directly or as index after its own Open/Stat succeeded)", 3)
	if len(opens) < 1 {
		return
	}
	// order opens by position
	first := opens[0]
	for _, o := range opens {
		if o.Pos() < first.Pos() {
			first = o
		}
	}
	errOf := func(call ssa.Value) VM { return vExtract(1, vIs(call)) }
	open1OK := edgesWhere(H, cCmp(token.EQL, errOf(first.(*ssa.Call)), vNil), true)
	var stats []*ssa.Call
	allInstrs(H, func(in ssa.Instruction) {
		if cl, ok := in.(*ssa.Call); ok && cl.Call.IsInvoke() && cl.Call.Method.Name() == "Stat" {
			stats = append(stats, cl)
		}
	})
	if len(stats) == 0 {
		c.Bad(key+":stat", p.FuncPos(H), "the opened file is never Stat()ed: directories are served as files")
		return
	}
	stat1 := stats[0]
	for _, s := range stats {
		if s.Pos() < stat1.Pos() {
			stat1 = s
		}
	}
	stat1OK := edgesWhere(H, cCmp(token.EQL, errOf(stat1), vNil), true)
	isEff := func(in ssa.Instruction) bool { _, ok := isEffect(in); return ok }
	okA, pathA := guardedBy(H, open1OK, isEff)
	okB, pathB := guardedBy(H, stat1OK, isEff)
	if okA && okB && len(open1OK) > 0 && len(stat1OK) > 0 {
		c.OK(key+":silent-unless-found", p.FuncPos(H), "every response effect requires the first Open and Stat to have succeeded", len(effects))
	} else {
		pp := pathA
		if okA {
			pp = pathB
		}
		c.Bad(key+":silent-unless-found", p.FuncPos(H), "the response (headers/status/body) can be touched although the file could not be opened: the rest of the chain sees a modified response", pp)
	}
	notDir := EdgeSet{}
	for _, s := range stats {
		notDir.addAll(edgesWhere(H, cBool(vCall("(io/fs.FileInfo).IsDir", vExtract(0, vIs(s)))), false))
	}
	nonRedirect := func(in ssa.Instruction) bool {
		n, ok := isEffect(in)
		return ok && n != "net/http.Redirect"
	}
	okC, pathC := guardedBy(H, notDir, nonRedirect)
	if okC && len(notDir) > 0 {
		c.OK(key+":regular-file-only", p.FuncPos(H), "headers/status/content only on a !IsDir() edge (the file itself or the index)", len(effects))
	} else {
		c.Bad(key+":regular-file-only", p.FuncPos(H), "content or headers can be sent for a directory without a regular index file", pathC)
	}
	// the index's IsDir test is itself behind its own Open/Stat success
	for _, s := range stats {
		if s == stat1 {
			continue
		}
		var open2 *ssa.Call
		for _, o := range opens {
			if o != first {
				open2 = o.(*ssa.Call)
			}
		}
		if open2 == nil {
			continue
		}
		o2 := edgesWhere(H, cCmp(token.EQL, errOf(open2), vNil), true)
		s2 := edgesWhere(H, cCmp(token.EQL, errOf(s), vNil), true)
		var isDir2 ssa.Instruction
		allInstrs(H, func(in ssa.Instruction) {
			if v, ok := in.(ssa.Value); ok && vCall("(io/fs.FileInfo).IsDir", vExtract(0, vIs(s)))(v) {
				isDir2 = in
			}
		})
		if isDir2 != nil {
			g1, _ := guardedBy(H, o2, isInstr(isDir2))
			g2, _ := guardedBy(H, s2, isInstr(isDir2))
			c.Cond(g1 && g2 && len(o2) > 0 && len(s2) > 0, key+":index-checked", p.Pos(isDir2.Pos()), "the index is used only after its own Open and Stat succeeded", "the index file is used although its Open/Stat failed")
		}
	}
	// redirect only for directories without trailing slash
	for _, e := range effects {
		if n, _ := isEffect(e); n == "net/http.Redirect" {
			isDir := edgesWhere(H, cBool(vCall("(io/fs.FileInfo).IsDir", vExtract(0, vIs(stat1)))), true)
			g, _ := guardedBy(H, isDir, isInstr(e))
			c.Cond(g && len(isDir) > 0, key+":redirect-directories-only", p.Pos(e.Pos()), "redirect only for directories", "a redirect can be sent for something that is not a directory")
		}
	}

	// ---- R6 no memory between requests
	c.Rule("R6", "E5 effects (shared engine of C05)", "the Static handler keeps no state between requests: what it does is a function of the request and the file system (no cache of earlier resolutions)", 1)
	{
		var lits []*ssa.Function
		for _, l := range withLits(st)[1:] {
			lits = append(lits, l)
		}
		fs := runEffects(lits, p.effectConfig())
		for _, f := range fs {
			c.Bad(p.FuncKey(f.Fn)+":"+f.Kind, p.Pos(f.Instr.Pos()), f.What+": the answer to a request depends on earlier requests (e.g. a directory is served without the redirect once its index was resolved)")
		}
		if len(fs) == 0 {
			c.OK(p.FuncKey(st)+":stateless", p.FuncPos(st), "no store, map write or container mutation on state captured at construction", len(lits))
		}
	}

	// ---- R7 where a directory is redirected to
	c.Rule("R7", "E4 taint", "the target of the directory redirect is the CLEANED request path plus \"/\": the raw path reaches http.Redirect only through path.Clean (a raw \"//host/..\" is a scheme-relative URL that http.Redirect does not clean: an open redirect instead of the directory's own slash-terminated form)", 1)
	{
		n := 0
		isRawPath := func(v ssa.Value) bool {
			_, ns, ok := fieldPath(v)
			return ok && len(ns) >= 2 && ns[len(ns)-1] == "Path" && ns[len(ns)-2] == "URL"
		}
		stop := map[string]bool{"path.Clean": true}
		for _, fn := range withLits(st) {
			for _, ci := range callsNamed(fn, "net/http.Redirect") {
				n++
				a := ci.Common().Args
				if len(a) < 3 {
					continue
				}
				key := p.FuncKey(fn) + ":redirect-target"
				switch {
				case derivesFrom(a[2], isRawPath, stop):
					c.Bad(key, p.Pos(ci.Pos()), "the raw request path reaches the redirect target without path.Clean: \"//example.com/..\" opens the root directory but is redirected to the foreign host example.com")
				case !derivesFrom(a[2], vCall("path.Clean"), nil):
					c.Bad(key, p.Pos(ci.Pos()), "the redirect target is not derived from the cleaned request path")
				default:
					c.OK(key, p.Pos(ci.Pos()), "Location = path.Clean(URL.Path) + \"/\"", 1)
				}
			}
		}
		if n == 0 {
			c.Anchor("the directory redirect (http.Redirect) of Static")
		}
	}

	// ---- R5 what is sent
	c.Rule("R5", "E3 provenance", "the reader handed to ServeContent is a file returned by the configured FileSystem.Open (the file itself or the index)", 1)
	for _, sc := range callsNamed(H, "net/http.ServeContent") {
		rd := sc.Common().Args[4]
		cell := cellOf(rd)
		okR := false
		if cell != nil {
			okR = true
			for _, s := range cellStores(cell, 0) {
				v := strip(s.Val)
				if vExtract(0, vCall("(net/http.FileSystem).Open"))(v) {
					continue
				}
				if c2 := cellOf(s.Val); c2 != nil {
					all := true
					for _, s2 := range cellStores(c2, 0) {
						if !vExtract(0, vCall("(net/http.FileSystem).Open"))(s2.Val) {
							all = false
						}
					}
					if all {
						continue
					}
				}
				okR = false
			}
		} else if vExtract(0, vCall("(net/http.FileSystem).Open"))(rd) {
			okR = true
		}
		c.Cond(okR, key+":served-reader", p.Pos(sc.Pos()), "ServeContent reads from a file opened through the configured FileSystem", "ServeContent is given a reader that does not come from FileSystem.Open: "+vstr(rd))
		c.Cond(vParamOrCall(sc.Common().Args[0]), key+":served-writer", p.Pos(sc.Pos()), "content goes to the context's ResponseWriter", "content is written to something other than the context's ResponseWriter")
	}
}

func vParamOrCall(v ssa.Value) bool {
	return vCall("(flamego.Context).ResponseWriter")(v)
}

// firstCallName returns the name of some statically named call in fns (used
// as a positive control for the ban matcher).
func firstCallName(fns []*ssa.Function) string {
	name := ""
	for _, fn := range fns {
		allInstrs(fn, func(in ssa.Instruction) {
			if ci, ok := in.(ssa.CallInstruction); ok && name == "" {
				if n := callName(ci.Common()); n != "dynamic" && n != "literal" && !strings.HasPrefix(n, "builtin.") {
					name = n
				}
			}
		})
	}
	return name
}
