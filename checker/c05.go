package main

// C05 Concurrent requests are isolated and free of data races — an
// effect/ownership analysis over the request-phase call-graph closure, not a
// race proof.

import (
	"fmt"
	"go/types"
	"sort"
	"strings"

	"golang.org/x/tools/go/ssa"
)

func init() { register("C05", checkC05) }

var perRequestTypes = map[string]bool{"context": true, "responseWriter": true, "render": true, "Request": true, "RequestBody": true}
var dualTypes = map[string]bool{"injector": true}

func (p *Prog) classifyType(n *types.Named) string {
	if n.Obj().Pkg() == nil {
		return ""
	}
	if _, ok := pkgShort[n.Obj().Pkg().Path()]; !ok {
		return ""
	}
	name := n.Obj().Name()
	switch {
	case perRequestTypes[name]:
		return "request"
	case dualTypes[name]:
		return "dual"
	}
	if _, isStruct := n.Underlying().(*types.Struct); isStruct {
		// an unexported struct that only ever lives as a value field inside per-request types
		// (fields of context grouped into one struct) is part of those objects
		if !n.Obj().Exported() {
			owners, allReq := 0, true
			for _, pk := range p.Pkgs {
				sc := pk.Types.Scope()
				for _, nm := range sc.Names() {
					tn, ok := sc.Lookup(nm).(*types.TypeName)
					if !ok {
						continue
					}
					st, ok := tn.Type().Underlying().(*types.Struct)
					if !ok {
						continue
					}
					for i := 0; i < st.NumFields(); i++ {
						ft := st.Field(i).Type()
						if types.Identical(ft, n) {
							owners++
							if !perRequestTypes[tn.Name()] {
								allReq = false
							}
						} else if pt, isP := ft.(*types.Pointer); isP && types.Identical(pt.Elem(), n) {
							owners++
							allReq = false // shared through a pointer: anything may hold it
						}
					}
				}
			}
			if owners > 0 && allReq {
				return "request"
			}
		}
		return "shared"
	}
	return ""
}

func (p *Prog) effectConfig() effectConfig {
	req := p.REQ()
	return effectConfig{
		classify: p.classifyType,
		resolve:  p.moduleCallees,
		setupCaptured: func(lit *ssa.Function) bool {
			// free variables are long-lived when the enclosing function is not itself part of the request phase
			return lit.Parent() != nil && !req[lit.Parent()]
		},
		isRequestValueType: func(t types.Type) bool {
			for {
				if pt, ok := t.(*types.Pointer); ok {
					t = pt.Elem()
					continue
				}
				break
			}
			n, ok := t.(*types.Named)
			if !ok {
				return false
			}
			if n.Obj().Pkg() != nil && n.Obj().Pkg().Path() == modPath {
				switch n.Obj().Name() {
				case "context", "responseWriter", "render", "Request", "RequestBody", "Context", "internalContext", "ResponseWriter", "Params":
					return true
				}
			}
			return false
		},
	}
}

func checkC05(c *Check) {
	p := c.P
	c.Explain = "effect/ownership analysis over the request-phase function set (call-graph closure from ServeHTTP, per-request types' methods, fast invokers, middleware literals): stores, map writes, deletes and appends are attributed to the owning named type (type-based ownership, no pointer analysis) and classified shared / per-request; plus freshness of per-request objects and atomic-only status access. An ownership argument, not a race proof."
	c.NotDec = []string{
		"races inside dependencies, the standard library and user handlers",
		"whether set-up has finished before serving starts (the property's premise)",
		"equality of responses under interleaving (follows from disjoint state only by the usual serialisability argument)",
		"aliasing that type-based ownership cannot see (a shared slice reached through a per-request field)",
	}
	c.Assume = []string{"type-based ownership approximates aliasing: a location belongs to the named struct type whose field it is"}
	reqList := p.REQList()
	c.Extra["req_functions"] = len(reqList)
	var names []string
	for _, f := range reqList {
		names = append(names, p.FuncKey(f))
	}
	sort.Strings(names)
	c.Extra["req_function_keys"] = names
	if len(reqList) < 60 {
		c.Rule("R1", "E5", "request-phase set", 1)
		c.Bad("REQ:size", "?", fmt.Sprintf("the request-phase function set has only %d functions (expected ≥ 60): call-graph anchors drifted", len(reqList)))
		return
	}
	fired, err := effectControls()
	c.Controls = append(c.Controls, fired...)
	c.Rule("R0", "E5 positive controls", "the effect engine fires on an in-memory fixture with one shared write of each kind and stays silent on local/per-request writes", 1)
	if err != nil {
		c.Bad("E5:controls", "checker/e5.go", "positive control failed: "+err.Error())
		return
	}
	c.OK("E5:controls", "checker/e5.go", fmt.Sprintf("%d controls behaved as expected", len(fired)), len(fired))

	// ---- R1/R2/R5 effects over REQ
	c.Rule("R1", "E5 effects", "no function reachable while serving writes shared framework state (fields of shared types, globals, variables captured at construction time) except inside a sync.Once.Do literal on the same object or through sync/atomic", 1)
	c.Rule("R2", "E5 append hazard", "no append onto a slice read from shared state while serving", 1)
	c.Rule("R5", "E5 escape", "no per-request object is stored into a shared object", 1)
	findings := runEffects(reqList, p.effectConfig())
	counts := map[string]int{}
	for _, f := range findings {
		rule := "C05.R1"
		switch f.Kind {
		case "append-hazard":
			rule = "C05.R2"
		case "escape":
			rule = "C05.R5"
		}
		c.curRule = rule
		counts[rule]++
		c.Bad(p.FuncKey(f.Fn)+":"+f.Kind, p.Pos(f.Instr.Pos()), f.What+" in the request phase: concurrent requests race on it / observe each other")
	}
	nStores := 0
	for _, fn := range reqList {
		allInstrs(fn, func(in ssa.Instruction) {
			switch x := in.(type) {
			case *ssa.Store, *ssa.MapUpdate:
				nStores++
			case ssa.CallInstruction:
				if n := callName(x.Common()); n == "builtin.append" || n == "builtin.delete" {
					nStores++
				}
			}
		})
	}
	c.Extra["req_write_sites_classified"] = nStores
	for _, r := range []string{"C05.R1", "C05.R2", "C05.R5"} {
		if counts[r] == 0 {
			c.curRule = r
			c.OK("REQ:"+strings.TrimPrefix(r, "C05."), "request phase", fmt.Sprintf("%d write sites in %d request-phase functions classified; none targets shared state", nStores, len(reqList)), nStores)
		}
	}
	// the render a request gets is allocated while serving it (C17.R3): a render built once at set-up and bound
	// into the middleware (a method value on a value declared in Renderer) is written by every request
	c.curRule = "C05.R4"
	c.Share("C17", []string{"R3"}, 1)
	// the per-request chain is a fresh slice (C03.R7): appending the route's handlers onto the application's
	// own list — or onto a grown copy that may alias it — makes overlapping requests write one backing array
	c.curRule = "C05.R4"
	c.Share("C03", []string{"R7"}, 3)
	// the two Once-guarded caches exist and are Once-guarded
	c.curRule = "C05.R1"
	for _, tm := range [][2]string{{"Segment", "String"}, {"Route", "String"}} {
		m := p.Meth("route", tm[0], tm[1])
		if m == nil {
			c.Anchor("route." + tm[0] + ".String")
			continue
		}
		key := p.FuncKey(m) + ":lazy-cache"
		ok := false
		for _, lit := range m.AnonFuncs {
			if _, isOnce := onceLiteral(lit); isOnce {
				ok = true
			}
		}
		// the cached field is written nowhere else
		fld := p.Field("route", tm[0], "str")
		if fld != nil {
			for _, u := range p.FieldUses(fld) {
				if u.Kind == "store" && !u.Fresh {
					if _, isOnce := onceLiteral(u.Fn); !isOnce {
						ok = false
					}
				}
			}
		}
		c.Cond(ok, key, p.FuncPos(m), "the lazily rendered string is written only inside sync.Once.Do on the object's own Once", "the lazily cached string of "+tm[0]+" is written outside sync.Once: concurrent first uses race")
	}

	// ---- R3 injector mutators
	c.Rule("R3", "E5 who-may-call", "while serving, Map/MapTo/Set/SetParent are applied only to the request scope (a per-request receiver or the scope of a context created in the same function)", 4)
	for _, fn := range reqList {
		if r := fn.Signature.Recv(); r != nil && namedName(derefT(r.Type())) == "injector" {
			continue
		}
		allInstrs(fn, func(in ssa.Instruction) {
			ci, ok := in.(ssa.CallInstruction)
			if !ok {
				return
			}
			var name string
			var recv ssa.Value
			if ci.Common().IsInvoke() {
				name, recv = ci.Common().Method.Name(), ci.Common().Value
			} else if f := ci.Common().StaticCallee(); f != nil && f.Signature.Recv() != nil && namedName(derefT(f.Signature.Recv().Type())) == "injector" {
				name, recv = f.Name(), ci.Common().Args[0]
			}
			switch name {
			case "Map", "MapTo", "Set", "SetParent":
			default:
				return
			}
			if !strings.Contains(recv.Type().String(), "inject") && !strings.Contains(recv.Type().String(), modPath) {
				return
			}
			key := p.FuncKey(fn) + ":" + name
			okRecv := false
			why := vstr(recv) + " of type " + shortName(recv.Type().String())
			switch tn := namedName(derefT(recv.Type())); tn {
			case "context", "Context", "internalContext":
				okRecv = true
			case "Injector", "TypeMapper":
				// the Injector field of a per-request object
				if r, ns, ok := fieldPath(recv); ok && len(ns) >= 1 && ns[len(ns)-1] == "Injector" {
					if n, isN := derefT(r.Type()).(*types.Named); isN && p.classifyType(n) == "request" {
						okRecv = true
					}
				}
			}
			c.Cond(okRecv, key, p.Pos(in.Pos()), "mutates the request scope", "a request-time "+name+" targets "+why+": a value mapped during one request becomes visible to other requests (and races)")
		})
	}

	// the injector's read path (Value / Invoke / Apply) reaches the shared application scope through the
	// parent link at request time, so it must not write at all
	c.Share("C04", []string{"R7"}, 3)

	// ---- R4 freshness
	c.Rule("R4", "E3 freshness", "contexts, response writers, injectors, params maps and the per-request handler slice are allocations of the current activation; no sync.Pool in the request phase", 5)
	for _, spec := range []struct{ pkg, recv, name string }{
		{"flamego", "", "newContext"}, {"flamego", "", "NewResponseWriter"}, {"inject", "", "New"},
	} {
		fn := p.Fn(spec.pkg, spec.name)
		if fn == nil {
			c.Anchor(spec.pkg + "." + spec.name)
			continue
		}
		ok, n := true, 0
		allInstrs(fn, func(in ssa.Instruction) {
			if r, isR := in.(*ssa.Return); isR {
				n++
				if !isFresh(r.Results[0]) {
					ok = false
				}
			}
		})
		c.Cond(ok && n > 0, p.FuncKey(fn)+":fresh-result", p.FuncPos(fn), "returns an allocation of this activation on every path", spec.name+" can return an object that is not freshly allocated (pooled / cached / shared between requests)")
	}
	if m := p.Meth("route", "baseTree", "Match"); m != nil {
		ok, n := true, 0
		allInstrs(m, func(in ssa.Instruction) {
			if r, isR := in.(*ssa.Return); isR && !vNil(r.Results[1]) {
				n++
				if _, isMM := strip(r.Results[1]).(*ssa.MakeMap); !isMM {
					ok = false
				}
			}
		})
		c.Cond(ok && n > 0, p.FuncKey(m)+":fresh-params", p.FuncPos(m), "the returned params map is made in this call", "Match returns a params map that is not made per call: requests share bind values")
	} else {
		c.Anchor("baseTree.Match")
	}
	if sh := p.Meth("flamego", "router", "ServeHTTP"); sh != nil {
		ok := true
		allInstrs(sh, func(in ssa.Instruction) {
			ci, isC := in.(ssa.CallInstruction)
			if !isC {
				return
			}
			// whatever is called with a route.Params argument while serving (the leaf's handler, a handler kept
			// in a table, the context creator): the map is this request's own
			for _, a := range ci.Common().Args {
				if namedName(a.Type()) != "Params" {
					continue
				}
				// every value the argument may stand for (results of a lookup step merged into one variable)
				phiLeaves(a, func(l ssa.Value) {
					pm := strip(l)
					_, isMM := pm.(*ssa.MakeMap)
					isMatch := vExtract(1, vCall("(route.Tree).Match"))(pm)
					if !isMM && !isMatch && !vNil(pm) {
						ok = false
					}
				})
			}
		})
		c.Cond(ok, p.FuncKey(sh)+":fresh-params", p.FuncPos(sh), "params handed to a chain are a fresh map or Match's result", "a chain receives a params map that is neither fresh nor the result of Match")
	}
	pool := 0
	for _, fn := range reqList {
		allInstrs(fn, func(in ssa.Instruction) {
			if ci, ok := in.(ssa.CallInstruction); ok && strings.HasPrefix(callName(ci.Common()), "(*sync.Pool).") {
				pool++
				c.Bad(p.FuncKey(fn)+":pool", p.Pos(in.Pos()), "per-request objects are taken from / returned to a sync.Pool: a handler that retains its Context observes another request's state")
			}
		})
	}
	if pool == 0 {
		c.OK("REQ:no-pool", "request phase", "no sync.Pool use in the request phase", len(reqList))
	}

	// ---- R6 status is atomic
	c.Rule("R6", "E5", "every access to the response status is a sync/atomic call", 2)
	if f := p.Field("flamego", "responseWriter", "status"); f != nil {
		for _, u := range p.FieldUses(f) {
			key := p.FuncKey(u.Fn) + ":status." + u.Kind
			switch {
			case u.Kind == "callarg" && (strings.HasPrefix(u.Call, "sync/atomic.") || strings.HasPrefix(u.Call, "(*sync/atomic.")):
				c.OK(key, p.Pos(u.Instr.Pos()), u.Call, 1)
			case u.Kind == "store" && u.Fresh:
				c.OK(key, p.Pos(u.Instr.Pos()), "initialisation", 1)
			default:
				c.Bad(key, p.Pos(u.Instr.Pos()), "non-atomic access to the response status ("+u.Kind+" "+u.Call+"): Written()/Status() race with a concurrent WriteHeader")
			}
		}
	} else {
		c.Anchor("responseWriter.status")
	}
}
