package main

// C10 The static-route shortcut is unobservable.

import (
	"go/constant"
	"go/token"
	"go/types"
	"strings"

	"golang.org/x/tools/go/ssa"
)

func init() { register("C10", checkC10) }

// constVal returns the integer value of package-level constant pkg.name.
func (p *Prog) constVal(pkg, name string) (int64, bool) {
	pk := p.Pkgs[pkg]
	if pk == nil {
		return 0, false
	}
	c, ok := pk.Types.Scope().Lookup(name).(*types.Const)
	if !ok {
		return 0, false
	}
	return constant.Int64Val(c.Val())
}

// impliesLE: does boolean value cond, when it evaluates to pol, imply x <= bound?
func impliesLE(cond ssa.Value, pol bool, x VM, bound int64) bool {
	inner, pos := unNot(cond)
	if !pos {
		pol = !pol
	}
	b, ok := inner.(*ssa.BinOp)
	if !ok {
		return false
	}
	op := b.Op
	var k int64
	if x(b.X) {
		kk, isC := constInt(b.Y)
		if !isC {
			return false
		}
		k = kk
	} else if x(b.Y) {
		kk, isC := constInt(b.X)
		if !isC {
			return false
		}
		k = kk
		op = swapOp(op)
	} else {
		return false
	}
	if !pol {
		op = negOp(op)
	}
	switch op {
	case token.EQL:
		return k <= bound
	case token.LSS:
		return k-1 <= bound
	case token.LEQ:
		return k <= bound
	}
	return false
}

// edgesImplyingLE collects the CFG edges on which x <= bound is established.
func edgesImplyingLE(fn *ssa.Function, x VM, bound int64) EdgeSet {
	out := EdgeSet{}
	for _, b := range fn.Blocks {
		if len(b.Instrs) == 0 {
			continue
		}
		ifi, ok := b.Instrs[len(b.Instrs)-1].(*ssa.If)
		if !ok {
			continue
		}
		if impliesLE(ifi.Cond, true, x, bound) {
			out[Edge{b, 0}] = true
		}
		if impliesLE(ifi.Cond, false, x, bound) {
			out[Edge{b, 1}] = true
		}
	}
	return out
}

func checkC10(c *Check) {
	p := c.P
	c.Explain = "guard-cut reachability of every write to the shortcut table, key provenance of insert/evict/lookup, and a function summary of Leaf.Static(); these are the premises of the paper argument in DESIGN.md (C10) that a table hit names the leaf tree matching would return"
	c.NotDec = []string{"the paper argument's reliance on dispatch priority (C01): static outranks every other style and duplicates are rejected"}

	fSR := p.Field("flamego", "router", "staticRoutes")
	if fSR == nil {
		c.Rule("R0", "E5", "no shortcut table exists", 0)
		c.OK("flamego.router:no-shortcut-table", "router.go", "router has no staticRoutes table: the property holds trivially", 1)
		return
	}
	isSR := func(v ssa.Value) bool { return fieldOf(addrOfLoad(strip(v))) == fSR }
	// inner map: staticRoutes[k]
	innerOf := func(v ssa.Value) (key ssa.Value, ok bool) {
		lk, isL := strip(v).(*ssa.Lookup)
		if !isL || !isSR(lk.X) {
			return nil, false
		}
		return lk.Index, true
	}

	// ---- R1/R2 inserts
	c.Rule("R1", "E1 guard-cut", "a leaf is stored in the shortcut table only on the true edge of its own Static()", 1)
	c.Rule("R2", "E3 provenance", "insert key = the stored leaf's Route() under the method whose tree produced the leaf; outer-table entries are fresh maps; lookup key = (req.Method, req.URL.Path)", 3)
	var inserts, deletes int
	for _, fn := range p.Funcs() {
		allInstrs(fn, func(in ssa.Instruction) {
			switch x := in.(type) {
			case *ssa.MapUpdate:
				if isSR(x.Map) {
					c.curRule = "C10.R2"
					c.Cond(isFresh(x.Value), p.FuncKey(fn)+":outer-entry", p.Pos(x.Pos()), "staticRoutes[m] = fresh map", "an outer shortcut entry is set to a non-fresh map: "+vstr(x.Value))
					return
				}
				mkey, ok := innerOf(x.Map)
				if !ok {
					return
				}
				inserts++
				key := p.FuncKey(fn) + ":shortcut-insert"
				pos := p.Pos(x.Pos())
				leaf := x.Value
				c.curRule = "C10.R1"
				g := edgesWhere(fn, cBool(vCall("(route.Leaf).Static", vIs(leaf))), true)
				ok2, path := guardedBy(fn, g, isInstr(in))
				// the answer is this leaf's, asked in this iteration: an SSA value defined in a loop names a new leaf
				// on every pass, so a verdict carried over from an earlier pass (a hoisted `static` flag) is about
				// another method's leaf, whose tree has other siblings
				stale := false
				if def, isI := strip(leaf).(ssa.Instruction); isI && ok2 && len(g) > 0 {
					if e, isE := def.(*ssa.Extract); isE {
						if ti, isTI := e.Tuple.(ssa.Instruction); isTI {
							def = ti
						}
					}
					isStaticCall := func(i2 ssa.Instruction) bool {
						v, isV := i2.(ssa.Value)
						return isV && vCall("(route.Leaf).Static", vIs(leaf))(v)
					}
					if x2, pth := (Query{Fn: fn, Avoid: isStaticCall}).After(def, isInstr(in)); x2 != nil {
						stale = true
						c.Bad(key+":guard", pos, "the shortcut insert can be reached from the leaf's creation without asking this leaf's Static() on the way: a verdict obtained for another method's leaf (hoisted out of the per-method loop) is reused although Static() depends on the siblings in each method's tree", blockPath(pth))
					}
				}
				if stale {
					// reported above
				} else if ok2 && len(g) > 0 {
					c.OK(key+":guard", pos, "insert reachable only through leaf.Static() == true for the stored leaf", numInstrs(fn))
				} else {
					c.Bad(key+":guard", pos, "a leaf can enter the shortcut table without being static: requests for its route text are answered without tree matching", path)
				}
				c.curRule = "C10.R2"
				c.Cond(vCall("(route.Leaf).Route", vIs(leaf))(x.Key), key+":key", pos, "key = leaf.Route() of the stored leaf", "shortcut key is "+vstr(x.Key)+", not the stored leaf's own route text")
				// method agreement: leaf = AddRoute(routeTrees[m], …) with the same m
				okM := false
				if ar := asCall(leaf); ar != nil && callName(&ar.Call) == "route.AddRoute" {
					tv := strip(ar.Call.Args[0])
					if e, isE := tv.(*ssa.Extract); isE && e.Index == 0 {
						tv = e.Tuple // tree, ok := r.routeTrees[m]
					}
					if lk, isL := tv.(*ssa.Lookup); isL && vField(vAny, "routeTrees")(lk.X) && strip(lk.Index) == strip(mkey) {
						okM = true
					}
				}
				c.Cond(okM, key+":method", pos, "table method = method of the tree the leaf was added to", "the leaf is stored under a method other than the one whose tree holds it")
				// the stored leaf is one Route.Headers() will visit (and evict): it is also put, under the
				// same method, into the map that becomes Route.leaves
				evictable := false
				allInstrs(fn, func(in2 ssa.Instruction) {
					mu2, ok := in2.(*ssa.MapUpdate)
					if !ok || strip(mu2.Value) != strip(leaf) || strip(mu2.Key) != strip(mkey) {
						return
					}
					for _, r := range referrers(strip(mu2.Map)) {
						if st, ok := r.(*ssa.Store); ok {
							if f := fieldOf(strip(st.Addr)); f != nil && f.Name() == "leaves" {
								evictable = true
							}
						}
					}
				})
				c.Cond(evictable, key+":evictable", pos, "the stored leaf is also recorded in Route.leaves for the same method, so Headers() reaches and evicts it", "a leaf enters the shortcut table that Route.Headers() never visits: once header constraints are set it keeps being served from the shortcut without any header check")
			case ssa.CallInstruction:
				if callName(x.Common()) != "builtin.delete" {
					return
				}
				if _, ok := innerOf(x.Common().Args[0]); ok {
					deletes++
				} else if isSR(x.Common().Args[0]) {
					c.curRule = "C10.R2"
					c.Bad(p.FuncKey(fn)+":outer-delete", p.Pos(x.Pos()), "a whole method is removed from the shortcut table")
				}
			}
		})
	}
	c.curRule = "C10.R1"
	if inserts == 0 {
		c.OK("flamego.router:never-filled", "router.go", "the shortcut table is never filled: trivially unobservable", 1)
	}

	// lookup keys in ServeHTTP
	c.curRule = "C10.R2"
	if sh := p.Meth("flamego", "router", "ServeHTTP"); sh != nil {
		reqP := vParam(sh, 2)
		n := 0
		allInstrs(sh, func(in ssa.Instruction) {
			lk, ok := in.(*ssa.Lookup)
			if !ok {
				return
			}
			mkey, isInner := innerOf(lk.X)
			if !isInner {
				return
			}
			n++
			key := p.FuncKey(sh) + ":shortcut-lookup"
			okK := vField(reqP, "URL", "Path")(lk.Index)
			okM := vField(reqP, "Method")(mkey)
			c.Cond(okK && okM, key, p.Pos(lk.Pos()), "lookup by (req.Method, req.URL.Path)", "shortcut lookup key is ("+vstr(mkey)+", "+vstr(lk.Index)+") instead of (req.Method, req.URL.Path)")
			// tree selected by the same method
			okT := false
			allInstrs(sh, func(in2 ssa.Instruction) {
				if l2, ok := in2.(*ssa.Lookup); ok && vField(vParam(sh, 0), "routeTrees")(l2.X) && vField(reqP, "Method")(l2.Index) {
					okT = true
				}
			})
			c.Cond(okT, key+":same-method-tree", p.Pos(lk.Pos()), "the tree consulted on a miss is routeTrees[req.Method]", "tree and shortcut are selected by different keys")
		})
		if n == 0 && inserts > 0 {
			c.Bad(p.FuncKey(sh)+":shortcut-lookup", p.FuncPos(sh), "the table is filled but ServeHTTP never consults it (anchor drift)")
		}
	} else {
		c.Anchor("router.ServeHTTP")
	}

	// ---- R3 eviction wherever a matcher is set
	c.Rule("R3", "E2 order", "every SetHeaderMatcher call outside the route package is followed, on the Static() edge, by the delete of the same method's entry for the same leaf", 1)
	nSet := 0
	for _, fn := range p.Funcs() {
		if fn.Pkg == p.SSA["route"] {
			continue
		}
		for _, s := range callsIn(fn, func(n string, cm *ssa.CallCommon) bool { return strings.HasSuffix(n, ".SetHeaderMatcher") }) {
			nSet++
			var next *ssa.Next
			if e, ok := strip(s.Common().Value).(*ssa.Extract); ok && e.Index == 2 {
				next, _ = e.Tuple.(*ssa.Next)
			}
			if next == nil {
				c.Undecided(p.FuncKey(fn)+":evicts", p.Pos(s.Pos()), "SetHeaderMatcher receiver is not a range element")
				continue
			}
			checkEviction(c, fn, s, next, p.FuncKey(fn))
		}
	}
	if nSet == 0 {
		c.OK("flamego:no-SetHeaderMatcher-callers", "router.go", "no caller of SetHeaderMatcher outside the route package", 1)
	}
	// inside the route package a matcher is forwarded only to the short form of the same (optional) route,
	// which is never in the table; a leaf of another registration (e.g. the implicit HEAD twin) that received
	// a matcher this way would stay in the table unevicted
	for _, fn := range p.Funcs() {
		if fn.Pkg != p.SSA["route"] {
			continue
		}
		for _, s := range callsIn(fn, func(n string, cm *ssa.CallCommon) bool { return strings.HasSuffix(n, ".SetHeaderMatcher") }) {
			recv := s.Common().Value
			if !s.Common().IsInvoke() && len(s.Common().Args) > 0 {
				recv = s.Common().Args[0]
			}
			f := fieldOf(addrOfLoad(strip(recv)))
			okFwd := fn.Name() == "SetHeaderMatcher" && f != nil && f.Name() == "shortForm"
			c.Cond(okFwd, p.FuncKey(fn)+":forwards-to-short-form-only", p.Pos(s.Pos()), "the matcher is forwarded to the short form of the same route only", "a header matcher is forwarded inside the route package to a leaf other than the route's own short form: that leaf may be in the shortcut table and nothing evicts it (the shortcut then serves it without checking headers)")
		}
	}

	// ---- R5 static nodes compare the request segment with the segment's own canonical text
	c.Rule("R5", "E3 provenance", "a static leaf matches exactly TrimLeft(segment.String(), \"/?\") and a static tree exactly segment.String()[1:]: the text used as shortcut key is the text the tree compares with", 2)
	if nl := p.Fn("route", "newLeaf"); nl != nil {
		okLit := false
		allInstrs(nl, func(in ssa.Instruction) {
			if st, ok := in.(*ssa.Store); ok {
				if f := fieldOf(strip(st.Addr)); f != nil && f.Name() == "literals" {
					okLit = vCall("strings.TrimLeft", vCall("(*route.Segment).String", vParam(nl, 2)), vConstStr("/?"))(st.Val)
					if !okLit {
						c.Bad(p.FuncKey(nl)+":static-literals", p.Pos(st.Pos()), "a static leaf's literal is "+vstr(st.Val)+" rather than the segment's canonical text: the tree admits a different path than the route text used as shortcut key")
					}
				}
			}
		})
		if okLit {
			c.OK(p.FuncKey(nl)+":static-literals", p.FuncPos(nl), "literals = strings.TrimLeft(s.String(), \"/?\")", 1)
		}
	} else {
		c.Anchor("route.newLeaf")
	}
	if sm := p.Meth("route", "staticLeaf", "match"); sm != nil {
		// a true verdict implies literals == segment (in any control-flow shape)
		eq := cCmp(token.EQL, vField(vParam(sm, 0), "literals"), vParam(sm, 1))
		g := edgesWhere(sm, eq, true)
		isEq := func(v ssa.Value) bool { m, ps := eq(v); return m && ps }
		okAll, n := true, 0
		allInstrs(sm, func(in ssa.Instruction) {
			if r, isR := in.(*ssa.Return); isR && len(r.Results) == 1 {
				n++
				if ok, _ := boolImplies(sm, r.Results[0], r.Block(), isEq, g); !ok {
					okAll = false
				}
			}
		})
		c.Cond(okAll && n > 0, p.FuncKey(sm)+":exact-compare", p.FuncPos(sm), "static leaf: a match implies literals == segment", "the static leaf does not compare its literal text with the request segment exactly")
	}
	if sm := p.Meth("route", "staticTree", "match"); sm != nil {
		okT := false
		allInstrs(sm, func(in ssa.Instruction) {
			if b, ok := in.(*ssa.BinOp); ok && b.Op == token.EQL {
				text := func(v ssa.Value) bool {
					sl, ok := strip(v).(*ssa.Slice)
					return ok && sl.High == nil && vConstInt(1)(sl.Low) && vCall("(*route.Segment).String", vField(vParam(sm, 0), "segment"))(sl.X)
				}
				mm, pp := cCmp(token.EQL, text, vParam(sm, 1))(b)
				if mm && pp {
					okT = true
				}
				// the same text computed once by the constructor and kept in a field of the node (as the static
				// leaf does): every store of that field is newTree's `s.String()[1:]` for the segment the node is given
				kept := func(v ssa.Value) bool {
					r, ns, ok := fieldPath(v)
					if !ok || len(ns) != 1 || !vParam(sm, 0)(r) {
						return false
					}
					f := fieldOf(addrOfLoad(strip(v)))
					nt := p.Fn("route", "newTree")
					if f == nil || nt == nil {
						return false
					}
					nSt := 0
					for _, u := range p.FieldUses(f) {
						if u.Kind != "store" {
							continue
						}
						nSt++
						st, isSt := u.Instr.(*ssa.Store)
						if !isSt || u.Fn != nt {
							return false
						}
						sl, ok := strip(st.Val).(*ssa.Slice)
						if !ok || sl.High != nil || !vConstInt(1)(sl.Low) || !vCall("(*route.Segment).String", vParam(nt, 1))(sl.X) {
							return false
						}
						// the node's segment is that same parameter
						owner, _ := addrRoot(st.Addr)
						segOK := false
						for _, u2 := range p.FieldUses(p.Field("route", "baseTree", "segment")) {
							if st2, isSt2 := u2.Instr.(*ssa.Store); isSt2 && u2.Fn == nt {
								if o2, _ := addrRoot(st2.Addr); o2 == owner && vParam(nt, 1)(st2.Val) {
									segOK = true
								}
							}
						}
						if !segOK {
							return false
						}
					}
					return nSt > 0
				}
				if mm2, pp2 := cCmp(token.EQL, kept, vParam(sm, 1))(b); mm2 && pp2 {
					okT = true
				}
			}
		})
		c.Cond(okT, p.FuncKey(sm)+":exact-compare", p.FuncPos(sm), "static tree: segment.String()[1:] == segment", "the static tree does not compare its canonical text with the request segment exactly")
	}

	// ---- R4 Static() means "the route text is the only path it admits"
	c.Rule("R4", "E1 function summary", "Leaf.Static() returns true only for a non-optional leaf all of whose ancestors have style <= static", 2)
	leafN := p.Named("route", "Leaf")
	kStatic, okS := p.constVal("route", "matchStyleStatic")
	if leafN == nil || !okS {
		c.Anchor("route.Leaf / matchStyleStatic")
		return
	}
	var r6 []staticImpl
	for _, fn := range p.Implementations(leafN.Underlying().(*types.Interface), "Static") {
		key := p.FuncKey(fn)
		var rets []*ssa.Return
		allInstrs(fn, func(in ssa.Instruction) {
			if r, ok := in.(*ssa.Return); ok && len(r.Results) == 1 && !vConstBool(false)(r.Results[0]) {
				rets = append(rets, r)
			}
		})
		if len(rets) == 0 {
			c.OK(key+":never-static", p.FuncPos(fn), "always false", 1)
			continue
		}
		mayTrue := func(in ssa.Instruction) bool {
			for _, r := range rets {
				if in == ssa.Instruction(r) {
					return true
				}
			}
			return false
		}
		recv := vParam(fn, 0)
		// (1) not optional
		notOpt := edgesWhere(fn, cBool(vField(recv, "segment", "Optional")), false)
		ok, path := guardedBy(fn, notOpt, mayTrue)
		if ok && len(notOpt) > 0 {
			c.OK(key+":not-optional", p.FuncPos(fn), "true only on the !segment.Optional edge", numInstrs(fn))
		} else {
			c.Bad(key+":not-optional", p.FuncPos(fn), "a leaf with an optional segment can be Static(): its route text (containing '?') is not a path it admits, yet it is used as the shortcut key", path)
		}
		// (2) ancestor scan
		var anc *ssa.Phi
		allInstrs(fn, func(in ssa.Instruction) {
			ph, ok := in.(*ssa.Phi)
			if !ok || len(ph.Edges) != 2 {
				return
			}
			hasInit, hasStep := false, false
			for _, e := range ph.Edges {
				if vField(recv, "parent")(e) {
					hasInit = true
				}
				if vCall("(route.Tree).getParent", vIs(ph))(e) {
					hasStep = true
				}
			}
			if hasInit && hasStep {
				anc = ph
			}
		})
		if anc == nil {
			c.Undecided(key+":ancestors", p.FuncPos(fn), "no ancestor scan φ(l.parent, ancestor.getParent()) found")
			continue
		}
		atRoot := edgesWhere(fn, cCmp(token.EQL, vIs(anc), vNil), true)
		ok, path = guardedBy(fn, atRoot, mayTrue)
		if ok && len(atRoot) > 0 {
			c.OK(key+":scan-complete", p.FuncPos(fn), "true only after the scan reached the root (ancestor == nil)", numInstrs(fn))
		} else {
			c.Bad(key+":scan-complete", p.FuncPos(fn), "Static() can return true before every ancestor was examined", path)
		}
		style := vCall("(route.Tree).getMatchStyle", vIs(anc))
		good := edgesImplyingLE(fn, style, kStatic)
		isStep := func(in ssa.Instruction) bool {
			v, ok := in.(ssa.Value)
			return ok && vCall("(route.Tree).getParent", vIs(anc))(v)
		}
		in1, p1 := Query{Fn: fn, Cut: good}.FromEntry(isStep)
		var in2 ssa.Instruction
		var p2 []*ssa.BasicBlock
		allInstrs(fn, func(in ssa.Instruction) {
			if isStep(in) && in2 == nil {
				in2, p2 = Query{Fn: fn, Cut: good}.After(in, isStep)
			}
		})
		if len(good) > 0 && in1 == nil && in2 == nil {
			c.OK(key+":ancestors-static", p.FuncPos(fn), "moving past an ancestor requires an edge on which its style <= static", numInstrs(fn))
		} else {
			pp := p1
			if in1 == nil {
				pp = p2
			}
			c.Bad(key+":ancestors-static", p.FuncPos(fn), "a leaf below a non-static ancestor can be Static(): its route text would answer for a dynamic route", blockPath(pp))
		}
		r6 = append(r6, staticImpl{fn, mayTrue})
	}

	// ---- R6 the tree's answer for the route text is this leaf
	c.Rule("R6", "E7 key agreement + E1 guard-cut", "two static leaves that admit the same text can coexist in one list only if the duplicate test of addLeaf uses a finer key than the match (it does: Segment.String() carries the '?' of an optional segment, the literal does not); then Static() must be false for a leaf that has an earlier sibling with the same literal, because the tree prefers the earlier one", 1)
	al := p.Fn("route", "addLeaf")
	if al == nil {
		c.Anchor("route.addLeaf")
		return
	}
	// (A) is the duplicate key of addLeaf the text a static leaf matches?
	dupOnLiteral := false
	allInstrs(al, func(in ssa.Instruction) {
		if b, ok := in.(*ssa.BinOp); ok && b.Op == token.EQL {
			lit := func(v ssa.Value) bool {
				return vCall("strings.TrimLeft", vAny, vConstStr("/?"))(v) || vFieldNamed("literals")(v)
			}
			if lit(b.X) && lit(b.Y) {
				dupOnLiteral = true
			}
		}
	})
	for _, si := range r6 {
		fn, mayTrue := si.fn, si.mayTrue
		key := p.FuncKey(fn)
		if dupOnLiteral {
			c.OK(key+":unique-literal", p.FuncPos(al), "addLeaf rejects a second leaf with the same literal text: at most one static leaf admits a given segment", 1)
			continue
		}
		recv := vParam(fn, 0)
		siblings := vCall("(route.Tree).getLeaves", vField(recv, "parent"))
		var loads []ssa.Instruction
		var elems []ssa.Value
		allInstrs(fn, func(in ssa.Instruction) {
			if v, ok := in.(ssa.Value); ok {
				if _, isEl := elemIndex(v, siblings); isEl {
					if _, isLoad := in.(*ssa.UnOp); isLoad {
						loads = append(loads, in)
						elems = append(elems, v)
					}
				}
			}
		})
		if len(loads) == 0 {
			c.Bad(key+":earlier-sibling", p.FuncPos(fn), "Static() does not look at the leaf's siblings although an optional leaf with the same literal can precede it (Get(\"/a/?b\") then Get(\"/a/b\")): the shortcut serves \"/a/b\" with the later route while the tree picks the earlier one")
			continue
		}
		fromElem := func(v ssa.Value) bool {
			v = strip(v)
			for {
				switch x := v.(type) {
				case *ssa.Extract:
					v = strip(x.Tuple)
					continue
				case *ssa.TypeAssert:
					v = strip(x.X)
					continue
				case *ssa.ChangeInterface:
					v = strip(x.X)
					continue
				}
				break
			}
			for _, e := range elems {
				if v == e {
					return true
				}
			}
			return false
		}
		sameText := cCmp(token.EQL, vField(fromElem, "literals"), vField(recv, "literals"))
		shadow := edgesWhere(fn, sameText, true)
		distinct := edgesWhere(fn, sameText, false)
		self := edgesWhere(fn, cCmp(token.EQL, fromElem, func(v ssa.Value) bool {
			mi, ok := strip(v).(*ssa.MakeInterface)
			return (ok && recv(mi.X)) || recv(v)
		}), true)
		notStatic := EdgeSet{}
		for _, b := range fn.Blocks {
			if ifi, ok := b.Instrs[len(b.Instrs)-1].(*ssa.If); ok {
				if ex, ok := strip(ifi.Cond).(*ssa.Extract); ok && ex.Index == 1 {
					if ta, ok := ex.Tuple.(*ssa.TypeAssert); ok && fromElem(ta) {
						notStatic[Edge{b, 1}] = true
					}
				}
			}
		}
		ok := len(shadow) > 0
		why := "no comparison of a sibling's literal with the leaf's own"
		if ok {
			// (1) an equal earlier sibling never leads to a true verdict
			for e := range shadow {
				// every path from the equal-literal edge ends in a false verdict (flags resolved along the path)
				eachPathToReturn(fn, e, func(path []*ssa.BasicBlock, r *ssa.Return) bool {
					if val, known := boolOnPath(path, r.Results[0]); !known || val {
						ok, why = false, "an earlier sibling with the same literal does not force the verdict false"
						return false
					}
					return true
				})
			}
		}
		if ok {
			// (2) every sibling before the leaf itself is examined: from the element load, the next
			// element or a true verdict is reached only through self-identity, a sibling of another
			// kind, or the literal comparison having failed
			cut := EdgeSet{}
			for e := range self {
				cut[e] = true
			}
			for e := range notStatic {
				cut[e] = true
			}
			for e := range distinct {
				cut[e] = true
			}
			for e := range shadow {
				cut[e] = true
			}
			for _, ld := range loads {
				tgt := func(in ssa.Instruction) bool { return mayTrue(in) || in == ld }
				if in, _ := (Query{Fn: fn, Cut: cut}).After(ld, tgt); in != nil {
					ok, why = false, "a sibling can be passed over without its literal being compared"
				}
			}
			// (4) the scan ends at the leaf itself: siblings registered LATER must not change the answer, because it
			// is asked twice — at registration (enter the table?) and in Headers() (evict the entry?) — and must agree
			for e := range self {
				if e.S >= len(e.B.Succs) {
					continue
				}
				if in, _ := (Query{Fn: fn}).Reach(e.B.Succs[e.S], 0, inSet(loads)); in != nil {
					ok, why = false, "the scan goes on past the leaf itself: a twin registered later turns the answer false, so a leaf that entered the shortcut table is no longer evicted by Headers()"
				}
			}
			if len(self) == 0 {
				ok, why = false, "the scan never recognises the leaf itself: siblings registered later take part in the answer"
			}
			// (3) the scan is on every path to a true verdict
			if in, _ := (Query{Fn: fn, Avoid: func(in ssa.Instruction) bool {
				v, isV := in.(ssa.Value)
				return isV && siblings(v)
			}}).FromEntry(mayTrue); in != nil {
				ok, why = false, "a true verdict is reachable without the sibling scan"
			}
		}
		c.Cond(ok, key+":earlier-sibling", p.FuncPos(fn), "true only when no earlier sibling has the same literal (scan of parent.getLeaves() up to the leaf itself)", "Static() can be true for a leaf that an earlier optional leaf with the same literal shadows in the tree (Get(\"/a/?b\") then Get(\"/a/b\")): "+why)
	}

	// ---- R7 Static() answers "is an earlier sibling of the same literal in front of me" from the list order
	c.Rule("R7", "shared with C01 (R2)", "siblings are inserted behind every entry of the same or higher priority (registered earlier ⇒ earlier in the list): Static() of a leaf is computed once at registration from the siblings in front of it, so a later insert in front of an existing entry would make the table and the tree disagree", 3)
	c.Share("C01", []string{"R2"}, 3)
	c.Rule("R8", "shared with C01 (R7)", "shortcut and tree are asked with the same text: the tree is matched against req.URL.Path of routeTrees[req.Method], the very key the shortcut is looked up under (another spelling of the path for one of the two makes the shortcut observable)", 3)
	c.Share("C01", []string{"R7"}, 3)
}

type staticImpl struct {
	fn      *ssa.Function
	mayTrue func(ssa.Instruction) bool
}
