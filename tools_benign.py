#!/usr/bin/env python3
"""tools_benign.py <srcdir> <id>: confirm an independently produced behaviour-preserving refactoring
(srcdir has patch.diff, notes.txt): scratch worktree of /repo HEAD under /tmp, git apply, go build, go vet,
358 baseline tests; store under /verif/benign/<id>/ and run all 18 quick checks on it in memory
(bin/flamecheck -audit -property benign/<id>)."""
import json, os, shutil, subprocess, sys, re
src, ident = sys.argv[1], sys.argv[2]
ENV = dict(os.environ, GOFLAGS='-mod=mod', GOPROXY='off', GOSUMDB='off', GOTOOLCHAIN='local')
ENV.pop('GOWORK', None)
def sh(cmd, cwd=None):
    return subprocess.run(cmd, shell=True, cwd=cwd, env=ENV, capture_output=True, text=True)
wt = '/tmp/wtb_' + ident
sh('git -C /repo worktree remove --force %s' % wt)
r = sh('git -C /repo worktree add --detach %s HEAD' % wt)
assert r.returncode == 0, r.stderr
meta = {'id': ident, 'source': 'independent sub-agent given only the property text and a scratch worktree; asked for strictly behaviour-preserving refactorings'}
try:
    r = sh('git apply %s/patch.diff' % os.path.abspath(src), cwd=wt)
    meta['applies'] = r.returncode == 0
    if r.returncode == 0:
        r = sh('go build ./... && go vet ./...', cwd=wt)
        meta['builds_and_vets'] = r.returncode == 0
        r = sh('python3 /verif/tools_baseline.py %s' % wt)
        meta['baseline_output'] = r.stdout.strip().splitlines()[-1] if r.stdout.strip() else r.stderr[-200:]
        meta['baseline_358_pass'] = 'missing: 0' in meta['baseline_output']
finally:
    sh('git -C /repo worktree remove --force %s' % wt)
dst = '/verif/benign/' + ident
os.makedirs(dst, exist_ok=True)
shutil.copy(os.path.join(src, 'patch.diff'), dst + '/patch.diff')
if os.path.exists(os.path.join(src, 'notes.txt')):
    shutil.copy(os.path.join(src, 'notes.txt'), dst + '/notes.txt')
meta['accepted'] = bool(meta.get('applies') and meta.get('builds_and_vets') and meta.get('baseline_358_pass'))
json.dump(meta, open(dst + '/meta.json', 'w'), indent=1)
r = sh('./bin/flamecheck -audit -audit-all -property benign/%s' % ident, cwd='/verif')
fa = [l for l in r.stdout.splitlines() if l.startswith('AUDIT-WARNING')]
meta['quiet_at_first_evaluation'] = not fa and 'false-alarm=0' in r.stdout
meta['alarms_at_first_evaluation'] = [re.sub(r'^AUDIT-WARNING ', '', l)[:600] for l in fa]
json.dump(meta, open(dst + '/meta.json', 'w'), indent=1)
print(ident, 'accepted' if meta['accepted'] else 'REJECTED', meta.get('baseline_output'), 'quiet' if meta['quiet_at_first_evaluation'] else 'ALARMS=%d' % len(fa))
for l in fa:
    print('   ', l[:400])
