#!/usr/bin/env python3
"""Writes benign/INDEX.md and the BENIGN table in DESIGN.md from benign/*/meta.json."""
import json, glob, re
rows = []
for f in sorted(glob.glob('/verif/benign/*/meta.json')):
    m = json.load(open(f))
    first = m.get('alarms_at_first_evaluation', [])
    firstp = sorted(set(re.findall(r"property=(C\d+)", ' '.join(first))))
    now = m.get('alarms_now', [])
    nowp = sorted(set(a['property'] + ':' + ','.join(a['rules']) for a in now))
    kind = ''
    try:
        kind = open(f.replace('meta.json', 'notes.txt')).read().strip().splitlines()[0][:90]
    except Exception:
        pass
    rows.append((m['id'], 'yes' if m.get('accepted') else 'no', 'quiet' if m.get('quiet_at_first_evaluation') else ('alarms: ' + ' '.join(firstp) if firstp else 'alarms'), 'quiet (armed)' if m.get('armed') else 'OPEN: ' + '; '.join(nowp), kind.replace('|', '/')))
out = ["| id | builds, vets, 358 tests pass | first evaluation | now | kind (first line of the author's notes) |", "|---|---|---|---|---|"]
for r in rows:
    out.append("| %s | %s | %s | %s | %s |" % r)
open('/verif/benign/INDEX.md', 'w').write("# Independent behaviour-preserving refactorings\n\n" + "\n".join(out) + "\n")
n = len(rows); q = sum(1 for r in rows if r[3].startswith('quiet'))
print('benign refactorings: %d quiet now: %d open: %d' % (n, q, n - q))
