#!/usr/bin/env python3
"""Writes the prompt for an independent sub-agent: tools_agent_prompt.py <prop> <suffix> break|benign [hint]
The agent gets only the property text and its own scratch worktree /tmp/wt_<prop><suffix> (created here)."""
import json, sys, subprocess, os
prop, suffix, mode = sys.argv[1:4]
hint = sys.argv[4] if len(sys.argv) > 4 else "a particular input, history or schedule"
d = None
for l in open('/verif/properties.jsonl'):
    x = json.loads(l)
    if x['id'] == prop:
        d = x
text = "%s — %s\n\nStatement: %s\n\nQuantified over: %s" % (d['id'], d['title'], d['statement'], d['quantifier']['text'])
files = ", ".join(d['anchors']['files'])
ident = prop + suffix
t = open('/verif/agents/%s_tmpl.txt' % mode).read()
t = t.replace('@ID@', ident).replace('@PROP@', text).replace('@FILES@', files).replace('@HINT@', hint).replace('@DEMO@', '')
wt = '/tmp/wt_' + ident
if not os.path.isdir(wt):
    subprocess.run(['git', '-C', '/repo', 'worktree', 'add', '--detach', wt, 'HEAD'], check=True, capture_output=True)
os.makedirs('/tmp/out_' + ident, exist_ok=True)
open('/tmp/agent_prompt_%s.txt' % ident, 'w').write(t)
print('/tmp/agent_prompt_%s.txt' % ident)
